#!/usr/bin/env python3
"""Translator for the pointer code of HashMap.hpp / HashSet.hpp / PoolMap.hpp (property C02).

Extracts from the CURRENT headers the bodies of
    find(key)   insert(position, key[, value])   remove(iterator)   remove(key)   PoolMap::remove(const V&)
    removeFront()   removeBack()   clear()   swap(other)   operator=(other)   operator==(other)
    HashSet::append(other)   HashSet::remove(other)   size()   isEmpty()   contains(key)   front()   back()   append   prepend
and, once more with `other` = the object itself, operator= / swap / HashSet::append / HashSet::remove
(tokenizer + recursive-descent parser for the C++ subset these bodies are written in) and writes them, statement by
statement, as Lean functions over the node heap of lean/Nstd/Hash/PtrModel.lean (`Ptr.PTable`: `items`, `heads`, `begin`,
`endPrev`, `freeItem`, …) into lean/Nstd/Generated/HashLink.lean.  lean/Nstd/Hash/PropsLink.lean proves that the generated
functions are the hand-written steps of the pointer-level model (`PTable.find`, `insert`, `removeItem`, `removeKey`,
`clear`, `swap`, `assignFrom`, `equal`, `appendAll`, `removeAll`, `swapSelf`, `appendSelf`, `removeSelf`, …) on every heap that
represents a model state; lean/Nstd/Hash/GenStep.lean runs them as the steps of the two-table machine (`gstep`), which is what
the driver of the correspondence run executes.

Anything outside the understood subset is REFUSED (exception -> the check reports a broken tie).

Semantics of the translation (assumptions, listed in the MANIFEST note):
  Item* that may be null (nextCell, prev, freeItem, endItem.prev, data[i])  -> Option Nat; dereferencing null = fault
      (the whole function returns `none`)
  Item* that is an item or a sentinel (`next`, `_begin.item`, `&endItem`, Iterator) -> `Nxt`; only `prev` of a
      sentinel can be accessed (`endItem.prev`), every other field of a sentinel is a fault; null converted to an Iterator
      that is then dereferenced is a fault
  Item** (`cell`, `&data[i]`, `&item->nextCell`) -> `CellRef`;  `*cell` -> `readCell` / `writeCell`
  `data` -> `allocated` + `heads`; `data[i]` / `&data[i]` only where `data` is known to be non-null (after `if(!data) return`
      or after the allocation statement), otherwise refused
  `if(!data) { data = (Item**)new char[sizeof(Item*) * capacity]; Memory::zero(data, sizeof(Item*) * capacity); }`
      -> `allocBuckets` (all heads null)
  the item block allocation (`new char[sizeof(ItemBlock) + sizeof(Item) * N]`, chaining into `blocks`, the fill loop) is
      recognised as a whole (identifiers free, shape fixed) and replaced by the model's `newBlockFirst` (HashMap/HashSet:
      first item used, the others pushed) / `newBlockAll` (PoolMap: all pushed); N is tied by the constants translator
  `new(p) Item(key, value)` -> key, value stored; `new(p) Item(key)` -> key stored, value 0 (no value / default constructed);
      `#ifdef VERIFY VERIFY(X == p); #else X; #endif` -> X
  `p->~Item();` -> skipped (element destructors: C04)
  loops (`while(p)`, `for(init; a != b; step)`) -> structurally recursive functions over a `fuel` argument (out of fuel with
      the condition still true = fault); the statements after the loop are the exit branch
  `hash(key)` -> the parameter `h`;  `(a = b)->f = c` : c, then b, then the stores (C++17 order)
  swap: every pointer value carries the heap it points into (`this`' or `other`'s; the model keeps one heap per table and
      `swap` exchanges them); at the end every member of an object must point into one heap, otherwise refused
"""
import re
import sys
from pathlib import Path


class Refuse(Exception):
    pass


def strip_comments(src):
    src = re.sub(r"/\*.*?\*/", " ", src, flags=re.S)
    return re.sub(r"//[^\n]*", "", src)


TOK = re.compile(r"\s*(->|==|!=|<=|>=|&&|\|\||\+\+|--|::|[A-Za-z_]\w*|\d+|[{}()\[\];,<>=+\-*/!?:&.~|^%#])")
IDENT = re.compile(r"[A-Za-z_]\w*$")


def tokenize(text):
    toks, pos = [], 0
    text = text.rstrip()
    while pos < len(text):
        m = TOK.match(text, pos)
        if not m:
            if text[pos:].strip() == "":
                break
            raise Refuse(f"cannot tokenize at {text[pos:pos + 30]!r}")
        toks.append(m.group(1))
        pos = m.end()
    return toks


def balanced(src, start):
    depth = 0
    for i in range(start, len(src)):
        if src[i] == "{":
            depth += 1
        elif src[i] == "}":
            depth -= 1
            if depth == 0:
                return i + 1
    raise Refuse("unbalanced braces")


def extract(src, what, sig_rx):
    ms = list(re.finditer(sig_rx + r"\s*(?:const\s*)?\{", src))
    if len(ms) != 1:
        raise Refuse(f"{what}: {len(ms)} definitions found, expected exactly one")
    m = ms[0]
    end = balanced(src, m.end() - 1)
    return src[m.end():end - 1]


def extract_all(src, what, sig_rx):
    """the bodies of all overloads that match (const / non-const)"""
    ms = list(re.finditer(sig_rx + r"\s*(?:const\s*)?\{", src))
    if not ms:
        raise Refuse(f"{what}: no definition found")
    return [src[m.end():balanced(src, m.end() - 1) - 1] for m in ms]


def resolve_verify(body, fn):
    """`#ifdef VERIFY  VERIFY(X == p);  #else  X;  #endif`  ->  `X;` (both variants construct the same item)"""
    def rep(m):
        a = re.sub(r"\s+", "", m.group(1))
        b = re.sub(r"\s+", "", m.group(3))
        mm = re.fullmatch(r"new\((\w+)\)Item\(.*\)", a)
        if a != b or not mm or mm.group(1) != m.group(2):
            raise Refuse(f"{fn}: the two variants under `#ifdef VERIFY` differ")
        return m.group(3) + ";"
    body = re.sub(r"#\s*ifdef\s+VERIFY\s+VERIFY\s*\((.*?)==\s*(\w+)\s*\)\s*;\s*#\s*else\s+(.*?);\s*#\s*endif", rep, body, flags=re.S)
    if "#" in body:
        raise Refuse(f"{fn}: preprocessor directive outside the understood `#ifdef VERIFY` form")
    return body


# ---- parser ------------------------------------------------------------------------------------------------------------
class P:
    def __init__(self, toks, fn):
        self.t, self.i, self.fn = toks, 0, fn

    def peek(self, k=0):
        return self.t[self.i + k] if self.i + k < len(self.t) else None

    def eat(self, x=None):
        tok = self.peek()
        if tok is None or (x is not None and tok != x):
            raise Refuse(f"{self.fn}: expected {x!r}, found {tok!r}")
        self.i += 1
        return tok

    def text_upto_semicolon(self):
        j = self.i
        while j < len(self.t) and self.t[j] != ";":
            if self.t[j] in ("{", "}"):
                return None
            j += 1
        return "".join(self.t[self.i:j]) if j < len(self.t) else None

    def skip_semicolon(self):
        while self.eat() != ";":
            pass

    def stmt_tokens(self, j):
        """index after the statement that starts at token j (a block or up to ';'; `if`/`for` are not needed here)"""
        if self.t[j] == "{":
            depth = 0
            while True:
                if self.t[j] == "{":
                    depth += 1
                elif self.t[j] == "}":
                    depth -= 1
                    if depth == 0:
                        return j + 1
                j += 1
        while self.t[j] != ";":
            j += 1
        return j + 1

    def stmts(self):
        out = []
        while self.peek() is not None and self.peek() != "}":
            a = self.alloc_sequence()
            out.append(a if a is not None else self.stmt())
        return out

    # -- recognised as a whole -------------------------------------------------------------------------------------------
    _BYTES = r"(?:sizeof\(Item\*\)\*capacity|capacity\*sizeof\(Item\*\))"
    DATA_ALLOC = re.compile(r"\{data=\(Item\*\*\)newchar\[" + _BYTES + r"\];"
                            r"(?:Memory::zero\(data," + _BYTES + r"\)|Memory::fill\(data,0," + _BYTES + r"\));\}")
    BLOCK_FIRST = re.compile(r"\{ItemBlock\*(?P<b>\w+)=\(ItemBlock\*\)newchar\[sizeof\(ItemBlock\)\+sizeof\(Item\)\*(?P<n>\w+)\];"
                             r"(?P=b)->next=blocks;blocks=(?P=b);"
                             r"(?P<x>\w+)=\(Item\*\)\(\(char\*\)(?P=b)\+sizeof\(ItemBlock\)\);"
                             r"for\(Item\*(?P<i>\w+)=(?P=x)\+1,\*(?P<e>\w+)=(?P=x)\+(?P=n);(?P=i)<(?P=e);\+\+(?P=i)\)"
                             r"\{(?P=i)->prev=freeItem;freeItem=(?P=i);\}\}")
    BLOCK_ALL = re.compile(r"\{ItemBlock\*(?P<b>\w+)=\(ItemBlock\*\)newchar\[sizeof\(ItemBlock\)\+sizeof\(Item\)\*(?P<n>\w+)\];"
                           r"(?P=b)->next=blocks;blocks=(?P=b);"
                           r"for\(Item\*(?P<i>\w+)=\(Item\*\)\((?P=b)\+1\),\*(?P<e>\w+)=(?P=i)\+(?P=n);(?P=i)<(?P=e);\+\+(?P=i)\)"
                           r"\{(?P=i)->prev=(?P<x>\w+);(?P=x)=(?P=i);\}freeItem=(?P=x);\}")

    BLOCK_FIRST_SEQ = re.compile(BLOCK_FIRST.pattern[2:-2])
    BLOCK_ALL_SEQ = re.compile(BLOCK_ALL.pattern[2:-2].replace(r"freeItem=(?P=x);", r"(?P<st>freeItem=(?P=x);)?"))

    def alloc_sequence(self):
        """the item block allocation as a statement sequence at the cursor: ('allocfirst', x) | ('allocall', x) |
        ('allocall_local', x), consumed; or None"""
        if self.peek() != "ItemBlock":
            return None
        text = "".join(self.t[self.i:])
        for rx, kind in ((self.BLOCK_FIRST_SEQ, "allocfirst"), (self.BLOCK_ALL_SEQ, "allocall")):
            m = rx.match(text)
            if m:
                n, j = 0, self.i
                while n < m.end():
                    n += len(self.t[j]); j += 1
                if n != m.end():
                    return None
                self.i = j
                if kind == "allocall" and not m.group("st"):
                    kind = "allocall_local"
                return (kind, m.group("x"))
        return None

    def block_text(self, j):
        if self.t[j] != "{":
            return None, j
        k = self.stmt_tokens(j)
        return "".join(self.t[j:k]), k

    def stmt(self):
        tok = self.peek()
        if tok == "{":
            self.eat("{")
            b = self.stmts()
            self.eat("}")
            return ("block", b)
        if tok == "if":
            self.eat("if"); self.eat("(")
            c = self.expr()
            self.eat(")")
            text, k = self.block_text(self.i)
            if text is not None and "newchar[" in text:
                if c == ("not", ("id", "data")) and self.DATA_ALLOC.fullmatch(text):
                    self.i = k
                    if self.peek() == "else":
                        raise Refuse(f"{self.fn}: the bucket array allocation has an else branch")
                    return ("allocdata",)
                m = self.BLOCK_ALL_SEQ.fullmatch(text[1:-1])
                if m and c == ("not", ("id", m.group("x"))):
                    self.i = k
                    if self.peek() == "else":
                        raise Refuse(f"{self.fn}: the block allocation has an else branch")
                    return ("allocall" if m.group("st") else "allocall_local", m.group("x"))
                raise Refuse(f"{self.fn}: `new char[` in a statement that is neither the understood bucket array allocation "
                             f"nor the understood item block allocation")
            a = self.stmt()
            b = ("block", [])
            if self.peek() == "else":
                self.eat("else")
                text, k = self.block_text(self.i)
                if text is not None and "newchar[" in text and c == ("id", "data") and self.DATA_ALLOC.fullmatch(text):
                    self.i = k
                    b = ("allocdata",)
                elif text is not None and "newchar[" in text:
                    m = self.BLOCK_FIRST.fullmatch(text)
                    if not m:
                        raise Refuse(f"{self.fn}: `new char[` in an else branch that is not the understood item block allocation")
                    self.i = k
                    b = ("allocfirst", m.group("x"))
                else:
                    b = self.stmt()
            return ("if", c, a, b)
        if tok == "while":
            self.eat("while"); self.eat("(")
            c = self.expr()
            self.eat(")")
            return ("while", c, self.stmt(), [])
        if tok == "for":
            self.eat("for"); self.eat("(")
            inits = self.for_init()
            c = self.expr()
            self.eat(";")
            steps = [("expr", self.expr())]
            while self.peek() == ",":
                self.eat(",")
                steps.append(("expr", self.expr()))
            self.eat(")")
            body = self.stmt()
            return ("block", inits + [("while", c, body, steps)])
        if tok == "return":
            if self.text_upto_semicolon() == "return*this":
                self.skip_semicolon()
                return ("return", None)          # `C& operator=`: the object itself
            self.eat("return")
            if self.peek() == ";":
                self.eat(";")
                return ("return", None)
            e = self.expr()
            self.eat(";")
            return ("return", e)
        if tok == "break":
            self.eat(); self.eat(";")
            return ("break",)
        if tok in ("do", "switch", "goto", "continue", "delete", "try", "throw"):
            raise Refuse(f"{self.fn}: statement `{tok}` is outside the translated subset")
        text = self.text_upto_semicolon()
        if text == "endItem.next=0":
            self.skip_semicolon()
            return ("block", [])                 # the sentinel's `next` is never read (only `prev` of a sentinel is modelled)
        if text == "this->capacity|=(usize)!capacity":
            self.skip_semicolon()
            return ("capfix",)
        if text is not None:
            m = re.fullmatch(r"(\w+)->~Item\(\)", text)
            if m:
                self.skip_semicolon()
                return ("destroy", m.group(1))
            m = re.fullmatch(r"new\((\w+)\)Item\((\w+)(?:,(\w+))?\)", text)
            if m:
                self.skip_semicolon()
                return ("construct", m.group(1), m.group(2), m.group(3))
            m = re.fullmatch(r"Item\*const(\w+)=\(Item\*\)&value", text) or re.fullmatch(r"Item\*(\w+)=\(Item\*\)&value", text)
            if m:
                self.skip_semicolon()
                return ("decl", "Item*", m.group(1), ("item_of_value",))
        if tok == "new":
            raise Refuse(f"{self.fn}: `new` expression outside the understood forms")
        if tok == "const" and self.peek(1) in ("Item", "usize", "Iterator", "ItemBlock"):
            self.eat()
            tok = self.peek()
        if tok in ("Item", "usize", "Iterator", "ItemBlock") and (self.peek(1) in ("*", "const") or IDENT.match(self.peek(1) or "")):
            ds = self.declaration()
            self.eat(";")
            return ds[0] if len(ds) == 1 else ("block*", ds)
        e = self.expr()
        self.eat(";")
        return ("expr", e)

    def declaration(self):
        """`T [*[*]] name [= e] {, [*] name = e}` -> list of decl statements"""
        base = self.eat()
        out = []
        while True:
            ty = base
            while self.peek() in ("*", "const"):
                if self.eat() == "*":
                    ty += "*"
            name = self.eat()
            if not IDENT.match(name):
                raise Refuse(f"{self.fn}: declarator `{name}`")
            e = None
            if self.peek() == "=":
                self.eat("=")
                e = self.expr()
            out.append(("decl", ty, name, e))
            if self.peek() == ",":
                self.eat(",")
                continue
            return out

    def for_init(self):
        if self.peek() == ";":
            self.eat(";")
            return []
        if self.peek() == "const":
            self.eat()
        if self.peek() in ("Item", "usize"):
            ds = self.declaration()
            self.eat(";")
            return ds
        e = self.expr()
        self.eat(";")
        return [("expr", e)]

    # -- expressions: assignment < equality < relational(<) < multiplicative(%) < unary < postfix
    def expr(self):
        lhs = self.equality()
        while self.peek() == "||":
            self.eat()
            lhs = ("or", lhs, self.equality())
        if self.peek() == "?":
            self.eat("?")
            a = self.expr()
            self.eat(":")
            return ("cond", lhs, a, self.expr())
        if self.peek() == "=":
            self.eat("=")
            return ("assign", lhs, self.expr())
        if self.peek() in ("&&", "+", "-", "*", "/", "<=", ">=", ">", "|", "^", "&"):
            raise Refuse(f"{self.fn}: operator `{self.peek()}` is outside the translated subset")
        return lhs

    def equality(self):
        a = self.relational()
        while self.peek() in ("==", "!="):
            op = self.eat()
            a = ("bin", op, a, self.relational())
        return a

    def relational(self):
        a = self.mult()
        if self.peek() == "<":
            self.eat()
            return ("bin", "<", a, self.mult())
        return a

    def mult(self):
        a = self.unary()
        while self.peek() == "%":
            self.eat()
            a = ("bin", "%", a, self.unary())
        return a

    def unary(self):
        tok = self.peek()
        if tok == "!":
            self.eat()
            return ("not", self.unary())
        if tok in ("++", "--"):
            self.eat()
            return ("pre" + ("inc" if tok == "++" else "dec"), self.unary())
        if tok == "&":
            self.eat()
            return ("addr", self.unary())
        if tok == "*":
            self.eat()
            return ("deref", self.unary())
        if tok in ("~", "-", "+", "sizeof"):
            raise Refuse(f"{self.fn}: operator `{tok}` is outside the translated subset")
        return self.postfix()

    def postfix(self):
        tok = self.eat()
        if tok == "(":
            if self.peek() in ("Item", "usize", "char", "ItemBlock", "T", "V", "const"):
                raise Refuse(f"{self.fn}: cast outside the understood forms")
            a = self.expr()
            self.eat(")")
        elif tok == "0":
            a = ("null",)
        elif re.fullmatch(r"\d+", tok):
            a = ("num", int(tok))
        elif tok == "operator" and self.peek() == "==" and self.peek(1) == "(":
            self.eat(); self.eat("(")
            b = self.expr()
            self.eat(")")
            a = ("bin", "==", ("id", "operator"), b)          # `operator==(other)`
        elif IDENT.match(tok):
            if self.peek() == "(":
                self.eat("(")
                args = []
                while self.peek() != ")":
                    args.append(self.expr())
                    if self.peek() == ",":
                        self.eat(",")
                self.eat(")")
                a = ("call", tok, args)
            else:
                a = ("id", tok)
        else:
            raise Refuse(f"{self.fn}: unexpected token {tok!r}")
        while self.peek() in ("->", ".", "[", "++", "--"):
            op = self.eat()
            if op == "[":
                i = self.expr()
                self.eat("]")
                a = ("index", a, i)
                continue
            if op not in ("->", "."):
                raise Refuse(f"{self.fn}: operator `{op}` is outside the translated subset")
            f = self.eat()
            if IDENT.match(f) and self.peek() == "(" and op == "." and a == ("id", "other"):
                self.eat("(")
                args = []
                while self.peek() != ")":
                    args.append(self.expr())
                    if self.peek() == ",":
                        self.eat(",")
                self.eat(")")
                a = ("mcall", a, f, args)
                continue
            if not IDENT.match(f) or self.peek() == "(":
                raise Refuse(f"{self.fn}: member `{f}` / member call is outside the translated subset")
            a = ("arrow" if op == "->" else "dot", a, f)
        return a


# ---- translation ---------------------------------------------------------------------------------------------------------
# Lean types: opt = Option Nat, item = Nat, nxt = Nxt, cell = CellRef, nat = Nat
LEAN_TY = {"opt": "Option Nat", "item": "Nat", "nxt": "Nxt", "cell": "CellRef", "nat": "Nat", "bool": "Bool",
           "opt@B": "Option Nat", "item@B": "Nat", "nxt@B": "Nxt"}      # @B: a pointer into the items of `other`
FIELD_TY = {"key": "nat", "value": "nat", "cell": "cell", "nextCell": "opt", "prev": "opt", "next": "nxt"}
SETTER = {"cell": "setCell", "nextCell": "setNextCell", "prev": "setPrev", "next": "setNext", "value": "setValueAt"}
MEMBERS = {"freeItem": ("freeItem", "opt"), "_size": ("size", "nat"), "capacity": ("cap", "nat"), "blocks": ("blocks", "nat")}


class Tr:
    """one function.  State variable `t : PTable`; `env`: name -> (term, type); `env['$data']` = `data` known non-null."""

    def __init__(self, cls, fn, spec, gen):
        self.cls, self.fn, self.spec, self.gen = cls, fn, spec, gen
        self.n = 0
        self.has_value = cls == "HashMap"
        self.aux = []          # loop functions (text), in order
        self.nloops = 0
        self.iters = {p for p, _ in spec["params"] if p in ("position", "it")}     # names of type Iterator

    def fresh(self, base):
        self.n += 1
        return f"{base}{self.n}"

    def refuse(self, msg):
        raise Refuse(f"{self.cls}::{self.fn}: {msg}")

    # --- coercions
    def coerce(self, term, ty, want):
        if ty == want:
            return term
        if ty.endswith("@B") and want.endswith("@B"):
            return self.coerce(term, ty[:-2], want[:-2])
        if ty == "item" and want == "opt":
            return f"(some {term})"
        if ty == "item" and want == "nxt":
            return f"(Nxt.item {term})"
        if ty == "null" and want == "opt":
            return "none"
        if ty == "null" and want == "nat":
            return "0"
        self.refuse(f"a value of type {ty} is used where {want} is expected")

    def ret_ty(self):
        r = self.spec["ret"]
        return "PTable" if r is None else f"(PTable × {LEAN_TY[r]})"

    def osig(self):
        return " (o : PTable)" if self.spec.get("other") not in (None, "self") else ""

    def oarg(self):
        return "o " if self.spec.get("other") not in (None, "self") else ""

    # --- lvalues: ('local', name) | ('member', leanfield, ty) | ('field', addr-expr, fieldname) | ('cellof', expr) | ('heads', idx)
    def lvalue(self, e, env):
        k = e[0]
        if k == "id":
            x = e[1]
            if x in env:
                return ("local", x)
            if x in MEMBERS:
                return ("member",) + MEMBERS[x]
            self.refuse(f"unknown name `{x}`")
        if k == "dot":
            base, f = e[1], e[2]
            if base == ("id", "_begin") and f == "item":
                return ("member", "begin", "nxt")
            if base == ("id", "endItem"):
                if f != "prev":
                    self.refuse(f"`endItem.{f}`: only `prev` of the sentinel is modelled")
                return ("member", "endPrev", "opt")
            self.refuse(f"`.{f}` on an expression that is not understood")
        if k == "arrow" and e[1] == ("id", "this"):
            return self.lvalue(("id", e[2]), {})              # `this->capacity`: the member, also where a parameter hides it
        if k == "arrow":
            if e[2] not in FIELD_TY:
                self.refuse(f"`{e[2]}` is not a field of Item")
            return ("field", e[1], e[2])
        if k == "deref":
            if e[1][0] == "id" and e[1][1] in self.iters:
                # `*it` of an Iterator: `item->value` (HashMap; HashSet / PoolMap never assign through an iterator here)
                if not self.has_value:
                    self.refuse("`*it` used as an lvalue")
                return ("field", e[1], "value")
            return ("cellof", e[1])
        self.refuse(f"not an lvalue: {k}")

    # --- expressions in continuation-passing style: k(term, type, env, ind) -> lines
    def ev(self, e, env, ind, k):
        kind = e[0]
        if kind == "null":
            return k("none", "null", env, ind)
        if kind == "num":
            return k(str(e[1]), "nat", env, ind)
        if kind == "item_of_value":
            if self.spec.get("value_item") is None:
                self.refuse("`(Item*)&value` in a function without a `const V& value` parameter")
            return k("value", "item", env, ind)
        if kind == "id" and e[1] in env:
            t, ty = env[e[1]]
            if t is None:
                self.refuse(f"`{e[1]}` is read before it is assigned")
            return k(t, ty, env, ind)
        if self.spec.get("other") == "self":
            # the member is called with the object itself as `other`: `other.x` IS `x`
            if e == ("dot", ("dot", ("id", "other"), "_begin"), "item"):
                return self.ev(("dot", ("id", "_begin"), "item"), env, ind, k)
            if e == ("addr", ("dot", ("id", "other"), "endItem")):
                return k("(Nxt.stl t.self)", "nxt", env, ind)
            if e == ("dot", ("id", "other"), "_size"):
                return k("t.size", "nat", env, ind)
        if e == ("dot", ("dot", ("id", "other"), "_begin"), "item") and self.spec.get("other"):
            return k("o.begin", "nxt@B", env, ind)
        if e == ("addr", ("dot", ("id", "other"), "endItem")) and self.spec.get("other"):
            return k("(Nxt.stl o.self)", "nxt@B", env, ind)
        if e == ("dot", ("id", "other"), "_size") and self.spec.get("other"):
            return k("o.size", "nat", env, ind)
        if kind == "id" and e[1] in ("true", "false") and e[1] not in env:
            return k(e[1], "bool", env, ind)
        if kind == "id" and e[1] == "_end":
            return k("(Nxt.stl t.self)", "nxt", env, ind)
        if kind == "id" and e[1] == "_begin":
            return k("t.begin", "nxt", env, ind)
        if kind == "dot" and e[2] == "item":
            # the pointer an iterator holds
            if e[1] == ("id", "_end"):
                return k("(Nxt.stl t.self)", "nxt", env, ind)
            if e[1][0] == "id" and e[1][1] in env and env[e[1][1]][1] in ("nxt", "item"):
                return self.ev(e[1], env, ind, k)
        if kind == "addr":
            a = e[1]
            if a == ("id", "endItem"):
                return k("(Nxt.stl t.self)", "nxt", env, ind)
            if a[0] == "index" and a[1] == ("id", "data"):
                if not env.get("$data"):
                    self.refuse("`&data[..]` where `data` is not known to be allocated")
                return self.ev(a[2], env, ind, lambda t, ty, env2, ind2: k(f"(CellRef.bucket {self.want(t, ty, 'nat')})", "cell", env2, ind2))
            if a[0] == "arrow" and a[2] == "nextCell":
                return self.deref(a[1], env, ind, lambda addr, env2, ind2: k(f"(CellRef.nextOf {addr})", "cell", env2, ind2))
            self.refuse("address-of other than `&endItem`, `&data[..]`, `&p->nextCell`")
        if kind == "index":
            if e[1] != ("id", "data"):
                self.refuse("`[..]` on something that is not `data`")
            if not env.get("$data"):
                self.refuse("`data[..]` where `data` is not known to be allocated")
            return self.ev(e[2], env, ind, lambda t, ty, env2, ind2: k(f"(t.heads {self.want(t, ty, 'nat')})", "opt", env2, ind2))
        if kind == "bin" and e[1] == "%":
            def after_a(ta, tya, env2, ind2):
                return self.ev(e[3], env2, ind2, lambda tb, tyb, env3, ind3:
                               k(f"({self.want(ta, tya, 'nat')} % {self.want(tb, tyb, 'nat')})", "nat", env3, ind3))
            return self.ev(e[2], env, ind, after_a)
        if kind == "cond":
            # `c ? a : b`: both alternatives continue with what follows
            return self.cond(e[1], env, ind, lambda env2, ind2: self.ev(e[2], env2, ind2, k),
                             lambda env2, ind2: self.ev(e[3], env2, ind2, k))
        if kind == "call" and e[1] == "Iterator" and len(e[2]) == 1:
            def after_it(t, ty, env2, ind2):
                if ty in ("item", "nxt"):
                    return k(self.coerce(t, ty, "nxt"), "nxt", env2, ind2)
                self.refuse(f"an Iterator is made of a value of type {ty}")
            return self.ev(e[2][0], env, ind, after_it)
        if kind == "call":
            return self.call(e, env, ind, k)
        if kind == "dot" and e[2] == "item" and e[1][0] == "call":
            return self.ev(e[1], env, ind, k)              # the pointer the returned iterator holds
        if kind == "bin" and e[1] == "==" and e[3] == ("id", "other") and e[2] in (("deref", ("id", "this")), ("id", "operator")) \
                and self.spec.get("other") is True:
            # `*this == other` / `operator==(other)`: the translated `operator==`
            spec = self.gen.specs[self.cls].get("equal")
            if spec is None or not spec.get("done"):
                self.refuse("`*this == other` before the translation of `operator==`")
            r = self.fresh("r")
            return ([f"{ind}match equal h t o with", f"{ind}| none => none", f"{ind}| some (t, {r}) =>"] +
                    k(r, "bool", self.wr(env), ind + "  "))
        if kind == "bin" and e[1] in ("==", "!="):
            def after_a(ta, tya, env2, ind2):
                def after_b(tb, tyb, env3, ind3):
                    tys = {tya, tyb}
                    eq = e[1] == "=="
                    if tys == {"opt", "null"} or tys == {"item", "null"}:
                        x, xt = (ta, tya) if tyb == "null" else (tb, tyb)
                        x = self.coerce(x, xt, "opt")
                        return k(f"{x}.isNone" if eq else f"{x}.isSome", "bool", env3, ind3)
                    if tys <= {"nat"}:
                        a, b = ta, tb
                    elif tys <= {"nxt", "item"}:
                        a, b = self.coerce(ta, tya, "nxt"), self.coerce(tb, tyb, "nxt")
                    else:
                        self.refuse(f"comparison of values of types {tya} and {tyb}")
                    return k(f"(decide ({a} {'=' if eq else '≠'} {b}))", "bool", env3, ind3)
                return self.ev(e[3], env2, ind2, after_b)
            return self.ev(e[2], env, ind, after_a)
        if kind == "not":
            def after_n(t, ty, env2, ind2):
                if ty in ("opt", "item"):
                    return k(f"{self.coerce(t, ty, 'opt')}.isNone", "bool", env2, ind2)
                if ty == "bool":
                    if t.endswith(".isNone"):
                        return k(t[:-len(".isNone")] + ".isSome", "bool", env2, ind2)
                    if t.startswith("(decide (") and " = " in t:
                        return k(t.replace(" = ", " ≠ ", 1), "bool", env2, ind2)
                    return k(f"(!{t})", "bool", env2, ind2)
                self.refuse(f"`!` applied to a value of type {ty}")
            return self.ev(e[1], env, ind, after_n)
        if kind == "deref":
            def after(t, ty, env2, ind2):
                if ty == "cell":
                    return k(f"(t.readCell {t})", "opt", env2, ind2)
                self.refuse(f"`*` applied to a value of type {ty}")
            return self.ev(e[1], env, ind, after)
        if kind in ("id", "dot", "arrow"):
            lv = self.lvalue(e, env)

            def kc(term, ty, env2, ind2):
                # a read whose outcome is already known (tested / dereferenced since the last store)
                c = env2.get("$cache", {}).get(term)
                if c is not None:
                    return k(c[0], c[1], env2, ind2)
                return k(term, ty, env2, ind2)
            if lv[0] == "member":
                return kc(f"t.{lv[1]}", lv[2], env, ind)
            if lv[0] == "field":
                f = lv[2]

                def fty(heap):
                    return FIELD_TY[f] + ("@B" if heap == "o" and FIELD_TY[f] in ("opt", "nxt") else "")

                def after(t, ty, env2, ind2):
                    if ty == "item":
                        return kc(f"(t.items {t}).{f}", FIELD_TY[f], env2, ind2)
                    if ty == "nxt" and f == "prev":
                        return kc(f"(t.prevOf {t})", "opt", env2, ind2)
                    return self.deref2(lv[1], env2, ind2, lambda a, hp, env3, ind3: kc(f"({hp}.items {a}).{f}", fty(hp), env3, ind3))
                # `x->prev` of an item-or-sentinel pointer reads `endItem.prev` for the sentinel
                if f == "prev":
                    return self.ev(lv[1], env, ind, lambda t, ty, env2, ind2:
                                   after(t, ty, env2, ind2) if ty in ("item", "nxt") else
                                   self.deref2(lv[1], env2, ind2, lambda a, hp, env3, ind3: kc(f"({hp}.items {a}).{f}", fty(hp), env3, ind3)))
                return self.deref2(lv[1], env, ind, lambda a, hp, env2, ind2: kc(f"({hp}.items {a}).{f}", fty(hp), env2, ind2))
        if kind == "assign":
            def after_rhs(t, ty, env2, ind2):
                if ty == "null":
                    return self.store(e[1], t, ty, env2, ind2, lambda env3, ind3: k(t, ty, env3, ind3))
                name = self.fresh("t")
                lines = [f"{ind2}let {name} := {t}"]
                return lines + self.store(e[1], name, ty, env2, ind2, lambda env3, ind3: k(name, ty, env3, ind3))
            return self.ev(e[2], env, ind, after_rhs)
        self.refuse(f"expression `{kind}` is outside the translated subset")

    def known(self, env, term, a):
        """env in which the read `term` is known to have produced the item `a` (until the next store)"""
        env2 = dict(env)
        c = dict(env.get("$cache", {}))
        c[term] = (a, "item")
        env2["$cache"] = c
        return env2

    def wr(self, env):
        """env after a store: nothing is known about what a read produces"""
        env2 = dict(env)
        env2.pop("$cache", None)
        return env2

    def want(self, t, ty, want):
        return self.coerce(t, ty, want)

    def call(self, e, env, ind, k):
        name, args = e[1], e[2]
        if name == "hash":
            if len(args) != 1 or args[0] != ("id", "key") or "key" not in env:
                self.refuse("`hash` of something that is not the parameter `key`")
            return k(f"(h {env['key'][0]})", "nat", env, ind)
        if name in ("append", "remove") and args == [("id", "other")] and self.spec.get("other"):
            # the bulk member of HashSet, with the caller's `other`
            alias = self.spec.get("other") == "self"
            target = {("append", False): "appendAll", ("append", True): "appendSelf",
                      ("remove", False): "removeAll", ("remove", True): "removeSelf"}[(name, alias)]
            spec = self.gen.specs[self.cls].get(target)
            if spec is None or not spec.get("done"):
                self.refuse(f"call of `{name}(other)` before its translation")
            return ([f"{ind}match {target} h t {'' if alias else 'o'} with", f"{ind}| none => none", f"{ind}| some t =>"] +
                    k("()", "unit", self.wr(env), ind + "  "))
        if self.gen.helper_source(self.cls, name, len(args)) is not None:
            return self.call_helper(e, env, ind, k)
        target, argtys = self.gen.resolve(self, name, args, env)
        # evaluate the arguments left to right
        terms = []

        def go(i, env2, ind2):
            if i == len(args):
                env2 = self.wr(env2)
                r = self.fresh("r")
                spec = self.gen.specs[self.cls][target]
                call = f"{target} h t " + " ".join(terms)
                if spec["ret"] is None:
                    return ([f"{ind2}match {call} with", f"{ind2}| none => none", f"{ind2}| some t =>"] +
                            k("()", "unit", env2, ind2 + "  "))
                return ([f"{ind2}match {call} with", f"{ind2}| none => none", f"{ind2}| some (t, {r}) =>"] +
                        k(r, spec["ret"], env2, ind2 + "  "))

            def after(t, ty, env3, ind3):
                want = argtys[i]
                if want == "nxt" and ty == "opt":
                    # an iterator made of a null pointer: any use of it is a fault
                    a = self.fresh("a")
                    terms.append(f"(Nxt.item {a})")
                    return ([f"{ind3}match {t} with", f"{ind3}| none => none", f"{ind3}| some {a} =>"] + go(i + 1, env3, ind3 + "  "))
                terms.append(self.coerce(t, ty, want))
                return go(i + 1, env3, ind3)
            if argtys[i] == "item":
                # the object a `const V&` designates lives in an item: a null pointer / a sentinel is a fault
                def after_item(a, env3, ind3):
                    terms.append(a)
                    return go(i + 1, env3, ind3)
                return self.deref(args[i], env2, ind2, after_item)
            return self.ev(args[i], env2, ind2, after)
        return go(0, env, ind)

    def call_helper(self, e, env, ind, k):
        """a call of a private member that is not one of the translated members: the helper is translated as a function of
        its own, its parameters typed by the arguments of this call"""
        name, args = e[1], e[2]
        vals = []

        def go(i, env2, ind2):
            if i == len(args):
                tys = ["opt" if ty == "null" else ty for _, ty in vals]
                hname, spec = self.gen.helper(self, name, tys, bool(env2.get("$data")))
                env2 = self.wr(env2)
                call = f"{hname} h t " + ("o " if spec.get("other") is True else "") + \
                    " ".join("none" if ty == "null" else t for t, ty in vals if ty not in ("$other", "$self"))
            if i < len(args) and args[i] == ("id", "other") and self.spec.get("other"):
                vals.append(("o", "$self" if self.spec.get("other") == "self" else "$other"))
                return go(i + 1, env2, ind2)
            if i == len(args):
                if spec["ret"] is None:
                    return ([f"{ind2}match {call} with", f"{ind2}| none => none", f"{ind2}| some t =>"] +
                            k("()", "unit", env2, ind2 + "  "))
                r = self.fresh("r")
                return ([f"{ind2}match {call} with", f"{ind2}| none => none", f"{ind2}| some (t, {r}) =>"] +
                        k(r, spec["ret"], env2, ind2 + "  "))

            def after(t, ty, env3, ind3):
                if ty.endswith("@B") or ty not in LEAN_TY and ty != "null":
                    self.refuse(f"argument of type {ty} in a call of the helper `{name}`")
                if ty == "nat" and t in ("key", "value"):
                    pass
                vals.append((t, ty))
                return go(i + 1, env3, ind3)
            return self.ev(args[i], env2, ind2, after)
        return go(0, env, ind)

    def deref(self, e, env, ind, k):
        """k(address term : Nat, env, ind) for an item of this object (stores, calls); a null pointer / a sentinel is a fault"""
        def k2(a, hp, env2, ind2):
            if hp != "t":
                self.refuse("an item of `other` is used where an item of this object is needed")
            return k(a, env2, ind2)
        return self.deref2(e, env, ind, k2)

    def deref2(self, e, env, ind, k):
        """k(address term : Nat, heap 't' | 'o', env, ind); a null pointer / a sentinel is a fault"""
        def after(t, ty, env2, ind2):
            hp, tag = ("o", "@B") if ty.endswith("@B") else ("t", "")
            ty = ty[:-2] if tag else ty
            if ty == "item":
                return k(t, hp, env2, ind2)
            a = self.fresh("a")
            env3 = self.known(env2, t, a) if not tag else dict(env2)
            if e[0] == "id" and e[1] in env3:
                env3[e[1]] = (a, "item" + tag)
            if ty == "opt":
                return ([f"{ind2}match {t} with", f"{ind2}| none => none", f"{ind2}| some {a} =>"] + k(a, hp, env3, ind2 + "  "))
            if ty == "nxt":
                return ([f"{ind2}match {t} with", f"{ind2}| Nxt.stl _ => none", f"{ind2}| Nxt.item {a} =>"] + k(a, hp, env3, ind2 + "  "))
            self.refuse(f"`->` applied to a value of type {ty}")
        return self.ev(e, env, ind, after)

    def store(self, lhs, term, ty, env, ind, k):
        """k(env, ind)"""
        lv = self.lvalue(lhs, env)
        if lv[0] == "local":
            old = env[lv[1]][1]
            if old not in (None, ty) and not ({old, ty} <= {"opt", "item", "null"}) and not ({old, ty} <= {"nxt", "item"}) \
                    and not ({old, ty} <= {"nxt@B", "item@B"}) and not ({old, ty} <= {"opt@B", "item@B"}):
                self.refuse(f"`{lv[1]}` changes its type from {old} to {ty}")
            if ty == "null":
                term, ty = "none", "opt"
            env2 = dict(env)
            name = self.fresh("v_" + lv[1] + "_")
            env2[lv[1]] = (name, ty)
            return [f"{ind}let {name} := {term}"] + k(env2, ind)
        if lv[0] == "member":
            lf, want = lv[1], lv[2]
            if want == "nxt" and ty in ("opt", "null"):
                self.refuse("a possibly null pointer is stored into `_begin.item`")
            v = self.coerce(term, ty, want)
            return [f"{ind}let t := {{ t with {lf} := {v} }}"] + k(self.wr(env), ind)
        if lv[0] == "cellof":
            def after(c, cty, env2, ind2):
                if cty != "cell":
                    self.refuse(f"`*` applied to a value of type {cty}")
                return [f"{ind2}let t := t.writeCell {c} {self.coerce(term, ty, 'opt')}"] + k(self.wr(env2), ind2)
            return self.ev(lv[1], env, ind, after)
        f = lv[2]
        if f == "key":
            self.refuse("store into `key`")
        if f == "value" and not self.has_value:
            self.refuse("store into `value` of a container that never writes values")
        v = self.coerce(term, ty, FIELD_TY[f])
        if f == "prev":
            def after(t, pty, env2, ind2):
                if pty == "nxt":
                    return [f"{ind2}let t := t.setPrevOf {t} {v}"] + k(self.wr(env2), ind2)
                return self.deref(lv[1], env2, ind2, lambda a, env3, ind3: [f"{ind3}let t := t.setPrev {a} {v}"] + k(self.wr(env3), ind3))
            return self.ev(lv[1], env, ind, after)
        return self.deref(lv[1], env, ind, lambda a, env2, ind2: [f"{ind2}let t := t.{SETTER[f]} {a} {v}"] + k(self.wr(env2), ind2))

    def cond(self, c, env, ind, kthen, kelse):
        if c[0] == "not":
            return self.cond(c[1], env, ind, kelse, kthen)
        if c == ("id", "data"):
            env_t = dict(env)
            env_t["$data"] = True
            return ([f"{ind}if t.allocated then"] + kthen(env_t, ind + "  ") + [f"{ind}else"] + kelse(env, ind + "  "))
        if c[0] == "or":
            # `a || b`: b is evaluated only when a is false
            return self.cond(c[1], env, ind, kthen, lambda env2, ind2: self.cond(c[2], env2, ind2, kthen, kelse))
        if c[0] == "bin" and c[1] in ("==", "!=") and {c[2], c[3]} == {("id", "this"), ("addr", ("id", "other"))}:
            # `this == &other`: `o` is ANOTHER object (the call with the object itself is the model's `assignSelf`)
            if not self.spec.get("other"):
                self.refuse("`this == &other` without a parameter `other`")
            if self.spec.get("other") == "self":
                return (kthen if c[1] == "==" else kelse)(env, ind)
            return (kelse if c[1] == "==" else kthen)(env, ind)
        if c[0] == "bin" and c[1] in ("==", "!="):
            def after_a(ta, tya, env2, ind2):
                def after_b(tb, tyb, env3, ind3):
                    tys = {tya, tyb}
                    if tys <= {"nat"}:
                        a, b = ta, tb
                    elif tys == {"nat", "null"}:
                        a, b = self.coerce(ta, tya, "nat"), self.coerce(tb, tyb, "nat")      # `n == 0`
                    elif tys <= {"nxt@B", "item@B"}:
                        a, b = self.coerce(ta, tya, "nxt@B"), self.coerce(tb, tyb, "nxt@B")
                    elif tys <= {"nxt", "item"}:
                        a, b = self.coerce(ta, tya, "nxt"), self.coerce(tb, tyb, "nxt")
                    else:
                        self.refuse(f"comparison of values of types {tya} and {tyb}")
                    yes, no = (kthen, kelse) if c[1] == "==" else (kelse, kthen)
                    return ([f"{ind3}if {a} = {b} then"] + yes(env3, ind3 + "  ") + [f"{ind3}else"] + no(env3, ind3 + "  "))
                return self.ev(c[3], env2, ind2, after_b)
            return self.ev(c[2], env, ind, after_a)

        if c[0] == "bin" and c[1] == "<":
            def lt_a(ta, tya, env2, ind2):
                def lt_b(tb, tyb, env3, ind3):
                    if {tya, tyb} != {"nat"}:
                        self.refuse(f"`<` on values of types {tya} and {tyb}")
                    return ([f"{ind3}if {ta} < {tb} then"] + kthen(env3, ind3 + "  ") + [f"{ind3}else"] + kelse(env3, ind3 + "  "))
                return self.ev(c[3], env2, ind2, lt_b)
            return self.ev(c[2], env, ind, lt_a)

        def after(t, ty, env2, ind2):
            if ty == "null":
                return kelse(env2, ind2)
            if ty == "item":
                return kthen(env2, ind2)
            if ty == "nat":
                return ([f"{ind2}if {t} = 0 then"] + kelse(env2, ind2 + "  ") + [f"{ind2}else"] + kthen(env2, ind2 + "  "))
            if ty == "bool":
                return ([f"{ind2}if {t} = true then"] + kthen(env2, ind2 + "  ") + [f"{ind2}else"] + kelse(env2, ind2 + "  "))
            if ty != "opt":
                self.refuse(f"condition of type {ty}")
            a = self.fresh("a")
            env3 = self.known(env2, t, a)
            if c[0] == "id" and c[1] in env3:
                env3[c[1]] = (a, "item")
            return ([f"{ind2}match {t} with", f"{ind2}| some {a} =>"] + kthen(env3, ind2 + "  ") +
                    [f"{ind2}| none =>"] + kelse(env2, ind2 + "  "))
        return self.ev(c, env, ind, after)

    # --- statements: the list `rest` is what follows (both branches of an `if` continue with it)
    def finish(self, env, ind):
        if self.spec["ret"] is not None:
            self.refuse("control reaches the end of a function that returns a value")
        return [f"{ind}some t"]

    def run(self, stmts, env, ind):
        if not stmts:
            return self.finish(env, ind)
        s, rest = stmts[0], stmts[1:]
        go = lambda env2, ind2: self.run(rest, env2, ind2)
        k = s[0]
        if k in ("block", "block*"):
            if k == "block" and any(x[0] == "decl" for x in s[1]) and any(self.declares(r, {x[2] for x in s[1] if x[0] == "decl"}) for r in rest):
                self.refuse("a name declared in a block is declared again after it")
            return self.run(list(s[1]) + rest, env, ind)
        if k == "loopback":
            return s[1](env, ind)
        if k == "break":
            if not getattr(self, "breaks", None):
                self.refuse("`break` outside a loop")
            return self.breaks[-1](env, ind)
        if k == "destroy":
            if s[1] not in env:
                self.refuse(f"destructor call on unknown `{s[1]}`")
            return go(env, ind)
        if k == "construct":
            p, kk, vv = s[1], s[2], s[3]
            if kk != "key" or "key" not in env or (vv is not None and (vv != "value" or "value" not in env)):
                self.refuse("`new(p) Item(..)` with arguments other than the parameters `key`[, `value`]")
            if (vv is not None) != self.has_value:
                self.refuse("`new(p) Item(..)`: number of constructor arguments")
            val = env["value"][0] if vv is not None else "0"
            return self.deref(("id", p), env, ind, lambda a, env2, ind2: [f"{ind2}let t := t.constructAt {a} {env['key'][0]} {val}"] + go(self.wr(env2), ind2))
        if k == "decl":
            ty, name, e = s[1], s[2], s[3]
            if name in env or name in MEMBERS or name in ("data", "endItem", "_begin", "_end"):
                self.refuse(f"`{name}` declared twice / shadows a member")
            if ty not in ("Item*", "Item**", "usize", "Iterator"):
                self.refuse(f"declaration of type `{ty}`")
            if e is None:
                env2 = dict(env)
                env2[name] = (None, None)
                return go(env2, ind)

            def after(t, ety, env2, ind2):
                want = {"Item*": ("opt", "item", "nxt", "null", "opt@B", "item@B", "nxt@B"), "usize": ("nat",), "Item**": ("cell",),
                        "Iterator": ("nxt", "item")}[ty]
                if ety not in want:
                    self.refuse(f"`{ty} {name}` initialised with a value of type {ety}")
                if ety == "null":
                    t, ety = "none", "opt"
                env3 = dict(env2)
                env3[name] = ("v_" + name, ety)
                if ty == "Iterator":
                    self.iters.add(name)
                return [f"{ind2}let v_{name} := {t}"] + go(env3, ind2)
            return self.ev(e, env, ind, after)
        if k == "capfix":
            # `this->capacity |= (usize)!capacity;`: the member or-ed with 1 iff the parameter is 0
            if "capacity" not in env:
                self.refuse("`this->capacity |= (usize)!capacity` without a parameter `capacity`")
            return [f"{ind}let t := {{ t with cap := t.cap ||| (if capacity = 0 then 1 else 0) }}"] + go(self.wr(env), ind)
        if k == "initdata":
            return [f"{ind}let t := {{ t with allocated := false, heads := fun _ => none }}"] + go(self.wr(env), ind)
        if k == "allocdata":
            env2 = self.wr(env)
            env2["$data"] = True
            return [f"{ind}let t := if t.allocated then t else t.allocBuckets"] + go(env2, ind)
        if k == "allocall":
            x = s[1]
            if x not in env or env[x][1] != "opt":
                self.refuse(f"the block allocation tests `{x}`, which is not a nullable pointer variable")
            name = self.fresh("v_" + x + "_")
            env2 = self.wr(env)
            env2[x] = (name, "opt")
            # the fill loop pushes on the tested local (null here) and ends with `freeItem = <local>`
            # what follows the allocation becomes a function of its own (as after an `if`), so that its proof is separate
            return ([f"{ind}let t := if {env[x][0]}.isNone then ({{ t with freeItem := none }} : PTable).newBlockAll else t",
                     f"{ind}let {name} := if {env[x][0]}.isNone then t.freeItem else {env[x][0]}"] + self.cont(rest, env2, ind))
        if k == "allocall_local":
            # the fill loop pushes on the tested local (null here); `freeItem` is not touched
            x = s[1]
            if x not in env or env[x][1] != "opt":
                self.refuse(f"the block allocation tests `{x}`, which is not a nullable pointer variable")
            name = self.fresh("v_" + x + "_")
            env2 = self.wr(env)
            env2[x] = (name, "opt")
            return ([f"{ind}let {name} := if {env[x][0]}.isNone then some (t.ipb * t.blocks + (t.ipb - 1)) else {env[x][0]}",
                     f"{ind}let t := if {env[x][0]}.isNone then t.newBlockLocal else t"] + self.cont(rest, env2, ind))
        if k == "allocfirst":
            x = s[1]
            if x not in env:
                self.refuse(f"the block allocation assigns `{x}`, which is not a local")
            name = self.fresh("v_" + x + "_")
            env2 = self.wr(env)
            env2[x] = (name, "item")
            return [f"{ind}let {name} := t.newBlockFirst.1", f"{ind}let t := t.newBlockFirst.2"] + go(env2, ind)
        if k == "if":
            if not rest or self.returns(s[2]) or self.returns(s[3]):
                # at most one branch continues with `rest`
                return self.cond(s[1], env, ind,
                                 lambda env2, ind2: self.run([s[2]] + rest, env2, ind2),
                                 lambda env2, ind2: self.run([s[3]] + rest, env2, ind2))
            return self.join(s, rest, env, ind)
        if k == "while":
            return self.loop(s, rest, env, ind)
        if k == "return":
            if s[1] is None:
                if self.spec["ret"] is not None:
                    self.refuse("`return;` in a function that returns a value")
                return [f"{ind}some t"]
            if self.spec["ret"] is None:
                self.refuse("value returned from a void function")

            def after(t, ty, env2, ind2):
                return [f"{ind2}some (t, {self.coerce(t, ty, self.spec['ret'])})"]
            return self.ev(s[1], env, ind, after)
        if k == "expr":
            e = s[1]
            if e[0] in ("preinc", "predec"):
                lv = self.lvalue(e[1], env)
                if lv[0] != "member" or lv[1] != "size":
                    self.refuse("`++`/`--` on something that is not `_size`")
                op = "+" if e[0] == "preinc" else "-"
                return [f"{ind}let t := {{ t with size := t.size {op} 1 }}"] + go(self.wr(env), ind)
            if e[0] == "assign":
                return self.ev(e, env, ind, lambda t, ty, env2, ind2: go(env2, ind2))
            if e[0] == "call":
                return self.ev(e, env, ind, lambda t, ty, env2, ind2: go(env2, ind2))
            self.refuse(f"expression statement `{e[0]}` without effect / outside the subset")
        self.refuse(f"statement `{k}`")

    def returns(self, s):
        """the statement never falls through"""
        if s[0] in ("return", "break"):
            return True
        if s[0] in ("block", "block*"):
            return bool(s[1]) and self.returns(s[1][-1])
        if s[0] == "if":
            return self.returns(s[2]) and self.returns(s[3])
        return False

    def join(self, s, rest, env, ind):
        """`if(c) A else B` followed by `rest`, both branches falling through: `rest` becomes a function of its own (its
        parameters: the table, the parameters of the C++ function, the locals in scope), called at the end of both branches"""
        if getattr(self, "in_loop", 0):
            self.refuse("an `if` whose branches both fall through, inside a loop")
        self.njoins = getattr(self, "njoins", 0) + 1
        kname = f"{self.spec['lean']}_k{self.njoins}"
        params = []
        pn = {p for p, _ in self.spec["params"]}
        nm = lambda x: x if x in pn else f"v_{x}"
        locs = [x for x in env if not x.startswith("$")]
        marks = []

        def mark(env2, ind2):
            m = ["JOIN", env2, ind2]
            marks.append(m)
            return [m]
        lines = self.cond(s[1], env, ind,
                          lambda env2, ind2: self.run([s[2], ("loopback", mark)], env2, ind2),
                          lambda env2, ind2: self.run([s[3], ("loopback", mark)], env2, ind2))
        # the type of every local after the statement
        ltys = {}
        for x in locs:
            tys = {m[1][x][1] if m[1][x][0] is not None else None for m in marks}
            if None in tys:
                ltys[x] = None               # not assigned on every path: unusable afterwards
            elif len(tys) == 1:
                ltys[x] = tys.pop()
            elif tys <= {"opt", "item"}:
                ltys[x] = "opt"
            elif tys <= {"nxt", "item"}:
                ltys[x] = "nxt"
            else:
                self.refuse(f"`{x}` has different types after the branches of an `if`")
        passed = [x for x in locs if ltys[x] is not None]
        data = all(m[1].get("$data") for m in marks)
        kenv = {}
        for x in locs:
            kenv[x] = (nm(x), ltys[x]) if ltys[x] is not None else (None, None)
        if data:
            kenv["$data"] = True
        sig = "".join(f" ({nm(x)} : {LEAN_TY[ltys[x]]})" for x in passed)
        body = self.run(rest, kenv, "  ")
        self.aux.append(f"@[simp] def {kname} (h : Nat → Nat) (t : PTable){self.osig()}{sig} : Option {self.ret_ty()} :=\n" + "\n".join(body) + "\n")
        out = []
        for l in lines:
            if isinstance(l, list) and l[0] == "JOIN" and any(l is m for m in marks):
                args = [self.coerce(l[1][x][0], l[1][x][1], ltys[x]) for x in passed]
                out.append(f"{l[2]}{kname} h t {self.oarg()}" + " ".join(params + args))
            else:
                out.append(l)
        return out

    def cont(self, rest, env, ind):
        """`rest` as a function `…_kN` of its own (parameters: the table, the parameters of the C++ function, the locals in
        scope that are assigned), called here"""
        if getattr(self, "in_loop", 0):
            return self.run(rest, env, ind)
        self.njoins = getattr(self, "njoins", 0) + 1
        kname = f"{self.spec['lean']}_k{self.njoins}"
        params = []
        pn = {p for p, _ in self.spec["params"]}
        nm = lambda x: x if x in pn else f"v_{x}"
        locs = [x for x in env if not x.startswith("$")]
        passed = [x for x in locs if env[x][0] is not None]
        kenv = {}
        for x in locs:
            kenv[x] = (nm(x), env[x][1]) if env[x][0] is not None else (None, None)
        if env.get("$data"):
            kenv["$data"] = True
        sig = "".join(f" ({nm(x)} : {LEAN_TY[env[x][1]]})" for x in passed)
        body = self.run(rest, kenv, "  ")
        self.aux.append(f"@[simp] def {kname} (h : Nat → Nat) (t : PTable){self.osig()}{sig} : Option {self.ret_ty()} :=\n" + "\n".join(body) + "\n")
        return [f"{ind}{kname} h t {self.oarg()}" + " ".join(params + [env[x][0] for x in passed])]

    def declares(self, s, names):
        if s[0] == "decl":
            return s[2] in names
        if s[0] in ("block", "block*"):
            return any(self.declares(x, names) for x in s[1])
        if s[0] == "if":
            return self.declares(s[2], names) or self.declares(s[3], names)
        if s[0] == "while":
            return self.declares(s[2], names)
        return False

    def loop(self, s, rest, env, ind):
        """`while(c) body [step]` followed by `rest`: a function recursive over `fuel`; its parameters are the table, the
        parameters of the C++ function and the locals in scope"""
        c, body, step = s[1], s[2], s[3]
        self.nloops += 1
        lname = f"{self.spec['lean']}_loop{self.nloops}"
        params = []
        locs = [x for x in env if not x.startswith("$")]
        for x in locs:
            if env[x][0] is None:
                self.refuse(f"the local `{x}` is not yet assigned when the loop starts")
        ltys = {x: env[x][1] for x in locs}
        pn = {p for p, _ in self.spec["params"]}
        nm = lambda x: x if x in pn else f"v_{x}"
        sig = "".join(f" ({nm(x)} : {LEAN_TY[ltys[x]]})" for x in locs)
        lenv = {}
        for x in locs:
            lenv[x] = (nm(x), ltys[x])
        if env.get("$data"):
            lenv["$data"] = True

        def back(env2, ind2):
            args = []
            for x in locs:
                if x not in env2:
                    self.refuse(f"`{x}` is out of scope at the end of the loop body")
                args.append(self.coerce(env2[x][0], env2[x][1], ltys[x]))
            if bool(env2.get("$data")) != bool(lenv.get("$data")):
                self.refuse("`data` is allocated inside a loop")
            return [f"{ind2}{lname} h fuel t {self.oarg()}" + " ".join(params + args)]

        def kthen(env2, ind2):
            return ([f"{ind2}match fuel with", f"{ind2}| 0 => none", f"{ind2}| fuel + 1 =>"] +
                    self.run([body] + step + [("loopback", back)], env2, ind2 + "  "))

        def kelse(env2, ind2):
            return self.run(rest, env2, ind2)
        self.in_loop = getattr(self, "in_loop", 0) + 1
        self.breaks = getattr(self, "breaks", []) + [kelse]
        lines = self.cond(c, lenv, "  ", kthen, kelse)
        self.breaks.pop()
        self.in_loop -= 1
        self.aux.append(f"def {lname} (h : Nat → Nat) (fuel : Nat) (t : PTable){self.osig()}{sig} : Option {self.ret_ty()} :=\n" + "\n".join(lines) + "\n")
        args = [self.coerce(env[x][0], env[x][1], ltys[x]) for x in locs]
        # the fuel of a loop is the size of the table whose chain / list it walks (the model's bound; `ptr_structure`: it suffices)
        ids = set()

        def collect(x):
            if isinstance(x, tuple):
                if x[0] == "id":
                    ids.add(x[1])
                for y in x[1:]:
                    collect(y)
        collect(c)
        walks_other = any(x in ltys and ltys[x].endswith("@B") for x in ids)
        return [f"{ind}{lname} h {'o' if walks_other else 't'}.size t {self.oarg()}" + " ".join(params + args)]


# ---- swap: two objects, two heaps ------------------------------------------------------------------------------------------
class Swap:
    """`void swap(C& other)`: straight-line code (declarations, assignments, `if((a = b)) … else …`) over the members of two
    objects.  The model keeps one node heap per table, and `swap` exchanges the heaps (as the code exchanges `blocks`): every
    pointer value is translated together with the heap it points into ('A' = the heap `this` owns at entry, 'B' = `other`'s).
    At the end all pointer members of an object must designate one heap; that heap (with the class constants that
    describe its blocks) becomes the object's.  The members are executed symbolically; only the stores into items and
    the tests appear in the generated term."""
    MEM = {"_begin.item": ("begin", "nxt"), "endItem.prev": ("endPrev", "opt"), "freeItem": ("freeItem", "opt"),
           "data": ("data", "data"), "blocks": ("blocks", "blocks"), "_size": ("size", "nat"), "capacity": ("cap", "nat")}

    def __init__(self, cls, alias=False, gen=None):
        self.cls, self.n, self.alias, self.gen = cls, 0, alias, gen
        self.objs = "A" if alias else "AB"

    def refuse(self, msg):
        raise Refuse(f"{self.cls}::swap: {msg}")

    def fresh(self, b):
        self.n += 1
        return f"{b}{self.n}"

    def member(self, e):
        """(object, member key) of a member expression, or None"""
        def flat(x):
            if x[0] == "id":
                return x[1]
            if x[0] == "dot":
                f = flat(x[1])
                return None if f is None else f + "." + x[2]
            return None
        f = flat(e)
        if f is None:
            return None
        cur = getattr(self, "cur", "A")
        obj = cur
        if f.startswith("other."):
            obj, f = ("A" if self.alias else ("B" if cur == "A" else "A")), f[len("other."):]
        return (obj, f) if f in self.MEM else None

    def translate(self, stmts):
        st = {o: {"_begin.item": (f"{o}.begin", "nxt", o), "endItem.prev": (f"{o}.endPrev", "opt", o),
                  "freeItem": (f"{o}.freeItem", "opt", o), "data": ((f"{o}.allocated", f"{o}.heads"), "data", o),
                  "blocks": (f"{o}.blocks", "blocks", o), "_size": (f"{o}.size", "nat", None),
                  "capacity": (f"{o}.cap", "nat", None)} for o in self.objs}
        return self.run(self.flatten(stmts), st, {}, {}, "  ")

    def flatten(self, stmts):
        out = []
        for s in stmts:
            if s[0] in ("block", "block*"):
                out += self.flatten(s[1])
            else:
                out.append(s)
        return out

    def value(self, e, st, loc, nn):
        """(term, type, heap) of an rvalue without side effect"""
        if e[0] == "null":
            return ("none", "opt", None)
        if e[0] == "addr":
            cur = getattr(self, "cur", "A")
            oth = "A" if self.alias else ("B" if cur == "A" else "A")
            if e[1] == ("id", "endItem"):
                return (f"(Nxt.stl {cur}.self)", "nxt", None)
            if e[1] == ("dot", ("id", "other"), "endItem"):
                return (f"(Nxt.stl {oth}.self)", "nxt", None)
            self.refuse("address-of other than `&endItem` / `&other.endItem`")
        v = None
        if e[0] == "id" and e[1] in loc:
            v = loc[e[1]]
        else:
            m = self.member(e)
            if m is not None:
                v = st[m[0]][m[1]]
        if v is None:
            self.refuse(f"expression `{e[0]}` is outside the translated subset")
        if isinstance(v[0], str) and v[0] in nn:
            return (nn[v[0]], "item", v[2])
        return v

    def assign(self, lhs, v, st, loc, lines, ind):
        t, ty, hp = v
        m = self.member(lhs)
        if m is not None:
            o, f = m
            want = self.MEM[f][1]
            if ty == "item" and want == "nxt":
                t, ty = f"(Nxt.item {t})", "nxt"
            if ty == "item" and want == "opt":
                t, ty = f"(some {t})", "opt"
            if ty != want:
                self.refuse(f"a value of type {ty} is stored into `{f}`")
            st[o][f] = (t, ty, hp)
            return
        if lhs[0] == "arrow" and lhs[2] == "next":
            p = self.value_nn(lhs[1])
            if p[1] != "item":
                self.refuse("`->next` of a pointer that is not known to be a non-null item")
            if ty == "item":
                t, ty = f"(Nxt.item {t})", "nxt"
            if ty != "nxt":
                self.refuse(f"a value of type {ty} is stored into `next`")
            if hp is not None and hp != p[2]:
                self.refuse("a pointer into the items of one object is stored into an item of the other")
            lines.append(f"{ind}let h{p[2]} := upd h{p[2]} {p[0]} {{ h{p[2]} {p[0]} with next := {t} }}")
            return
        self.refuse("assignment to something that is not a member of the two objects or `p->next`")

    def run(self, stmts, st, loc, nn, ind):
        lines = []
        self.value_nn = lambda e: self.value(e, st, loc, nn)
        for i, s in enumerate(stmts):
            k = s[0]
            self.cur = loc.get("$cur", "A")
            if k == "$enter":
                for pn, v in s[2].items():
                    if pn in loc:
                        self.refuse(f"the parameter `{pn}` of a helper hides a local")
                    loc[pn] = v
                loc["$cur"] = s[1]
            elif k == "$leave":
                loc["$cur"] = s[1]
                for pn in s[2]:
                    loc.pop(pn, None)
            elif k == "return" and s[1] is None:
                break
            elif k == "if" and s[1][0] == "bin" and s[1][1] == "==" and {s[1][2], s[1][3]} == {("id", "this"), ("addr", ("id", "other"))}:
                # `if(this == &other) …`: two distinct objects, or (`a.swap(a)`) the object itself
                if self.alias:
                    return lines + self.run(self.flatten([s[2]]) + stmts[i + 1:], st, loc, nn, ind)
                if s[3] != ("block", []):
                    return lines + self.run(self.flatten([s[3]]) + stmts[i + 1:], st, loc, nn, ind)
            elif k == "expr" and s[1][0] in ("call", "mcall"):
                e = s[1]
                name, args = (e[1], e[2]) if e[0] == "call" else (e[2], e[3])
                hs = self.gen.helper_source(self.cls, name, len(args)) if self.gen is not None else None
                if hs is None or hs[0] != "void":
                    self.refuse(f"call of `{name}` is outside the translated subset")
                vals = [self.value(a, st, loc, nn) for a in args]
                oth = "A" if self.alias else ("B" if self.cur == "A" else "A")
                newcur = self.cur if e[0] == "call" else oth
                p = P(tokenize(hs[2]), f"{self.cls}::{name}")
                body = self.flatten(p.stmts())
                spliced = [("$enter", newcur, dict(zip(hs[1], vals)))] + body + [("$leave", self.cur, hs[1])]
                return lines + self.run(spliced + stmts[i + 1:], st, loc, nn, ind)
            elif k == "decl":
                ty, name, e = s[1], s[2], s[3]
                if e is None or name in loc or ty not in ("Item*", "usize", "Item**", "ItemBlock*"):
                    self.refuse(f"declaration `{ty} {name}`")
                loc[name] = self.value(e, st, loc, nn)
            elif k == "expr" and s[1][0] == "assign":
                if s[1][1][0] == "id" and s[1][1][1] in loc:
                    self.refuse(f"the local `{s[1][1][1]}` is assigned again")
                self.assign(s[1][1], self.value(s[1][2], st, loc, nn), st, loc, lines, ind)
            elif k == "if":
                c = s[1]
                v = self.value(c[2] if c[0] == "assign" else c, st, loc, nn)
                if v[1] not in ("opt", "item"):
                    self.refuse(f"condition of type {v[1]}")
                if c[0] == "assign":
                    self.assign(c[1], v, st, loc, lines, ind)
                rest = stmts[i + 1:]
                if v[1] == "item":
                    return lines + self.run(self.flatten([s[2]]) + rest, st, loc, nn, ind)
                a = self.fresh("a")
                cp = lambda: ({o: dict(d) for o, d in st.items()}, dict(loc))
                st1, loc1 = cp()
                nn1 = dict(nn)
                nn1[v[0]] = a
                st2, loc2 = cp()
                yes = self.run(self.flatten([s[2]]) + rest, st1, loc1, nn1, ind + "  ")
                no = self.run(self.flatten([s[3]]) + rest, st2, loc2, dict(nn), ind + "  ")
                return lines + [f"{ind}match {v[0]} with", f"{ind}| some {a} =>"] + yes + [f"{ind}| none =>"] + no
            else:
                self.refuse(f"statement `{k}` is outside the translated subset")
            self.value_nn = lambda e: self.value(e, st, loc, nn)
        res = []
        for o in self.objs:
            d = st[o]
            heaps = {d[f][2] for f in ("_begin.item", "endItem.prev", "freeItem", "data", "blocks")}
            heaps.discard(None)
            if len(heaps) != 1:
                self.refuse(f"after the exchange the members of `{'this' if o == 'A' else 'other'}` designate items, buckets and "
                            f"blocks of different objects")
            hp = heaps.pop()
            if d["freeItem"][2] != hp or d["blocks"][2] != hp or d["data"][2] != hp:
                self.refuse("free list, bucket array and blocks of one object belong to different objects")
            res.append(f"{{ self := {o}.self, cap := {d['capacity'][0]}, allocated := {d['data'][0][0]}, heads := {d['data'][0][1]}, "
                       f"items := h{hp}, begin := {d['_begin.item'][0]}, endPrev := {d['endItem.prev'][0]}, size := {d['_size'][0]}, "
                       f"freeItem := {d['freeItem'][0]}, blocks := {d['blocks'][0]}, ipb := {hp}.ipb, dcap := {hp}.dcap }}")
        if self.alias:
            return lines + [f"{ind}some {res[0]}"]
        return lines + [f"{ind}some ({res[0]},", f"{ind}      {res[1]})"]


# ---- the functions -----------------------------------------------------------------------------------------------------------
def specs_for(cls):
    val = cls == "HashMap"
    ins_sig = r"Iterator\s+insert\s*\(\s*const\s+Iterator\s*&\s*position\s*,\s*const\s+T\s*&\s*key\s*" + \
        (r",\s*const\s+V\s*&\s*value\s*" if val else "") + r"\)"
    s = {
        "find": {"lean": "find", "rx": r"Iterator\s+find\s*\(\s*const\s+T\s*&\s*key\s*\)", "params": [("key", "nat")], "ret": "nxt"},
        "insert": {"lean": "insert", "rx": ins_sig,
                   "params": [("position", "nxt"), ("key", "nat")] + ([("value", "nat")] if val else []), "ret": "nxt"},
        "removeKey": {"lean": "removeKey", "rx": r"void\s+remove\s*\(\s*const\s+T\s*&\s*key\s*\)", "params": [("key", "nat")], "ret": None},
        "clear": {"lean": "clear", "rx": r"void\s+clear\s*\(\s*\)", "params": [], "ret": None},
        "removeIt": {"lean": "removeIt", "rx": r"Iterator\s+remove\s*\(\s*const\s+Iterator\s*&\s*it\s*\)", "params": [("it", "nxt")], "ret": "nxt"},
        "removeFront": {"lean": "removeFront", "rx": r"Iterator\s+removeFront\s*\(\s*\)", "params": [], "ret": "nxt"},
        "removeBack": {"lean": "removeBack", "rx": r"Iterator\s+removeBack\s*\(\s*\)", "params": [], "ret": "nxt"},
    }
    s["size"] = {"lean": "size", "rx": r"usize\s+size\s*\(\s*\)", "params": [], "ret": "nat"}
    s["isEmpty"] = {"lean": "isEmpty", "rx": r"bool\s+isEmpty\s*\(\s*\)", "params": [], "ret": "bool"}
    s["contains"] = {"lean": "contains", "rx": r"bool\s+contains\s*\(\s*const\s+T\s*&\s*key\s*\)", "params": [("key", "nat")], "ret": "bool"}
    # front / back: what the returned reference shows (HashSet: the key; the maps: the value); every overload must agree
    s["front"] = {"lean": "front", "rx": r"(?:const\s+)?[TV]\s*&\s*front\s*\(\s*\)", "params": [], "ret": "nat", "multi": True}
    s["back"] = {"lean": "back", "rx": r"(?:const\s+)?[TV]\s*&\s*back\s*\(\s*\)", "params": [], "ret": "nat", "multi": True}
    kv = [("key", "nat")] + ([("value", "nat")] if val else [])
    sigkv = r"const\s+T\s*&\s*key\s*" + (r",\s*const\s+V\s*&\s*value\s*" if val else "")
    wret, wrx = (None, r"void") if cls == "HashSet" else ("nat", r"V\s*&")
    s["append"] = {"lean": "append", "rx": wrx + r"\s*append\s*\(\s*" + sigkv + r"\)", "params": kv, "ret": wret}
    if cls != "PoolMap":
        s["prepend"] = {"lean": "prepend", "rx": wrx + r"\s*prepend\s*\(\s*" + sigkv + r"\)", "params": kv, "ret": wret}
    if cls != "PoolMap":
        s["assign"] = {"lean": "assign", "rx": cls + r"\s*&\s*operator\s*=\s*\(\s*const\s+" + cls + r"\s*&\s*other\s*\)",
                       "params": [], "ret": None, "other": True}
        s["notEqual"] = {"lean": "notEqual", "rx": r"bool\s+operator\s*!=\s*\(\s*const\s+" + cls + r"\s*&\s*other\s*\)",
                         "params": [], "ret": "bool", "other": True}
        s["equal"] = {"lean": "equal", "rx": r"bool\s+operator\s*==\s*\(\s*const\s+" + cls + r"\s*&\s*other\s*\)",
                      "params": [], "ret": "bool", "other": True}
    if cls == "HashSet":
        s["appendAll"] = {"lean": "appendAll", "rx": r"void\s+append\s*\(\s*const\s+HashSet\s*&\s*other\s*\)",
                          "params": [], "ret": None, "other": True}
        s["removeAll"] = {"lean": "removeAll", "rx": r"void\s+remove\s*\(\s*const\s+HashSet\s*&\s*other\s*\)",
                          "params": [], "ret": None, "other": True}
    if cls != "PoolMap":
        s["assignSelf"] = dict(s["assign"], lean="assignSelf", other="self")
    if cls == "HashSet":
        s["appendSelf"] = dict(s["appendAll"], lean="appendSelf", other="self")
        s["removeSelf"] = dict(s["removeAll"], lean="removeSelf", other="self")
    if cls == "PoolMap":
        s["removeValue"] = {"lean": "removeValue", "rx": r"void\s+remove\s*\(\s*const\s+V\s*&\s*value\s*\)",
                            "params": [("value", "item")], "ret": None, "value_item": True}
    return s


def ctor_statements(cls, which, init, fn):
    """the member initialiser list `m(e), …` as assignment statements, in the order of the list (the members of these classes
    are declared in the same order: _end, _begin, _size, capacity, data, endItem, freeItem, blocks).  Every member the model has
    must be initialised here or assigned in the body."""
    toks = tokenize(init)
    p = P(toks, fn)
    out, seen = [], set()
    while p.peek() is not None:
        name = p.eat()
        p.eat("(")
        e = p.expr()
        p.eat(")")
        if p.peek() == ",":
            p.eat(",")
        seen.add(name)
        if name == "_end":
            if e != ("addr", ("id", "endItem")):
                raise Refuse(f"{fn}: `_end` is not initialised with `&endItem`")
        elif name == "_begin":
            out.append(("expr", ("assign", ("dot", ("id", "_begin"), "item"), e)))
        elif name in ("_size", "capacity", "freeItem", "blocks"):
            out.append(("expr", ("assign", ("arrow", ("id", "this"), name), e)))
        elif name == "data":
            if e != ("null",):
                raise Refuse(f"{fn}: `data` is not initialised with 0")
            out.append(("initdata",))
        else:
            raise Refuse(f"{fn}: initialiser of unknown member `{name}`")
    missing = {"_end", "_begin", "_size", "capacity", "data", "freeItem", "blocks"} - seen
    if missing:
        raise Refuse(f"{fn}: members {sorted(missing)} are not initialised")
    return out


CTORS = {"constructDefault": (r"(?<![\w~])CLS\s*\(\s*\)\s*:", []),
         "construct": (r"explicit\s+CLS\s*\(\s*usize\s+capacity\s*\)\s*:", [("capacity", "nat")]),
         "copyConstruct": (r"(?<![\w~])CLS\s*\(\s*const\s+CLS\s*&\s*other\s*\)\s*:", [])}


ORDER = ["find", "removeValue", "removeIt", "removeKey", "removeFront", "removeBack", "insert", "clear", "appendAll",
         "removeAll", "assign", "equal", "notEqual", "appendSelf", "removeSelf", "assignSelf", "size", "isEmpty", "contains", "front", "back", "append", "prepend"]


class Gen:
    def __init__(self, repo):
        self.repo = Path(repo)
        self.specs = {}
        self.append_is_insert_at_end = {}
        self.src, self.helpers, self.pending = {}, {}, []

    RET = {"void": None, "Item*": "opt", "bool": "bool", "usize": "nat", "Iterator": "nxt"}

    def helper_source(self, cls, name, nargs):
        """(return type, parameter names, body) of a member function of the class that is not one of the translated members"""
        if name in self.specs.get(cls, {}) and not self.specs[cls][name].get("helper"):
            return None
        if name in ("find", "insert", "remove", "clear", "append", "prepend", "hash", "swap", "contains", "size", "isEmpty",
                    "front", "back", "removeFront", "removeBack", "Iterator"):
            return None
        src = self.src[cls]
        ms = list(re.finditer(r"(?:static\s+)?(void|Item\s*\*|bool|usize|Iterator)\s+" + name + r"\s*\(([^()]*)\)\s*(?:const\s*)?\{", src))
        if len(ms) != 1:
            return None
        m = ms[0]
        ps = [x.strip() for x in m.group(2).split(",") if x.strip()]
        if len(ps) != nargs:
            return None
        names = []
        for x in ps:
            if re.fullmatch(r"const\s+" + cls + r"\s*&\s*other", x):
                names.append("$other")
                continue
            mm = re.fullmatch(r"(?:const\s+)?(?:Item|T|V|usize)\s*(?:\*\s*\*?|&)?\s*(?:const\s+)?(\w+)", x)
            if not mm:
                raise Refuse(f"{cls}::{name}: parameter `{x}`")
            names.append(mm.group(1))
        body = src[m.end():balanced(src, m.end() - 1) - 1]
        return re.sub(r"\s+", "", m.group(1)), names, body

    def helper(self, tr, name, tys, data):
        """the Lean function for the helper `name` called with arguments of the types `tys` (translated on first use)"""
        cls = tr.cls
        key = (name, tuple(tys), data)
        self.helpers.setdefault(cls, {})
        if key in self.helpers[cls]:
            hname = self.helpers[cls][key]
            return hname, self.specs[cls][hname]
        if getattr(self, "helper_depth", 0) > 4:
            raise Refuse(f"{cls}::{name}: helper calls nested too deeply (recursion?)")
        ret, pnames, body = self.helper_source(cls, name, len(tys))
        n = sum(1 for k_ in self.helpers[cls] if k_[0] == name)
        hname = name if n == 0 else f"{name}_{n + 1}"
        spec = {"lean": hname, "params": [(pn, ty) for pn, ty in zip(pnames, tys) if pn != "$other"], "ret": self.RET[ret], "helper": True}
        if "$other" in pnames:
            oth = [ty for pn, ty in zip(pnames, tys) if pn == "$other"][0]
            spec["other"] = "self" if oth == "$self" else True
        body = resolve_verify(body, f"{cls}::{name}")
        p = P(tokenize(body), f"{cls}::{name}")
        stmts = p.stmts()
        if p.peek() is not None:
            raise Refuse(f"{cls}::{name}: trailing tokens")
        htr = Tr(cls, name, spec, self)
        env = {pn: (pn, ty) for pn, ty in spec["params"]}
        if data:
            env["$data"] = True
        self.helper_depth = getattr(self, "helper_depth", 0) + 1
        lines = htr.run(stmts, env, "  ")
        self.helper_depth -= 1
        sig = "".join(f" ({pn} : {LEAN_TY[ty]})" for pn, ty in spec["params"])
        self.pending += htr.aux + [f"def {hname} (h : Nat → Nat) (t : PTable){htr.osig()}{sig} : Option {htr.ret_ty()} :=\n" + "\n".join(lines) + "\n"]
        spec["done"] = True
        self.specs[cls][hname] = spec
        self.helpers[cls][key] = hname
        return hname, spec

    def resolve(self, tr, name, args, env):
        """overload resolution of a call to a sibling member: (lean name, parameter types)"""
        specs = self.specs[tr.cls]
        if name == "find" and len(args) == 1:
            target = "find"
        elif name == "insert":
            target = "insert"
        elif name == "clear" and not args:
            target = "clear"
        elif name == "append" and len(args) == (2 if tr.cls == "HashMap" else 1) and self.append_is_insert_at_end.get(tr.cls):
            # `append(key[, value])` is `insert(_end, key[, value])` (checked on the text of the wrapper)
            args.insert(0, ("id", "_end"))
            target = "insert"
        elif name == "remove" and len(args) == 1:
            a = args[0]
            if a[0] == "arrow" and a[2] == "value" and "removeValue" in specs:
                # remove(const V&): the item the value lives in
                args[0] = a[1]
                target = "removeValue"
            elif a == ("id", "key") or (a[0] == "arrow" and a[2] == "key"):
                target = "removeKey"
            else:
                target = "removeIt"        # an Iterator, or an Item* converted to one
        else:
            tr.refuse(f"call of `{name}` is outside the translated subset")
        if target not in specs or not specs[target].get("done"):
            tr.refuse(f"call of `{name}` before its translation (recursion?)")
        ptys = [ty for _, ty in specs[target]["params"]]
        if len(ptys) != len(args):
            tr.refuse(f"call of `{name}` with {len(args)} argument(s)")
        return target, ptys

    def one(self, cls, header):
        src = strip_comments((self.repo / header).read_text())
        specs = specs_for(cls)
        self.specs[cls] = specs
        self.src[cls] = src
        flat = re.sub(r"\s+", "", src)
        wrapper = {"HashMap": "V&append(constT&key,constV&value){returninsert(_end,key,value).item->value;}",
                   "HashSet": "voidappend(constT&key){insert(_end,key);}",
                   "PoolMap": "V&append(constT&key){returninsert(_end,key).item->value;}"}[cls]
        self.append_is_insert_at_end[cls] = wrapper in flat
        parts, summary = [], []
        for name in ORDER:
            if name not in specs or specs[name].get("helper"):
                continue
            spec = specs[name]
            fn = name
            bodies = extract_all(src, f"{cls}::{fn}", spec["rx"]) if spec.get("multi") else [extract(src, f"{cls}::{fn}", spec["rx"])]
            texts = []
            for body in bodies:
                body = resolve_verify(body, f"{cls}::{fn}")
                p = P(tokenize(body), f"{cls}::{fn}")
                stmts = p.stmts()
                if p.peek() is not None:
                    raise Refuse(f"{cls}::{fn}: trailing tokens")
                tr = Tr(cls, fn, spec, self)
                env = {pn: (pn, ty) for pn, ty in spec["params"]}
                lines = tr.run(stmts, env, "  ")
                sig = "".join(f" ({pn} : {LEAN_TY[ty]})" for pn, ty in spec["params"])
                texts.append(tr.aux + [f"def {spec['lean']} (h : Nat → Nat) (t : PTable){tr.osig()}{sig} : Option {tr.ret_ty()} :=\n" + "\n".join(lines) + "\n"])
            if any(x != texts[0] for x in texts):
                raise Refuse(f"{cls}::{fn}: the const and the non-const overload differ")
            parts += self.pending
            self.pending = []
            parts += texts[0]
            spec["done"] = True
            summary.append(f"{fn}:{len(stmts)}")
        # constructors: the storage of the object (`t`: any table) with every member initialised
        for name, (rx, params) in CTORS.items():
            rx = rx.replace("CLS", cls)
            ms = list(re.finditer(rx, src))
            if name == "copyConstruct" and cls == "PoolMap" and not ms:
                continue                                      # private and not defined
            if len(ms) != 1:
                raise Refuse(f"{cls}::{name}: {len(ms)} definitions found")
            brace = src.index("{", ms[0].end())
            init = src[ms[0].end():brace]
            body = src[brace + 1:balanced(src, brace) - 1]
            fn = f"{cls}::{name}"
            spec = {"lean": name, "params": params, "ret": None, "other": True if name == "copyConstruct" else None}
            specs[name] = spec
            p = P(tokenize(body), fn)
            stmts = ctor_statements(cls, name, init, fn) + p.stmts()
            if p.peek() is not None:
                raise Refuse(f"{fn}: trailing tokens")
            flatb = re.sub(r"\s+", "", body)
            if "endItem.prev=0;" not in flatb:
                raise Refuse(f"{fn}: `endItem.prev` is not set to 0")
            tr = Tr(cls, name, spec, self)
            env = {pn: (pn, ty) for pn, ty in params}
            lines = tr.run(stmts, env, "  ")
            sig = "".join(f" ({pn} : {LEAN_TY[ty]})" for pn, ty in params)
            parts += self.pending
            self.pending = []
            parts += tr.aux
            parts.append(f"def {name} (h : Nat → Nat) (t : PTable){tr.osig()}{sig} : Option PTable :=\n" + "\n".join(lines) + "\n")
            spec["done"] = True
            summary.append(f"{name}:{len(stmts)}")
        # swap
        if not WITH_SWAP:
            return parts, f"{cls}({' '.join(summary)} stmts)"
        body = extract(src, f"{cls}::swap", r"void\s+swap\s*\(\s*" + cls + r"\s*&\s*other\s*\)")
        if "#" in body:
            raise Refuse(f"{cls}::swap: preprocessor directive")
        p = P(tokenize(body), f"{cls}::swap")
        stmts = p.stmts()
        if p.peek() is not None:
            raise Refuse(f"{cls}::swap: trailing tokens")
        sw = Swap(cls, gen=self)
        lines = sw.translate(stmts)
        parts.append("def swap (A B : PTable) : Option (PTable × PTable) :=\n  let hA := A.items\n  let hB := B.items\n" + "\n".join(lines) + "\n")
        lines = Swap(cls, alias=True, gen=self).translate(stmts)
        parts.append("/-- `a.swap(a)`: `other` is the object itself -/\ndef swapSelf (A : PTable) : Option PTable :=\n  let hA := A.items\n" + "\n".join(lines) + "\n")
        summary.append(f"swap:{len(stmts)}")
        return parts, f"{cls}({' '.join(summary)} stmts)"


WITH_SWAP = True
HEADERS = [("HashMap", "include/nstd/HashMap.hpp"), ("HashSet", "include/nstd/HashSet.hpp"), ("PoolMap", "include/nstd/PoolMap.hpp")]


def generate(repo, out_path):
    """writes out_path (only when the content changes); returns a one-line summary; raises Refuse"""
    g = Gen(repo)
    parts = ["/- generated by tools/gen_hash.py from include/nstd/{HashMap,HashSet,PoolMap}.hpp - do not edit -/",
             "import Nstd.Hash.GenSupport", "", "set_option linter.unusedVariables false", "",
             "namespace Nstd.Generated.HashLink", "open Nstd.Hash", "open Nstd.Hash.Ptr", ""]
    summary = []
    for cls, header in HEADERS:
        ps, sm = g.one(cls, header)
        parts += [f"/-! ### {header} -/", f"namespace {cls}", ""] + ps + [f"end {cls}", ""]
        summary.append(sm)
    parts += ["end Nstd.Generated.HashLink", ""]
    text = "\n".join(parts)
    out_path = Path(out_path)
    out_path.parent.mkdir(parents=True, exist_ok=True)
    if not out_path.exists() or out_path.read_text() != text:
        out_path.write_text(text)
    return ", ".join(summary)


if __name__ == "__main__":
    repo = sys.argv[1] if len(sys.argv) > 1 else "/repo"
    out = sys.argv[2] if len(sys.argv) > 2 else str(Path(__file__).resolve().parents[1] / "lean/Nstd/Generated/HashLink.lean")
    try:
        print(generate(repo, out))
    except Refuse as e:
        print("REFUSED:", e)
        sys.exit(1)
