#!/usr/bin/env python3
"""Translator of the Xml area (property C16): tie by translation of the tokenizer's scanners.

Reads from the CURRENT sources (`NSTD_REPO`, default /repo)
    src/Document/Xml.cpp      Xml::Private::skipSpace, readToken, parseText, syntaxError, the tables escapeChars /
                              escapeStrings / lineBreakStrings and the first condition of escapeString
    include/nstd/String.hpp   String::isSpace
and writes them — tokenizer + recursive-descent parser of the small C++ subset these bodies use, then a
continuation-passing compiler, statement by statement — as Lean definitions over the primitives of
lean/Nstd/Xml/CSem.lean into lean/Nstd/Generated/XmlScan.lean.  lean/Nstd/Xml/PropsGen.lean proves that the hand-written
model functions are these translations.  Formatting, comments, names of locals, order of `case` labels do not matter.

Anything outside the understood subset is REFUSED (`Refuse` -> the check reports a broken tie): unknown statements
(`goto`, `do`, general `for`/`while` loops), calls other than the listed String:: functions, writes through pointers,
arithmetic other than pointer +- constant / pointer - pointer, unknown members.

Shape of the output (see CSem.lean for the semantics of the primitives):
    <fn>_entry  t s        : Res Ctl     the function body up to its first loop (`.enter s locals`) or to its end
    <fn>_loop<k> t <locals> s : Res Ctl  ONE run of the body of the k-th loop (`for(;;)`): `.next` = continue,
                                         `.enter` = control reached the nested loop, `.leave` = break, `.ret` = return
    <fn>_after<k> t <locals> s : Res Ctl the statements behind the k-th loop in the enclosing body
"""
import re
import sys
from pathlib import Path

VERIF = Path(__file__).resolve().parents[1]
OUT = VERIF / "lean" / "Nstd" / "Generated" / "XmlScan.lean"


class Refuse(Exception):
    pass


# ---------------------------------------------------------------------------------------------------------------------
# lexer
TOKEN = re.compile(r"""\s*(?:
    (?P<chr>'(?:\\.|[^'\\])+')
  | (?P<str>"(?:\\.|[^"\\])*")
  | (?P<num>0[xX][0-9a-fA-F]+|\d+)
  | (?P<id>[A-Za-z_]\w*(?:::[A-Za-z_]\w*)*)
  | (?P<op>\+\+|--|->|==|!=|<=|>=|&&|\|\||\+=|-=|[{}()\[\];,<>=+\-*/!?:&.~|^%])
)""", re.X)

SIMPLE_ESC = {"n": 10, "t": 9, "r": 13, "0": 0, "\\": 92, '"': 34, "'": 39, "a": 7, "b": 8, "f": 12, "v": 11}


def lit_bytes(body):
    out, i = [], 0
    while i < len(body):
        ch = body[i]
        if ch != "\\":
            out.append(ord(ch))
            i += 1
            continue
        nx = body[i + 1]
        if nx == "x":
            m = re.match(r"[0-9a-fA-F]{1,2}", body[i + 2:])
            if not m:
                raise Refuse("bad \\x escape")
            out.append(int(m.group(0), 16))
            i += 2 + len(m.group(0))
        elif nx in SIMPLE_ESC:
            out.append(SIMPLE_ESC[nx])
            i += 2
        else:
            raise Refuse(f"unknown escape \\{nx}")
    if any(b > 127 for b in out):
        raise Refuse("non-ASCII literal")
    return out


def strip_comments(src):
    out, i, n = [], 0, len(src)
    while i < n:
        c = src[i]
        if c == '"' or c == "'":
            j = i + 1
            while j < n and src[j] != c:
                j += 2 if src[j] == "\\" else 1
            out.append(src[i:j + 1])
            i = j + 1
        elif src.startswith("//", i):
            j = src.find("\n", i)
            i = n if j < 0 else j
        elif src.startswith("/*", i):
            j = src.find("*/", i + 2)
            if j < 0:
                raise Refuse("unterminated comment")
            out.append(" ")
            i = j + 2
        else:
            out.append(c)
            i += 1
    return "".join(out)


def tokenize(text):
    toks, pos = [], 0
    text = text.rstrip()
    while pos < len(text):
        m = TOKEN.match(text, pos)
        if not m:
            raise Refuse(f"cannot tokenize at {text[pos:pos + 30]!r}")
        pos = m.end()
        if m.group("chr"):
            b = lit_bytes(m.group("chr")[1:-1])
            if len(b) != 1:
                raise Refuse("multi-character literal")
            toks.append(("chr", b[0]))
        elif m.group("str"):
            b = lit_bytes(m.group("str")[1:-1])
            if toks and toks[-1][0] == "str":
                toks[-1] = ("str", toks[-1][1] + b)
            else:
                toks.append(("str", b))
        elif m.group("num"):
            toks.append(("num", int(m.group("num"), 0)))
        elif m.group("id"):
            toks.append(("id", m.group("id")))
        else:
            toks.append(("op", m.group("op")))
    return toks


def function_body(src, sig_rx, what):
    ms = list(re.finditer(sig_rx + r"\s*(?:const\s*)?\{", src))
    if len(ms) != 1:
        raise Refuse(f"{what}: {len(ms)} definitions found, expected exactly one")
    start = ms[0].end() - 1
    depth, i = 0, start
    while i < len(src):
        c = src[i]
        if c in "\"'":
            j = i + 1
            while src[j] != c:
                j += 2 if src[j] == "\\" else 1
            i = j
        elif c == "{":
            depth += 1
        elif c == "}":
            depth -= 1
            if depth == 0:
                return src[start + 1:i]
        i += 1
    raise Refuse(f"{what}: unbalanced braces")


# ---------------------------------------------------------------------------------------------------------------------
# parser: expressions (precedence climbing) and statements
TYPE_WORDS = {"const", "char", "int", "usize", "uint", "bool", "String", "Position", "unsigned", "uchar"}
BINPREC = {"||": 1, "&&": 2, "|": 3, "^": 4, "&": 5, "==": 6, "!=": 6, "<": 7, ">": 7, "<=": 7, ">=": 7, "+": 9, "-": 9,
           "*": 10, "/": 10, "%": 10}


class Parser:
    def __init__(self, toks, fn):
        self.t, self.i, self.fn = toks, 0, fn

    def peek(self, k=0):
        return self.t[self.i + k] if self.i + k < len(self.t) else (None, None)

    def at(self, kind, val=None, k=0):
        t = self.peek(k)
        return t[0] == kind and (val is None or t[1] == val)

    def eat(self, kind=None, val=None):
        t = self.peek()
        if t[0] is None or (kind and t[0] != kind) or (val is not None and t[1] != val):
            raise Refuse(f"{self.fn}: expected {val or kind}, found {t[1]!r}")
        self.i += 1
        return t[1]

    # --- expressions
    def expr(self):                       # comma level
        e = self.assign()
        while self.at("op", ","):
            self.eat()
            e = ("comma", e, self.assign())
        return e

    def assign(self):
        lhs = self.binary(0)
        if self.at("op", "=") or self.at("op", "+=") or self.at("op", "-="):
            op = self.eat()
            return ("asg", op, lhs, self.assign())
        if self.at("op", "?"):
            self.eat()
            a = self.assign()
            self.eat("op", ":")
            return ("tern", lhs, a, self.assign())
        return lhs

    def binary(self, minp):
        lhs = self.unary()
        while True:
            t = self.peek()
            if t[0] != "op" or t[1] not in BINPREC or BINPREC[t[1]] < minp:
                break
            p = BINPREC[t[1]]
            op = self.eat()
            rhs = self.binary(p + 1)
            lhs = ("bin", op, lhs, rhs)
        return lhs

    def unary(self):
        if self.at("op", "*") or self.at("op", "!") or self.at("op", "++") or self.at("op", "--") or self.at("op", "-") or self.at("op", "&"):
            op = self.eat()
            return ("un", op, self.unary())
        if self.at("op", "(") and self.peek(1)[0] == "id" and self.peek(1)[1] in TYPE_WORDS:      # cast
            j = self.i + 1
            while self.t[j][0] == "id" and self.t[j][1] in TYPE_WORDS or self.t[j] == ("op", "*"):
                j += 1
            if self.t[j] == ("op", ")"):
                ty = [x[1] for x in self.t[self.i + 1:j]]
                self.i = j + 1
                return ("cast", ty, self.unary())
        return self.postfix()

    def postfix(self):
        if self.at("op", "("):
            self.eat()
            e = self.expr()
            self.eat("op", ")")
        elif self.at("num"):
            e = ("num", self.eat())
        elif self.at("chr"):
            e = ("chr", self.eat())
        elif self.at("str"):
            e = ("str", self.eat())
        elif self.at("id"):
            e = ("id", self.eat())
        else:
            raise Refuse(f"{self.fn}: unexpected token {self.peek()[1]!r} in an expression")
        while True:
            if self.at("op", "."):
                self.eat()
                e = ("mem", e, self.eat("id"))
            elif self.at("op", "->"):
                if e != ("id", "this"):
                    raise Refuse(f"{self.fn}: '->' on something other than this")
                self.eat()
                e = ("mem", e, self.eat("id"))
            elif self.at("op", "["):
                self.eat()
                ix = self.expr()
                self.eat("op", "]")
                e = ("idx", e, ix)
            elif self.at("op", "("):
                self.eat()
                args = []
                if not self.at("op", ")"):
                    args.append(self.assign())
                    while self.at("op", ","):
                        self.eat()
                        args.append(self.assign())
                self.eat("op", ")")
                e = ("call", e, args)
            elif self.at("op", "++") or self.at("op", "--"):
                e = ("post", self.eat(), e)
            else:
                return e

    # --- statements
    def block_or_stmt(self):
        if self.at("op", "{"):
            self.eat()
            out = self.stmts()
            self.eat("op", "}")
            return out
        return [self.stmt()]

    def stmts(self):
        out = []
        while self.peek()[0] is not None and not self.at("op", "}") and not self.at("id", "case") and not self.at("id", "default"):
            out.append(self.stmt())
        return out

    def stmt(self):
        if self.at("op", "{"):
            return ("block", self.block_or_stmt())
        if self.at("op", ";"):
            self.eat()
            return ("block", [])
        if self.at("id", "if"):
            self.eat()
            self.eat("op", "(")
            c = self.expr()
            self.eat("op", ")")
            th = self.block_or_stmt()
            el = []
            if self.at("id", "else"):
                self.eat()
                el = self.block_or_stmt()
            return ("if", c, th, el)
        if self.at("id", "for"):
            self.eat()
            self.eat("op", "(")
            init = None
            if not self.at("op", ";"):
                init = self.decl_or_expr()
            else:
                self.eat()
            cnd = None
            if not self.at("op", ";"):
                cnd = self.expr()
            self.eat("op", ";")
            inc = None
            if not self.at("op", ")"):
                inc = self.expr()
            self.eat("op", ")")
            body = self.block_or_stmt()
            if cnd is None and inc is None and (init is None or (init[0] == "decl" and init[3] is None)):
                return ("loop", ([init] if init else []) + body)
            return ("for", init, cnd, inc, body)          # only the dedicated interpreters know some of these
        if self.at("id", "while"):
            self.eat()
            self.eat("op", "(")
            c = self.expr()
            self.eat("op", ")")
            return ("while", c, self.block_or_stmt())
        if self.at("id", "switch"):
            self.eat()
            self.eat("op", "(")
            e = self.expr()
            self.eat("op", ")")
            self.eat("op", "{")
            cases = []
            while not self.at("op", "}"):
                labels = []
                while self.at("id", "case") or self.at("id", "default"):
                    if self.eat() == "default":
                        labels.append("default")
                    else:
                        if self.at("chr") or self.at("num"):
                            labels.append(self.eat())
                        else:
                            raise Refuse(f"{self.fn}: case label is not a character constant")
                    self.eat("op", ":")
                if not labels:
                    raise Refuse(f"{self.fn}: statement before the first case label")
                cases.append((labels, self.stmts()))
            self.eat("op", "}")
            return ("switch", e, cases)
        if self.at("id", "return"):
            self.eat()
            e = None if self.at("op", ";") else self.expr()
            self.eat("op", ";")
            return ("return", e)
        if self.at("id", "continue") or self.at("id", "break"):
            k = self.eat()
            self.eat("op", ";")
            return (k,)
        if self.at("id", "goto"):
            self.eat()
            l = self.eat("id")
            self.eat("op", ";")
            return ("goto", l)
        if self.at("id") and self.at("op", ":", 1) and self.peek()[1] not in ("case", "default", "public", "private"):
            l = self.eat("id")
            self.eat("op", ":")
            return ("label", l)
        if self.at("id") and self.peek()[1] in ("do", "try", "throw", "delete", "new"):
            raise Refuse(f"{self.fn}: '{self.peek()[1]}'")
        return self.decl_or_expr()

    def decl_or_expr(self):
        """declaration `T [*] name [= e];` / `char name[N] = "lit";` or an expression statement (both eat the ';')"""
        if self.at("id") and self.peek()[1] in TYPE_WORDS:
            ty = []
            while (self.at("id") and self.peek()[1] in TYPE_WORDS) or self.at("op", "*") or self.at("op", "&"):
                ty.append(self.eat())
            name = self.eat("id")
            dim = None
            if self.at("op", "["):
                self.eat()
                dim = self.eat("num")
                self.eat("op", "]")
            init = None
            if self.at("op", "="):
                self.eat()
                init = self.assign()
            elif self.at("op", "(") and dim is None:
                self.eat()
                args = []
                if not self.at("op", ")"):
                    args.append(self.assign())
                    while self.at("op", ","):
                        self.eat()
                        args.append(self.assign())
                self.eat("op", ")")
                init = ("ctor", args)
            first = ("decl", ty, name, init, dim)
            if self.at("op", ","):
                ds = [first]
                base = [x for x in ty if x not in ("*", "&")]
                while self.at("op", ","):
                    self.eat()
                    t2 = list(base)
                    while self.at("op", "*") or self.at("op", "&"):
                        t2.append(self.eat())
                    n2 = self.eat("id")
                    i2 = None
                    if self.at("op", "="):
                        self.eat()
                        i2 = self.assign()
                    ds.append(("decl", t2, n2, i2, None))
                self.eat("op", ";")
                return ("decls", ds)
            self.eat("op", ";")
            return first
        e = self.expr()
        self.eat("op", ";")
        return ("expr", e)


def parse_body(text, fn):
    p = Parser(tokenize(strip_comments(text)), fn)
    out = p.stmts()
    if p.peek()[0] is not None:
        raise Refuse(f"{fn}: trailing tokens at {p.peek()[1]!r}")
    return out


# ---------------------------------------------------------------------------------------------------------------------
# compiler to Lean
MSGS = {"Unexpected end of file": ".eof", "New line in string": ".newline", "Expected name": ".name"}
TOKTYPES = {"startTagBeginType": ".startTagBegin", "tagEndType": ".tagEnd", "endTagBeginType": ".endTagBegin",
            "emptyTagEndType": ".emptyTagEnd", "equalsSignType": ".equalsSign", "stringType": ".string", "nameType": ".name"}
POS_FIELDS = ("line", "pos", "lineStart")


def nat(base, k=0):
    return ("nat", base, k)


def rnat(v):
    _, base, k = v
    if base is None:
        return str(k)
    return base if k == 0 else f"{base} + {k}"


def paren(s):
    return s if re.fullmatch(r"[\w.]+", s) else f"({s})"


def blist(bs):
    return "[" + ", ".join(str(b) for b in bs) + "]"


HELPERS = {}      # name -> (return type, body text) of the parameterless members of Xml::Private (filled by run)


def _byte_test(e):
    """`P[k] == 'c'` / `*P == 'c'` / `*(P + k) == 'c'` (either order) with a side-effect free P and c != 0 -> (P, k, c)"""
    if e[0] != "bin" or e[1] != "==":
        return None
    a, b = e[2], e[3]
    if a[0] == "chr":
        a, b = b, a
    if b[0] != "chr" or b[1] == 0:
        return None
    if a[0] == "idx" and a[2][0] == "num":
        P, k = a[1], a[2][1]
    elif a[0] == "un" and a[1] == "*":
        P, k = a[2], 0
        if P[0] == "bin" and P[1] == "+" and P[3][0] == "num":
            P, k = P[2], P[3][1]
    else:
        return None

    def pure(x):
        return x[0] == "id" or (x[0] == "mem" and pure(x[1]))
    return (P, k, b[1]) if pure(P) else None


def norm_lit(e):
    """a `&&` chain that tests CONSECUTIVE bytes p[k], p[k+1], ... against non-NUL constants (each read only after the
    one before matched) reads exactly what `String::compare(p + k, "...", n) == 0` reads: both become one `litat` node"""
    if e[0] != "bin" or e[1] != "&&":
        return e
    conj = []

    def flat(x):
        if x[0] == "bin" and x[1] == "&&":
            flat(x[2])
            flat(x[3])
        else:
            conj.append(x)
    flat(e)
    out, i = [], 0
    while i < len(conj):
        t = _byte_test(conj[i])
        j = i
        if t:
            run = [t]
            while j + 1 < len(conj):
                u = _byte_test(conj[j + 1])
                if u and u[0] == t[0] and u[1] == run[-1][1] + 1:
                    run.append(u)
                    j += 1
                else:
                    break
            if len(run) >= 2:
                out.append(("litat", t[0], t[1], [r[2] for r in run]))
                i = j + 1
                continue
        out.append(conj[i])
        i += 1
    if len(out) == len(conj):
        return e
    r = out[0]
    for x in out[1:]:
        r = ("bin", "&&", r, x)
    return r


class Env:
    def __init__(self, vals, reads, consts, scope=0):
        self.v, self.reads, self.consts, self.scope = vals, reads, consts, scope

    def copy(self):
        return Env(dict(self.v), dict(self.reads), self.consts, self.scope)


class Compiler:
    def __init__(self, fn):
        self.fn, self.n = fn, 0
        self.defs = []          # (name, params, text)
        self.loops = 0
        self.scope = 0
        self.depth = 0
        self.pending = []
        self.sets = {}          # character set (constants / parameters) -> name of its definition
        self.preds = {}         # text of a byte test of a `while` scan -> name of its definition

    def fresh(self, p):
        self.n += 1
        return f"{p}{self.n}"

    def initial_env(self, locals_=()):
        v = {"pos.line": nat("s.pos.line"), "pos.pos": nat("s.pos.pos"), "pos.lineStart": nat("s.pos.ls"),
             "commentEnd": ("opos", "s.ce"),
             "token.type": ("toktype", "s.tok.type"), "token.value": ("bytes", "s.tok.value"),
             "token.pos.line": nat("s.tok.pos.line"), "token.pos.pos": nat("s.tok.pos.pos"),
             "token.pos.lineStart": nat("s.tok.pos.ls"), "text": ("bytes", "s.text")}
        for nm in locals_:
            v[nm] = nat(f"l_{nm}")
        return Env(v, {}, set(locals_))

    def state(self, env):
        g = lambda p: rnat(env.v[p])
        return (f"⟨⟨{g('pos.line')}, {g('pos.pos')}, {g('pos.lineStart')}⟩, {env.v['commentEnd'][1]}, "
                f"⟨{env.v['token.type'][1]}, {env.v['token.value'][1]}, ⟨{g('token.pos.line')}, {g('token.pos.pos')}, "
                f"{g('token.pos.lineStart')}⟩⟩, {env.v['text'][1]}⟩")

    # ---- lvalues
    def path(self, e):
        if e[0] == "id":
            return e[1]
        if e[0] == "mem":
            return self.path(e[1]) + "." + e[2]
        raise Refuse(f"{self.fn}: not an lvalue the translator knows")

    def is_struct(self, env, p):
        return all(f"{p}.{f}" in env.v for f in POS_FIELDS)

    def store(self, env, p, val):
        if p in env.consts:
            raise Refuse(f"{self.fn}: the local '{p}' is assigned inside a loop it was declared in front of")
        if p not in env.v:
            raise Refuse(f"{self.fn}: assignment to unknown '{p}'")
        old = env.v[p]
        if old[0] not in ("undef",) and old[0] != val[0] and not (old[0] == "ptr?" and val[0] == "nat") and not (old[0] == "nat" and val[0] == "ptr?"):
            raise Refuse(f"{self.fn}: '{p}' changes its type ({old[0]} := {val[0]})")
        env.v[p] = val

    # ---- reads
    def read(self, env, out, kind, pv):
        key = (kind, rnat(pv))
        if key in env.reads:
            return env.reads[key]
        x = self.fresh("c" if kind == "peek" else "z")
        out.append(f"({kind} t {paren(rnat(pv))}).bind fun {x} =>")
        env.reads[key] = x
        return x

    # ---- expressions: returns a value; appends bind lines to `out`; updates env
    def ev(self, e, env, out):
        k = e[0]
        if k == "num":
            return ("int", e[1])
        if k == "chr":
            return ("char", str(e[1]))
        if k == "cast":
            v = self.ev(e[2], env, out)
            if "uchar" in e[1] or "unsigned" in e[1]:
                if v[0] != "char" or "*" in e[1]:
                    raise Refuse(f"{self.fn}: unsigned cast of something that is not a char")
                return ("uchar", v[1])
            if "*" in e[1] or "char" in e[1] or "bool" in e[1]:
                raise Refuse(f"{self.fn}: cast to {' '.join(e[1])}")
            return v
        if k in ("id", "mem"):
            p = self.path(e)
            if p in ("true", "false"):
                return ("bool", p)
            if p not in env.v:
                raise Refuse(f"{self.fn}: unknown name '{p}'")
            v = env.v[p]
            if v[0] == "undef":
                raise Refuse(f"{self.fn}: '{p}' is read before it is assigned")
            return v
        if k == "un" and not (e[1] == "!" and e[2][0] == "call" and e[2][1] == ("id", "String::compare")):
            op = e[1]
            if op == "*":
                pv = self.ev(e[2], env, out)
                if pv[0] != "nat":
                    raise Refuse(f"{self.fn}: dereference of something that is not a checked, non-null text pointer")
                return ("char", self.read(env, out, "peek", pv))
            if op == "++":
                p = self.path(e[2])
                v = self.ev(e[2], env, out)
                if v[0] != "nat":
                    raise Refuse(f"{self.fn}: ++ on a non-integer")
                nv = nat(v[1], v[2] + 1)
                self.store(env, p, nv)
                return nv
            if op == "!":
                v = self.as_bool(self.ev(e[2], env, out))
                return ("bool", f"!{paren(v)}")
            raise Refuse(f"{self.fn}: unary '{op}'")
        if k == "post":
            if e[1] != "++":
                raise Refuse(f"{self.fn}: postfix '{e[1]}'")
            p = self.path(e[2])
            v = self.ev(e[2], env, out)
            if v[0] != "nat":
                raise Refuse(f"{self.fn}: ++ on a non-integer")
            self.store(env, p, nat(v[1], v[2] + 1))
            return v
        if k == "idx":
            pv = self.ev(e[1], env, out)
            iv = self.ev(e[2], env, out)
            if pv[0] != "nat" or iv[0] != "int":
                raise Refuse(f"{self.fn}: index expression")
            return ("char", self.read(env, out, "peek", nat(pv[1], pv[2] + iv[1])))
        if k == "asg":
            op, lhs, rhs = e[1], e[2], e[3]
            if lhs[0] == "un" and lhs[1] == "*":            # `*arr = c` on a local char array
                p = self.path(lhs[2])
                if p in env.v and env.v[p][0] == "arr" and op == "=":
                    v = self.ev(rhs, env, out)
                    if v[0] != "char":
                        raise Refuse(f"{self.fn}: store of a non-char into a char array")
                    env.v[p] = ("arr", [v[1]] + env.v[p][1][1:])
                    return v
                raise Refuse(f"{self.fn}: write through a pointer")
            p = self.path(lhs)
            if op == "=":
                if rhs[0] in ("id", "mem") and self.is_struct(env, self.path(rhs)):     # Position copy
                    src = self.path(rhs)
                    if p == "commentEnd":
                        g = lambda f: rnat(env.v[f"{src}.{f}"])
                        env.v[p] = ("opos", f"some ⟨{g('line')}, {g('pos')}, {g('lineStart')}⟩")
                        return ("void",)
                    if not self.is_struct(env, p):
                        raise Refuse(f"{self.fn}: Position assigned to '{p}'")
                    for f in POS_FIELDS:
                        env.v[f"{p}.{f}"] = env.v[f"{src}.{f}"]
                    return ("void",)
                if p == "token.type":
                    if rhs[0] != "id" or not rhs[1].startswith("Token::") or rhs[1][7:] not in TOKTYPES:
                        raise Refuse(f"{self.fn}: unknown token type")
                    env.v[p] = ("toktype", TOKTYPES[rhs[1][7:]])
                    return ("void",)
                v = self.ev(rhs, env, out)
                if v[0] == "int":
                    v = nat(None, v[1])
                self.store(env, p, v)
                return v
            v = self.ev(lhs, env, out)
            d = self.ev(rhs, env, out)
            if v[0] != "nat" or d[0] not in ("int", "nat") or op != "+=":
                raise Refuse(f"{self.fn}: compound assignment other than `integer += integer`")
            nv = nat(v[1], v[2] + d[1]) if d[0] == "int" else nat(f"({rnat(v)} + {paren(rnat(d))})")
            self.store(env, p, nv)
            return nv
        if k == "un" and e[1] == "!" and e[2][0] == "call" and e[2][1] == ("id", "String::compare"):
            return self.ev(("bin", "==", e[2], ("num", 0)), env, out)
        if k == "bin" and e[1] in ("==", "!=") and e[2] == ("num", 0) and e[3] != ("num", 0):
            return self.ev(("bin", e[1], e[3], e[2]), env, out)
        if k == "bin":
            op = e[1]
            if op in ("==", "!=") and e[2][0] == "call" and e[2][1] == ("id", "String::compare") and e[3] == ("num", 0):
                args = e[2][2]
                if len(args) != 3 or args[1][0] != "str" or args[2][0] != "num" or len(args[1][1]) < args[2][1]:
                    raise Refuse(f"{self.fn}: String::compare is understood as compare(pointer, literal, n <= its length)")
                pv = self.ev(args[0], env, out)
                if pv[0] != "nat":
                    raise Refuse(f"{self.fn}: String::compare on an unchecked pointer")
                z = self.read(env, out, "cstr", pv)
                t = f"strncmp0 {z} {blist(args[1][1][:args[2][1]])} {args[2][1]}"
                return ("bool", t if op == "==" else f"!({t})")
            if op == "&&" and norm_lit(e) != e:
                return self.ev(norm_lit(e), env, out)
            if op in ("&&", "||"):
                n0 = len(out)
                a = self.as_bool(self.ev(e[2], env, out))
                n1 = len(out)
                b = self.as_bool(self.ev(e[3], env, out))
                if len(out) != n1:
                    raise Refuse(f"{self.fn}: memory read on the right of {op} outside a condition")
                return ("bool", f"{paren(a)} {op} {paren(b)}")
            a = self.ev(e[2], env, out)
            b = self.ev(e[3], env, out)
            if op in ("+", "-"):
                if a[0] == "nat" and b[0] == "int":
                    if op == "+":
                        return nat(a[1], a[2] + b[1])
                    if a[2] >= b[1]:
                        return nat(a[1], a[2] - b[1])
                    return nat(f"({rnat(a)} - {b[1]})")
                if a[0] == "nat" and b[0] == "nat":
                    if op == "-" and a[1] == b[1] and a[2] >= b[2]:
                        return nat(None, a[2] - b[2])
                    return nat(f"({rnat(a)} {op} {paren(rnat(b))})")
                if a[0] == "int" and b[0] == "int":
                    return ("int", a[1] + b[1] if op == "+" else a[1] - b[1])
                raise Refuse(f"{self.fn}: arithmetic '{op}' on {a[0]}, {b[0]}")
            if op == "&":
                if a[0] == "char" and b[0] == "int" and 0 <= b[1] < 256:
                    return ("char", f"({a[1]} &&& {b[1]})")
                raise Refuse(f"{self.fn}: '&' other than char & small constant")
            if op in ("==", "!=", "<", ">", "<=", ">="):
                if a[0] == "uchar" and b[0] == "int" and 0 <= b[1] < 256:
                    lop = {"<": "<", ">": ">", "<=": "≤", ">=": "≥", "==": "=", "!=": "≠"}[op]
                    return ("bool", f"decide ({a[1]}.toNat {lop} {b[1]})")
                if a[0] == "char" and b[0] in ("char", "int"):
                    bv = b[1]
                    if b[0] == "int" and not (0 <= bv < 128):
                        raise Refuse(f"{self.fn}: char compared with a constant outside 0..127")
                    if op in ("==", "!="):
                        return ("bool", f"{a[1]} {op} {bv}")
                    lop = {"<": "<", ">": ">", "<=": "≤", ">=": "≥"}[op]
                    rb = f"sgn {paren(str(bv))}" if b[0] == "char" and not str(bv).isdigit() else str(bv)
                    return ("bool", f"decide (sgn {paren(a[1])} {lop} {rb})")
                if a[0] == "nat" and b[0] == "nat" and op in ("==", "!="):
                    return ("bool", f"{paren(rnat(a))} {op} {paren(rnat(b))}")
                if a[0] == "toktype" or b[0] == "toktype":
                    raise Refuse(f"{self.fn}: comparison of token types")
                raise Refuse(f"{self.fn}: comparison '{op}' on {a[0]}, {b[0]}")
            raise Refuse(f"{self.fn}: operator '{op}'")
        if k == "litat":
            pv = self.ev(e[1], env, out)
            if pv[0] != "nat":
                raise Refuse(f"{self.fn}: byte tests on an unchecked pointer")
            z = self.read(env, out, "cstr", nat(pv[1], pv[2] + e[2]))
            return ("bool", f"strncmp0 {z} {blist(e[3])} {len(e[3])}")
        if k == "call":
            return self.call(e, env, out)
        raise Refuse(f"{self.fn}: expression '{k}'")

    def as_bool(self, v):
        if v[0] == "bool":
            return v[1]
        if v[0] == "char":
            return f"{v[1]} != 0"
        raise Refuse(f"{self.fn}: {v[0]} used as a truth value")

    def charset(self, a, env):
        """a set of characters handed to findOneOf / find -> a named definition (parameters: the non-constant members)"""
        if a[0] == "str":
            if 0 in a[1]:
                raise Refuse(f"{self.fn}: NUL inside a character set")
            items = [str(b) for b in a[1]]
        elif a[0] == "chr":
            items = [str(a[1])]
        elif a[0] == "id" and a[1] in env.v and env.v[a[1]][0] == "arr":
            items = list(env.v[a[1]][1])
        else:
            raise Refuse(f"{self.fn}: character set that is neither a literal nor a local char array")
        params = [x for x in items if not x.isdigit()]
        if len(set(params)) != len(params):
            raise Refuse(f"{self.fn}: character set with a repeated variable")
        key = tuple("v%d" % params.index(x) if x in params else x for x in items)
        if key not in self.sets:
            self.sets[key] = f"{self.fn}_set{len(self.sets)}"
        return paren(" ".join([f"Generated.{self.sets[key]}"] + params))

    def call(self, e, env, out):
        f, args = e[1], e[2]
        if f[0] == "id":
            name = f[1]
            if name in ("String::findOneOf", "String::find") and len(args) == 2:
                if name == "String::find" and args[1][0] != "chr":
                    raise Refuse(f"{self.fn}: String::find(pointer, string)")
                pv = self.ev(args[0], env, out)
                if pv[0] != "nat":
                    raise Refuse(f"{self.fn}: {name} on an unchecked pointer")
                z = self.read(env, out, "cstr", pv)
                return ("ptr?", rnat(pv), f"strpbrk {self.charset(args[1], env)} {z}")
            if name == "String::length" and len(args) == 1:
                pv = self.ev(args[0], env, out)
                if pv[0] != "nat":
                    raise Refuse(f"{self.fn}: String::length on an unchecked pointer")
                z = self.read(env, out, "cstr", pv)
                return nat(f"{z}.length")
            if name == "String::isSpace" and len(args) == 1:
                v = self.ev(args[0], env, out)
                if v[0] != "char":
                    raise Refuse(f"{self.fn}: isSpace of a non-char")
                return ("bool", f"Generated.isSpace {paren(v[1])}")
            if name == "unescapeString" and len(args) == 1:
                v = self.ev(args[0], env, out)
                if v[0] != "bytes":
                    raise Refuse(f"{self.fn}: unescapeString of something that is not a String")
                return ("bytes", f"unescape {paren(v[1])}")
            if name == "String" and len(args) == 2:
                return self.memread(args, env, out)
            raise Refuse(f"{self.fn}: call of '{name}'")
        if f[0] == "mem" and f[2] == "attach" and len(args) == 2:
            p = self.path(f[1])
            if p not in env.v or env.v[p][0] != "bytes":
                raise Refuse(f"{self.fn}: attach on something that is not a local String")
            env.v[p] = self.memread(args, env, out)
            return ("void",)
        raise Refuse(f"{self.fn}: call the translator does not know")

    def memread(self, args, env, out):
        pv = self.ev(args[0], env, out)
        nv = self.ev(args[1], env, out)
        if nv[0] == "int":
            nv = nat(None, nv[1])
        if pv[0] != "nat" or nv[0] != "nat":
            raise Refuse(f"{self.fn}: String(pointer, length) with unchecked arguments")
        x = self.fresh("m")
        out.append(f"(mem t {paren(rnat(pv))} {paren(rnat(nv))}).bind fun {x} =>")
        return ("bytes", x)

    # ---- private helper functions without parameters are executed in place
    def helper_call(self, e):
        if e[0] == "call" and not e[2]:
            f = e[1]
            nm = f[1] if f[0] == "id" else (f[2] if f[0] == "mem" and f[1] == ("id", "this") else None)
            if nm and nm in HELPERS and nm != self.fn:
                return nm
        return None

    def inline(self, name, env, kret, lvl):
        if self.depth > 3:
            raise Refuse(f"{self.fn}: helper calls nested too deeply (recursion?)")
        rett, text = HELPERS[name]
        body = parse_body(text, name)
        members = set(self.initial_env().v)
        saved = {n: v for n, v in env.v.items() if n not in members}
        for n in saved:
            del env.v[n]
        scope0 = env.scope

        def leave(e2, r):
            if r is not None and r not in (("id", "true"), ("id", "false")):
                raise Refuse(f"{self.fn}: helper '{name}' returns an expression")
            if (r is None) != (rett == "void"):
                raise Refuse(f"{self.fn}: helper '{name}': return does not fit its type")
            for n in list(e2.v):
                if n not in members:
                    del e2.v[n]
            if e2.scope == scope0:
                e2.v.update(saved)           # (inside another loop body the caller's locals are out of reach)
            return kret(e2, r)
        self.depth += 1
        try:
            if rett == "void":
                return self.comp(body, env, {"fall": lambda e2: leave(e2, None), "ret": leave, "level": lvl})

            def nofall(e2):
                raise Refuse(f"{self.fn}: helper '{name}' can fall off its end")
            return self.comp(body, env, {"fall": nofall, "ret": leave, "level": lvl})
        finally:
            self.depth -= 1

    # ---- conditions with short circuit
    def cond(self, e, env, kT, kF, lvl=-1):
        e = norm_lit(e)
        if e[0] == "un" and e[1] == "!":
            return self.cond(e[2], env, kF, kT, lvl)
        if e[0] == "bin" and e[1] == "&&":
            return self.cond(e[2], env, lambda e1: self.cond(e[3], e1, kT, kF, lvl), kF, lvl)
        if e[0] == "bin" and e[1] == "||":
            return self.cond(e[2], env, kT, lambda e1: self.cond(e[3], e1, kT, kF, lvl), lvl)
        h = self.helper_call(e)
        if h:
            def done(e2, r):
                if r == ("id", "true"):
                    return kT(e2)
                if r == ("id", "false"):
                    return kF(e2)
                raise Refuse(f"{self.fn}: helper '{h}' used as a condition returns something other than true / false")
            return self.inline(h, env, done, lvl)
        if e[0] == "bin" and e[1] in ("==", "!=") and e[2] == ("num", 0) and e[3][0] == "id":
            e = ("bin", e[1], e[3], e[2])
        if e[0] == "bin" and e[1] in ("==", "!=") and e[3] == ("num", 0) and e[2][0] == "id" and \
                env.v.get(e[2][1], ("",))[0] in ("ptr?", "nat"):
            return self.cond(e[2], env, kT, kF, lvl) if e[1] == "!=" else self.cond(e[2], env, kF, kT, lvl)
        out = []
        v = self.ev(e, env, out)
        if v[0] == "ptr?":
            if e[0] != "id":
                raise Refuse(f"{self.fn}: null test of an unnamed pointer")
            x = self.fresh("k")
            e1, e2 = env.copy(), env.copy()
            e2.v[e[1]] = nat(f"({v[1]} + {x})")
            body = f"(match {v[2]} with\n| none =>\n{ind(kF(e1))}\n| some {x} =>\n{ind(kT(e2))})"
        elif v[0] == "nat":
            body = kT(env.copy())
        else:
            b = self.as_bool(v)
            body = f"if {b} then\n{ind(kT(env.copy()))}\nelse\n{ind(kF(env.copy()))}"
        return "\n".join(out + [body])

    # ---- statements (continuation passing): K = dict fall/brk/cont -> env -> text
    def comp(self, stmts, env, K):
        if not stmts:
            return K["fall"](env)
        s, rest = stmts[0], stmts[1:]
        go = lambda e1: self.comp(rest, e1, K)
        k = s[0]
        if k == "block":
            return self.comp(s[1], env, dict(K, fall=go))       # (scoping of block locals is not modelled: names are unique)
        if k == "decl":
            _, ty, name, init, dim = s
            out = []
            if name in env.v and not name.startswith("__"):
                raise Refuse(f"{self.fn}: the local '{name}' shadows another name")
            tyw = [x for x in ty if x != "const"]
            if dim is not None:
                if tyw != ["char"] or init is None or init[0] != "str" or len(init[1]) + 1 != dim:
                    raise Refuse(f"{self.fn}: local array other than `char a[N] = \"N-1 characters\"`")
                env.v[name] = ("arr", [str(b) for b in init[1]])
            elif tyw == ["Position"]:
                if init is None or not self.is_struct(env, self.path(init)):
                    raise Refuse(f"{self.fn}: Position local without a Position initialiser")
                for f in POS_FIELDS:
                    env.v[f"{name}.{f}"] = env.v[f"{self.path(init)}.{f}"]
            elif tyw == ["String"]:
                if init is not None:
                    raise Refuse(f"{self.fn}: initialised String local")
                env.v[name] = ("bytes", "[]")
            elif init is None:
                env.v[name] = ("undef",)
            else:
                v = self.ev(init, env, out)
                if v[0] == "int":
                    v = nat(None, v[1])
                if v[0] not in ("nat", "ptr?", "char"):
                    raise Refuse(f"{self.fn}: local '{name}' of a type the translator does not know")
                env.v[name] = v
            return "\n".join(out + [go(env)])
        if k == "expr" and self.helper_call(s[1]):
            return self.inline(self.helper_call(s[1]), env, lambda e2, r: go(e2), K.get("level", -1))
        if k == "expr":
            out = []
            self.ev(s[1], env, out)
            return "\n".join(out + [go(env)])
        if k == "if":
            _, c, th, el = s
            return self.cond(c, env, lambda e1: self.comp(th, e1, dict(K, fall=go)), lambda e1: self.comp(el, e1, dict(K, fall=go)),
                             K.get("level", -1))
        if k == "switch":
            _, e, cases = s
            out = []
            v = self.ev(e, env, out)
            if v[0] != "char":
                raise Refuse(f"{self.fn}: switch on something that is not a char")
            seen = [l for ls, _ in cases for l in ls]
            if len(seen) != len(set(seen)):
                raise Refuse(f"{self.fn}: duplicate case label")
            KS = dict(K, brk=go)

            def body(j):
                def run(e1):
                    nxt = body(j + 1) if j + 1 < len(cases) else go
                    return self.comp(cases[j][1], e1, dict(KS, fall=nxt))
                return run
            arms, default = [], None
            for j, (labels, _) in enumerate(cases):
                if "default" in labels:
                    default = j                       # other labels beside `default` add nothing
                else:
                    arms.append((sorted(labels), j))
            arms.sort()                                # the order of the cases in the source does not matter
            dflt = body(default) if default is not None else go
            txt = ""
            for labels, j in arms:
                test = " ∨ ".join(f"{v[1]} = {l}" for l in labels)
                txt += f"if {test} then\n{ind(body(j)(env.copy()))}\nelse "
            txt = (txt + "\n" + ind(dflt(env.copy()))) if txt else dflt(env.copy())
            return "\n".join(out + [txt])
        if k == "loop":
            idx = self.loops
            self.loops += 1
            locs = sorted(n for n, v in env.v.items() if "." not in n and v[0] == "nat" and n not in
                          ("text", "commentEnd") and not n.startswith("l_"))
            for n, v in env.v.items():
                if "." not in n and n not in ("text", "commentEnd") and v[0] in ("ptr?", "bytes", "arr"):
                    raise Refuse(f"{self.fn}: the local '{n}' lives across a loop and is not a checked pointer / integer")
            # struct locals (Position) live across the loop: passed field by field
            slocs = sorted(p for p in env.v if p.count(".") == 1 and p.split(".")[0] not in ("pos", "token") and env.v[p][0] == "nat")
            names = locs + slocs
            lvl = K.get("level", -1) + 1
            self.pending.append((idx, s[1], names, rest, K, lvl))
            vals = ", ".join(rnat(env.v[n]) for n in names)
            return f".ok (.enter {lvl} {self.state(env)} [{vals}])"
        if k == "while":
            return self.while_idiom(s, env, go)
        if k == "return":
            return K["ret"](env, s[1])
        if k == "continue":
            if "cont" not in K:
                raise Refuse(f"{self.fn}: continue outside a loop")
            return K["cont"](env)
        if k == "break":
            if "brk" not in K:
                raise Refuse(f"{self.fn}: break outside a loop / switch")
            return K["brk"](env)
        raise Refuse(f"{self.fn}: statement '{k}'")

    def while_idiom(self, s, env, go):
        """`while(<conjunction of tests of *p, one of them *p != 0>) ++p;` -> p += span test (cstr t p)"""
        _, c, body = s
        if len(body) != 1 or body[0][0] != "expr" or body[0][1][0] not in ("un", "post") or body[0][1][1] != "++":
            raise Refuse(f"{self.fn}: while loop other than `while(test of *p) ++p;`")
        p = self.path(body[0][1][2])
        pv = env.v.get(p)
        if pv is None or pv[0] != "nat":
            raise Refuse(f"{self.fn}: while loop over an unchecked pointer")
        conj = []

        def flat(e):
            if e[0] == "bin" and e[1] == "&&":
                flat(e[2])
                flat(e[3])
            else:
                conj.append(e)
        flat(c)
        nonnul = any(x == ("un", "*", ("id", p)) or x in (("bin", "!=", ("un", "*", ("id", p)), ("num", 0)),
                                                            ("bin", "!=", ("un", "*", ("id", p)), ("chr", 0))) for x in conj)
        if not nonnul:
            raise Refuse(f"{self.fn}: the while loop does not stop at the terminator")
        e2 = Env({"b": ("char", "b")}, {}, set())
        e2.v[p] = ("self",)

        def sub(e):                                   # *p -> b
            if e == ("un", "*", ("id", p)):
                return ("id", "b")
            if e[0] in ("id", "num", "chr", "str"):
                if e[0] == "id" and e[1] == p:
                    raise Refuse(f"{self.fn}: the while condition uses the pointer itself")
                return e
            return tuple(sub(x) if isinstance(x, tuple) else ([sub(y) for y in x] if isinstance(x, list) else x) for x in e)
        out2 = []
        t = self.as_bool(self.ev(sub(c), e2, out2))
        if out2:
            raise Refuse(f"{self.fn}: the while condition reads memory other than *{p}")
        out = []
        z = self.read(env, out, "cstr", pv)
        n = self.fresh("n")
        if t not in self.preds:
            self.preds[t] = f"{self.fn}_scan{len(self.preds)}"
        out.append(f"let {n} := span Generated.{self.preds[t]} {z}")
        env.v[p] = nat(f"({rnat(pv)} + {n})")
        return "\n".join(out + [go(env)])

    # ---- whole function
    def top_return(self, env, e):
        """`return` of the translated function itself"""
        if e is None or e == ("id", "true"):
            return f".ok (.ret {self.state(env)})"
        if e[0] == "comma" and e[2] == ("id", "false") and e[1][0] == "call":
            c = e[1]
            nm = c[1][1] if c[1][0] == "id" else (c[1][2] if c[1][0] == "mem" and c[1][1] == ("id", "this") else None)
            if nm == "syntaxError" and len(c[2]) == 2 and c[2][1][0] == "str":
                msg = bytes(c[2][1][1]).decode()
                if msg not in MSGS:
                    raise Refuse(f"{self.fn}: error message {msg!r} has no message class in the model")
                p = self.path(c[2][0])
                if not self.is_struct(env, p):
                    raise Refuse(f"{self.fn}: syntaxError at something that is not a Position")
                g = lambda f: rnat(env.v[f"{p}.{f}"])
                return f"Generated.syntaxError ⟨{g('line')}, {g('pos')}, {g('lineStart')}⟩ {MSGS[msg]}"
        raise Refuse(f"{self.fn}: return statement the translator does not know")

    def function(self, stmts, leading_call=None):
        if leading_call:
            if not stmts or stmts[0] != ("expr", ("call", ("id", leading_call), [])):
                raise Refuse(f"{self.fn}: does not start with {leading_call}()")
            stmts = stmts[1:]
        end = lambda env: f".ok (.ret {self.state(env)})"
        env = self.initial_env()
        self.defs.append((f"{self.fn}_entry", [], self.comp(stmts, env, {"fall": end, "ret": self.top_return, "level": -1})))
        while self.pending:
            idx, body, names, rest, K, lvl = self.pending.pop(0)
            lp = [n.replace(".", "_") for n in names]
            env = self.initial_env()
            self.scope += 1
            env.scope = self.scope
            for n in names:
                env.v[n] = nat("l_" + n.replace(".", "_"))
            env.consts = set(names)
            nxt = (lambda l: lambda e: f".ok (.next {l} {self.state(e)})")(lvl)
            # `break`: the statements behind the loop are compiled in place (their `continue` is the enclosing loop's)
            KL = {"fall": nxt, "cont": nxt, "level": lvl, "ret": K["ret"],
                  "brk": (lambda r, k: lambda e: self.comp(r, e, k))(rest, K)}
            self.defs.append((f"{self.fn}_loop{idx}", lp, self.comp(body, env, KL)))
        return self.defs


def ind(s):
    return "\n".join("  " + l for l in s.split("\n"))


def render(defs, preds=None, sets=None):
    out = []
    for key, name in (sets or {}).items():
        n = sum(1 for x in key if x.startswith("v"))
        ps = "".join(f" (v{i} : UInt8)" for i in range(n))
        out.append(f"/-- a character set handed to `String::findOneOf` / `String::find` -/\ndef {name}{ps} : Bytes :=\n  [{', '.join(key)}]\n")
    for text, name in (preds or {}).items():
        out.append(f"/-- the test of a `while(test of *p) ++p;` scan -/\ndef {name} (b : UInt8) : Bool :=\n  {text}\n")
    for name, params, text in defs:
        ps = "".join(f" (l_{p} : Nat)" for p in params)
        out.append(f"def {name} (t : Bytes){ps} (s : St) : Res Ctl :=\n{ind(text)}\n")
    return "\n".join(out)


# ---------------------------------------------------------------------------------------------------------------------
def pure_bool(fn, text, params):
    """`return <expression over the char parameters>;` -> Lean Bool term"""
    st = parse_body(text, fn)
    if len(st) != 1 or st[0][0] != "return" or st[0][1] is None:
        raise Refuse(f"{fn}: body is not a single return statement")
    c = Compiler(fn)
    env = Env({p: ("char", p) for p in params}, {}, set())
    out = []
    v = c.as_bool(c.ev(st[0][1], env, out))
    if out:
        raise Refuse(f"{fn}: reads memory")
    return v


def syntax_error(text):
    """body of syntaxError(const Position& pos, const String& error): line and column expressions"""
    st = parse_body(text, "syntaxError")
    c = Compiler("syntaxError")
    env = Env({"pos.line": nat("p.line"), "pos.pos": nat("p.pos"), "pos.lineStart": nat("p.ls"), "errorLine": ("undef",),
               "errorColumn": ("undef",), "errorString": ("undef",), "error": ("msg", "m")}, {}, set())
    for s in st:
        if s[0] != "expr" or s[1][0] != "asg" or s[1][1] != "=":
            raise Refuse("syntaxError: statement other than an assignment")
        out = []
        p = c.path(s[1][2])
        if p not in ("errorLine", "errorColumn", "errorString") or env.v[p][0] != "undef":
            raise Refuse(f"syntaxError: assignment to '{p}'")
        v = c.ev(s[1][3], env, out)
        if out:
            raise Refuse("syntaxError: reads memory")
        if v[0] == "int":
            v = nat(None, v[1])
        env.v[p] = v
    if env.v["errorLine"][0] != "nat" or env.v["errorColumn"][0] != "nat" or env.v["errorString"] != ("msg", "m"):
        raise Refuse("syntaxError: errorLine / errorColumn / errorString are not all assigned as expected")
    return rnat(env.v["errorLine"]), rnat(env.v["errorColumn"])


def tables(src):
    m = re.search(r'const char\*\s*Xml::Private::escapeChars\s*=\s*("(?:\\.|[^"\\])*")\s*;', src)
    m2 = re.search(r"String\s+Xml::Private::escapeStrings\[(\d+)\]\s*=\s*\{(.*?)\}\s*;", src, re.S)
    m3 = re.search(r"String\s+Xml::Private::lineBreakStrings\[(\d+)\]\s*=\s*\{(.*?)\}\s*;", src, re.S)
    if not (m and m2 and m3):
        raise Refuse("escapeChars / escapeStrings / lineBreakStrings not found")
    chars = lit_bytes(m.group(1)[1:-1])

    def strs(mm):
        items = re.findall(r'String\(\s*("(?:\\.|[^"\\])*")\s*\)', mm.group(2))
        rest = re.sub(r'String\(\s*"(?:\\.|[^"\\])*"\s*\)', "", mm.group(2))
        if len(items) != int(mm.group(1)) or rest.replace(",", "").strip():
            raise Refuse("string table: initialiser not understood")
        return [lit_bytes(x[1:-1]) for x in items]
    return chars, strs(m2), strs(m3)


def escape_plain(src):
    """first condition of the loop of escapeString: the bytes copied as they are"""
    body = function_body(src, r"String\s+Xml::Private::escapeString\(const String&\s*str,\s*bool\s+attributeValue\)", "escapeString")
    m = re.search(r"c = \*i;\s*if\((.*?)\)\s*(?://[^\n]*)?\s*\{\s*\*\(dest\+\+\) = c;\s*continue;\s*\}", body, re.S)
    if not m:
        raise Refuse("escapeString: `c = *i; if(<plain byte>) { *(dest++) = c; continue; }` not found")
    p = Parser(tokenize(strip_comments(m.group(1))), "escapeString")
    e = p.expr()
    if p.peek()[0] is not None:
        raise Refuse("escapeString: condition not understood")
    c = Compiler("escapeString")
    out = []
    v = c.as_bool(c.ev(e, Env({"c": ("char", "c"), "attributeValue": ("bool", "attr")}, {}, set()), out))
    if out:
        raise Refuse("escapeString: the condition reads memory")
    return v


RE_ESC_LOOP = re.compile(r"for\(const char\*\s*i = str,\s*\*\s*end = i \+ str\.length\(\);\s*i < end;\s*\+\+i\)\s*\{")


def escape_body(src):
    """the body of the loop of escapeString as a function (attributeValue, c) -> bytes appended to the output.
    `*(dest++) = x` appends x; `Memory::copy(dest, (const char*)S, S.length() * sizeof(char)); dest += S.length();` appends S;
    the statements from `result.resize(dest - destStart);` to `dest = destStart + result.length();` re-seat the buffer and leave
    the written bytes alone (their capacity arithmetic is translated separately: reserve policy, EscapeMem.lean)."""
    body = function_body(src, r"String\s+Xml::Private::escapeString\(const String&\s*str,\s*bool\s+attributeValue\)", "escapeString")
    body = strip_comments(body)
    ms = list(RE_ESC_LOOP.finditer(body))
    if len(ms) != 1:
        raise Refuse("escapeString: the loop `for(const char* i = str, * end = i + str.length(); i < end; ++i)` not found")
    depth, i = 0, ms[0].end() - 1
    j = i
    while True:
        if body[j] in "\"'":
            q = body[j]
            j += 1
            while body[j] != q:
                j += 2 if body[j] == "\\" else 1
        elif body[j] == "{":
            depth += 1
        elif body[j] == "}":
            depth -= 1
            if depth == 0:
                break
        j += 1
    if body[j + 1:].replace(" ", "").replace("\n", "") != "result.resize(dest-destStart);returnresult;":
        raise Refuse("escapeString: statements behind the loop other than `result.resize(dest - destStart); return result;`")
    stmts = parse_body(body[i + 1:j], "escapeString")
    if not stmts or stmts[0] != ("expr", ("asg", "=", ("id", "c"), ("un", "*", ("id", "i")))):
        raise Refuse("escapeString: the loop body does not start with `c = *i;`")
    c = Compiler("escapeString")
    FIND = "Generated.escapeChars.findIdx? (· == c)"

    def pure(e):
        out = []
        v = c.as_bool(c.ev(e, Env({"c": ("char", "c"), "attributeValue": ("bool", "attr")}, {}, set()), out))
        if out:
            raise Refuse("escapeString: a condition reads memory")
        return v

    def mentions(e, name):
        if e == ("id", name):
            return True
        return any(mentions(x, name) for x in e if isinstance(x, tuple)) or \
            any(mentions(y, name) for x in e if isinstance(x, list) for y in x if isinstance(y, tuple))

    def bytes_of(e, st):
        if e[0] == "tern" and e[1] == ("id", "escapeChar"):
            if st["esc"] in (None, "unknown"):
                raise Refuse("escapeString: `escapeChar ? … : …` where it is not known whether escapeChar is null")
            return bytes_of(e[2] if st["esc"] != "none" else e[3], st)
        if e[0] == "idx" and e[1] == ("id", "escapeStrings") and e[2] == ("bin", "-", ("id", "escapeChar"), ("id", "escapeChars")):
            if st["esc"] in (None, "unknown", "none"):
                raise Refuse("escapeString: escapeStrings[escapeChar - escapeChars] with a null / unknown escapeChar")
            return f"(Generated.escapeStrings.getD {st['esc']} [])"
        if e[0] == "idx" and e[1] == ("id", "lineBreakStrings"):
            return f"(Generated.lineBreakStrings.getD (if {pure(e[2])} then 1 else 0) [])"
        raise Refuse("escapeString: a String expression the translator does not know")

    def render_out(st):
        return " ++ ".join(st["out"]) if st["out"] else "[]"

    def ex(stmts, st):
        if not stmts:
            return render_out(st)
        s0, rest = stmts[0], stmts[1:]
        k = s0[0]
        if k == "block":
            return ex(s0[1] + rest, st)
        if k == "continue":
            return render_out(st)
        if k == "if":
            _, cnd, th, el = s0
            if mentions(cnd, "escapeChar"):
                dis = []

                def flat(x):
                    if x[0] == "bin" and x[1] == "||":
                        flat(x[2])
                        flat(x[3])
                    else:
                        dis.append(x)
                flat(cnd)
                if dis[0] != ("id", "escapeChar") or any(mentions(x, "escapeChar") for x in dis[1:]) or st["esc"] != "unknown":
                    raise Refuse("escapeString: a condition on escapeChar other than `escapeChar || …` right behind its definition")
                r = None
                for x in dis[1:]:
                    r = x if r is None else ("bin", "||", r, x)
                some = ex(th + rest, dict(st, esc="k", out=list(st["out"])))
                none = ex(([("if", r, th, el)] if r is not None else el) + rest, dict(st, esc="none", out=list(st["out"])))
                return f"(match {FIND} with\n  | some k => {some}\n  | none => {none})"
            t = pure(cnd)
            return (f"(if {t} then {ex(th + rest, dict(st, out=list(st['out'])))}\n   else {ex(el + rest, dict(st, out=list(st['out'])))})")
        if k == "decl":
            _, ty, name, init, dim = s0
            if name == "escapeChar" and init == ("call", ("id", "String::find"), [("id", "escapeChars"), ("id", "c")]) and st["esc"] is None:
                return ex(rest, dict(st, esc="unknown"))
            if name == "escapeString" and "String" in ty and init is not None and st["str"] is None:
                return ex(rest, dict(st, str=bytes_of(init, st)))
            if "usize" in ty and dim is None:
                return ex(rest, st)          # a size local of the buffer arithmetic: no written byte depends on it
            raise Refuse(f"escapeString: declaration of '{name}'")
        if k == "expr":
            e = s0[1]
            if e == ("call", ("mem", ("id", "result"), "resize"), [("bin", "-", ("id", "dest"), ("id", "destStart"))]):
                last = ("expr", ("asg", "=", ("id", "dest"), ("bin", "+", ("id", "destStart"),
                                                              ("call", ("mem", ("id", "result"), "length"), []))))
                if last not in rest:
                    raise Refuse("escapeString: `result.resize(dest - destStart);` without `dest = destStart + result.length();`")
                return ex(rest[rest.index(last) + 1:], st)
            if e[0] == "asg" and e[1] == "=" and e[2] == ("un", "*", ("post", "++", ("id", "dest"))):
                if e[3] == ("id", "c"):
                    return ex(rest, dict(st, out=st["out"] + ["[c]"]))
                if e[3][0] == "chr":
                    return ex(rest, dict(st, out=st["out"] + [f"[{e[3][1]}]"]))
                raise Refuse("escapeString: a byte other than c or a constant is written")
            ln = ("call", ("mem", ("id", "escapeString"), "length"), [])
            if e == ("call", ("id", "Memory::copy"), [("id", "dest"), ("cast", ["const", "char", "*"], ("id", "escapeString")),
                                                    ("bin", "*", ln, ("call", ("id", "sizeof"), [("id", "char")]))]) \
                    and rest and rest[0] == ("expr", ("asg", "+=", ("id", "dest"), ln)) and st["str"]:
                return ex(rest[1:], dict(st, out=st["out"] + [st["str"]]))
            raise Refuse("escapeString: a statement of the loop body the translator does not know")
        raise Refuse(f"escapeString: statement '{k}' in the loop body")
    return ex(stmts[1:], {"esc": None, "str": None, "out": []})


def unescape_body(src):
    """Xml::Private::unescapeString.  Source pointers are SUFFIXES of the string (`*src` = first byte, the terminator 0 behind
    the last one: `hd`; `++src` = drop 1; `String::find(src, c)` = idxOf on the suffix; `p + k` behind a find = drop); the
    String holds no NUL byte (texts are cut at the first NUL).  `*(dest++) = x` / Memory::copy + advance append to the
    output.  `str.scanf("#%u", &v) != 1` = `scanfHashU str = none` (CSem: '#' then the decimal reader `scanU` of the model),
    `Unicode::toString(v)` = the model's `utf8 v`, the loop `for(String* j = escapeStrings, * end = escapeStrings + N; j < end;
    ++j) if(str == *j) { …; goto L; }` = a first-match search in the generated table.  Returns (entry term, body term)."""
    st = parse_body(function_body(src, r"String\s+Xml::Private::unescapeString\(const String&\s*str\)", "unescapeString"), "unescapeString")
    I = lambda n: ("id", n)
    SZ = ("call", I("sizeof"), [I("char")])
    want_head = [
        ("decl", ["const", "char", "*"], "srcStart", I("str"), None),
        None,
        ("if", ("un", "!", I("src")), [("return", I("str"))], []),
        ("decl", ["String"], "result", ("ctor", [("call", ("mem", I("str"), "length"), [])]), None),
        ("decl", ["char", "*"], "destStart", I("result"), None),
        ("decl", ["usize"], "startLen", ("bin", "-", I("src"), I("srcStart")), None),
        ("expr", ("call", I("Memory::copy"), [I("destStart"), I("srcStart"), ("bin", "*", I("startLen"), SZ)])),
        ("decl", ["char", "*"], "dest", ("bin", "+", I("destStart"), I("startLen")), None)]
    if len(st) != 11 or any(w is not None and w != x for w, x in zip(want_head, st)):
        raise Refuse("unescapeString: the statements in front of the loop are not the known prologue (find the first '&', "
                     "return str if there is none, copy the bytes in front of it)")
    d1 = st[1]
    if d1[0] != "decl" or d1[2] != "src" or d1[3][0] != "call" or d1[3][1] != I("String::find") or d1[3][2][0] != I("srcStart") \
            or d1[3][2][1][0] != "chr":
        raise Refuse("unescapeString: `const char* src = String::find(srcStart, '&');` not found")
    amp = d1[3][2][1][1]
    lp = st[8]
    if lp[0] != "for" or lp[1] != ("decl", ["const", "char", "*"], "srcEnd", ("bin", "+", I("srcStart"), ("call", ("mem", I("str"), "length"), [])), None) \
            or lp[2] != ("bin", "<", I("src"), I("srcEnd")) or lp[3] is not None:
        raise Refuse("unescapeString: loop header other than `for(const char* srcEnd = srcStart + str.length(); src < srcEnd;)`")
    if st[9] != ("expr", ("call", ("mem", I("result"), "resize"), [("bin", "-", I("dest"), I("destStart"))])) or st[10] != ("return", I("result")):
        raise Refuse("unescapeString: statements behind the loop other than `result.resize(dest - destStart); return result;`")
    c = Compiler("unescapeString")
    DEREF = ("un", "*", I("src"))
    DESTPP = ("un", "*", ("post", "++", I("dest")))

    def pure(e, S):
        def sub(x):
            if x == DEREF:
                return I("h__")
            if isinstance(x, tuple):
                if x == I("src"):
                    raise Refuse("unescapeString: the pointer src itself in a condition")
                return tuple(sub(y) if isinstance(y, tuple) else y for y in x)
            return x
        out = []
        v = c.as_bool(c.ev(sub(e), Env({"h__": ("char", f"hd {S['src']}")}, {}, set()), out))
        if out:
            raise Refuse("unescapeString: a condition reads memory other than *src")
        return v

    def result(S):
        return f"({' ++ '.join(S['out']) if S['out'] else '[]'}, {S['src']})"

    def ux(stmts, S, conts):
        if not stmts:
            return ux(conts[0], S, conts[1:]) if conts else result(S)
        s0, rest = stmts[0], stmts[1:]
        k = s0[0]
        nxt = lambda S2: ux(rest, S2, conts)
        if k == "block":
            return ux(s0[1], S, [rest] + conts)
        if k == "label":
            return nxt(S)
        if k == "continue":
            return result(S)
        if k == "goto":
            lists = [rest] + conts
            for n, l in enumerate(lists):
                if ("label", s0[1]) in l:
                    return ux(l[l.index(("label", s0[1])) + 1:], S, lists[n + 1:])
            raise Refuse(f"unescapeString: goto to a label that is not ahead ('{s0[1]}')")
        if k == "if":
            _, cnd, th, el = s0
            T = lambda S2: ux(th, S2, [rest] + conts)
            E = lambda S2: ux(el, S2, [rest] + conts)
            neg = False
            while cnd[0] == "un" and cnd[1] == "!":
                cnd, neg = cnd[2], not neg
            if cnd == I("sequenceEnd"):
                if not S["seq"] or S["seq"][0] != "unknown":
                    raise Refuse("unescapeString: null test of sequenceEnd where it is not fresh")
                _, base, ch = S["seq"]
                some = dict(S, seq=("at", base, "k"), out=list(S["out"]))
                none = dict(S, seq=None, out=list(S["out"]))
                a, b = (E, T) if neg else (T, E)
                return f"(match idxOf (· == {ch}) {base} with\n  | none => {b(none)}\n  | some k => {a(some)})"
            if cnd[0] == "bin" and cnd[1] in ("!=", "==") and cnd[3] == ("num", 1) and cnd[2][0] == "call" and \
                    cnd[2][1] == ("mem", I("str"), "scanf") and len(cnd[2][2]) == 2 and cnd[2][2][0] == ("str", [35, 37, 117]) and \
                    cnd[2][2][1][0] == "un" and cnd[2][2][1][1] == "&" and cnd[2][2][1][2][0] == "id" and S["str"]:
                uv = cnd[2][2][1][2][1]
                fail_first = (cnd[1] == "!=") != neg
                ok = dict(S, uv=(uv, "v"), out=list(S["out"]))
                a, b = (E, T) if fail_first else (T, E)
                return f"(match scanfHashU {S['str']} with\n  | none => {b(dict(S, out=list(S['out'])))}\n  | some v => {a(ok)})"
            t = pure(cnd, S)
            if neg:
                t = f"!({t})"
            return f"(if {t} then {T(dict(S, out=list(S['out'])))}\n   else {E(dict(S, out=list(S['out'])))})"
        if k == "decl":
            _, ty, name, init, dim = s0
            if name == "sequenceEnd" and init and init[0] == "call" and init[1] == I("String::find") and init[2][0] == I("src") and \
                    init[2][1][0] == "chr" and init[2][1][1] != 0:
                return nxt(dict(S, seq=("unknown", S["src"], init[2][1][1])))
            if name == "str" and ty == ["String"] and init is None:
                return nxt(dict(S, strdecl=True))
            if init is None and ty in (["uint"], ["unsigned"], ["unsigned", "int"]):
                return nxt(S)
            if ty == ["String"] and init == ("call", I("Unicode::toString"), [I(S["uv"][0])] if S["uv"] else None):
                return nxt(dict(S, val=(name, f"utf8 {S['uv'][1]}")))
            raise Refuse(f"unescapeString: declaration of '{name}'")
        if k == "for":
            _, init, cnd, inc, body = s0
            N = ("bin", "/", ("call", I("sizeof"), [I("escapeStrings")]), ("call", I("sizeof"), [("un", "*", I("escapeStrings"))]))
            ok = init == ("decls", [("decl", ["String", "*"], "j", I("escapeStrings"), None),
                                    ("decl", ["String", "*"], "end", ("bin", "+", I("escapeStrings"), N), None)]) and \
                cnd == ("bin", "<", I("j"), I("end")) and inc in (("un", "++", I("j")), ("post", "++", I("j"))) and \
                len(body) == 1 and body[0][0] == "if" and body[0][1] in (("bin", "==", I("str"), ("un", "*", I("j"))),
                                                                          ("bin", "==", ("un", "*", I("j")), I("str"))) and \
                not body[0][3] and body[0][2] and body[0][2][-1][0] in ("goto", "continue") and S["str"]
            if not ok:
                raise Refuse("unescapeString: a for loop other than the search of str in escapeStrings that leaves by goto / continue")
            hit = ux(body[0][2], dict(S, j="j", out=list(S["out"])), [rest] + conts)
            miss = ux(rest, dict(S, out=list(S["out"])), conts)
            return f"(match Generated.escapeStrings.findIdx? (· == {S['str']}) with\n  | some j => {hit}\n  | none => {miss})"
        if k == "expr":
            e = s0[1]
            if e[0] == "asg" and e[1] == "=" and e[2] == DESTPP:
                r = e[3]
                if r == ("un", "*", ("post", "++", I("src"))):
                    return nxt(dict(S, out=S["out"] + [f"[hd {S['src']}]"], src=f"({S['src']}.drop 1)"))
                if r[0] == "chr":
                    return nxt(dict(S, out=S["out"] + [f"[{r[1]}]"]))
                if r == ("idx", I("escapeChars"), ("bin", "-", I("j"), I("escapeStrings"))) and S.get("j"):
                    return nxt(dict(S, out=S["out"] + ["[Generated.escapeChars.getD j 0]"]))
                raise Refuse("unescapeString: a byte the translator does not know is written")
            if e in (("un", "++", I("src")), ("post", "++", I("src"))):
                return nxt(dict(S, src=f"({S['src']}.drop 1)"))
            if e == ("call", ("mem", I("str"), "attach"), [I("src"), ("bin", "-", I("sequenceEnd"), I("src"))]) and S.get("strdecl") \
                    and S["seq"] and S["seq"][0] == "at" and S["seq"][1] == S["src"]:
                return nxt(dict(S, str=f"({S['src']}.take k)"))
            if e[0] == "asg" and e[1] == "=" and e[2] == I("src") and S["seq"] and S["seq"][0] == "at" and \
                    (e[3] == I("sequenceEnd") or (e[3][0] == "bin" and e[3][1] == "+" and e[3][2] == I("sequenceEnd") and e[3][3][0] == "num")):
                n = 0 if e[3] == I("sequenceEnd") else e[3][3][1]
                return nxt(dict(S, src=f"({S['seq'][1]}.drop (k + {n}))"))
            if S["val"] and rest:
                vn = S["val"][0]
                ln = ("call", ("mem", I(vn), "length"), [])
                if e == ("call", I("Memory::copy"), [I("dest"), ("cast", ["const", "char", "*"], I(vn)), ("bin", "*", ln, SZ)]) and \
                        rest[0] == ("expr", ("asg", "+=", I("dest"), ln)):
                    return ux(rest[1:], dict(S, out=S["out"] + [f"({S['val'][1]})"]), conts)
            raise Refuse("unescapeString: a statement of the loop body the translator does not know")
        raise Refuse(f"unescapeString: statement '{k}' in the loop body")
    body = ux(lp[4], {"src": "r", "out": [], "seq": None, "str": None, "strdecl": False, "uv": None, "val": None, "j": None}, [])
    entry = f"match idxOf (· == {amp}) s with\n  | none => none\n  | some k => some (s.take k, s.drop k)"
    return entry, body


def run(repo):
    repo = Path(repo)
    try:
        src = (repo / "src/Document/Xml.cpp").read_text()
        hpp = (repo / "include/nstd/String.hpp").read_text()
    except OSError as e:
        return False, f"cannot read sources: {e}"
    try:
        srcc = src
        HELPERS.clear()
        for m in re.finditer(r"\b(void|bool)\s+Xml::Private::(\w+)\(\)\s*\{", strip_comments(srcc)):
            HELPERS[m.group(2)] = (m.group(1), function_body(srcc, r"\b" + m.group(1) + r"\s+Xml::Private::" + m.group(2) + r"\(\)", m.group(2)))
        parts = []
        m = re.search(r"static\s+bool\s+isSpace\(char\s+(\w+)\)\s*\{(.*?)\}", hpp, re.S)
        if not m:
            raise Refuse("String::isSpace(char) not found in String.hpp")
        parts.append(f"/-- `String::isSpace` (String.hpp) -/\ndef isSpace ({m.group(1)} : UInt8) : Bool :=\n  "
                     f"{pure_bool('isSpace', m.group(2), [m.group(1)])}\n")
        ln, col = syntax_error(function_body(srcc, r"void\s+Xml::Private::syntaxError\(const Position&\s*pos,\s*const String&\s*error\)", "syntaxError"))
        parts.append("/-- `syntaxError(pos, error)`: errorLine, errorColumn -/\n"
                     f"def syntaxError {{α : Type}} (p : Pos) (m : Msg) : Res α :=\n  .err ({ln}) ({col}) m\n")
        chars, names, lbs = tables(srcc)
        if len(chars) != len(names):
            raise Refuse("escapeChars and escapeStrings differ in length")
        parts.append(f"/-- `escapeChars` -/\ndef escapeChars : Bytes := {blist(chars)}\n\n/-- `escapeStrings` -/\n"
                     f"def escapeStrings : List Bytes := [{', '.join(blist(x) for x in names)}]\n\n/-- `lineBreakStrings` -/\n"
                     f"def lineBreakStrings : List Bytes := [{', '.join(blist(x) for x in lbs)}]\n")
        parts.append("/-- escapeString: the test under which a byte is copied as it is (first `if` of the loop) -/\n"
                     f"def escapePlain (attr : Bool) (c : UInt8) : Bool :=\n  {escape_plain(srcc)}\n")
        parts.append("/-- escapeString: the bytes ONE run of the loop body appends to the output for the input byte c (the loop runs over\n"
                     "    every byte of the string in order: `for(const char* i = str, * end = i + str.length(); i < end; ++i)`) -/\n"
                     f"def escapeString_body (attr : Bool) (c : UInt8) : Bytes :=\n  {escape_body(srcc)}\n")
        uentry, ubody = unescape_body(srcc)
        parts.append("/-! ### `Xml::Private::unescapeString` -/\n\n"
                     "/-- the statements in front of the loop: `none` = `return str` (no `&`), else (bytes copied, rest of the source) -/\n"
                     f"def unescapeString_entry (s : Bytes) : Option (Bytes × Bytes) :=\n  {uentry}\n\n"
                     "/-- ONE run of the loop body on the non-empty rest `r` of the source (`src < srcEnd`): (bytes appended, new rest) -/\n"
                     f"def unescapeString_body (r : Bytes) : Bytes × Bytes :=\n  {ubody}\n")
        for fn, sig, lead in (("skipSpace", r"void\s+Xml::Private::skipSpace\(\)", None),
                              ("readToken", r"bool\s+Xml::Private::readToken\(\)", "skipSpace"),
                              ("parseText", r"bool\s+Xml::Private::parseText\(String&\s*text\)", None)):
            body = function_body(srcc, sig, fn)
            c = Compiler(fn)
            parts.append(f"/-! ### `Xml::Private::{fn}`" + (f" (behind its leading `{lead}();`)" if lead else "") + " -/\n\n" +
                         (lambda d: render(d, c.preds, c.sets))(c.function(parse_body(body, fn), lead)))
        # the loop over ONE processing instruction in front of the root: body of `while(*pos.pos == '<' && pos.pos[1] == '?')`
        # of Xml::Private::parse, without its trailing `skipSpace();`
        pb = parse_body(function_body(srcc, r"bool\s+Xml::Private::parse\(const char\*\s*data,\s*Element&\s*element\)", "parse"), "parse")
        ws = [x for x in pb if x[0] == "while"]
        want = ("bin", "&&", ("bin", "==", ("un", "*", ("mem", ("id", "pos"), "pos")), ("chr", 60)),
                ("bin", "==", ("idx", ("mem", ("id", "pos"), "pos"), ("num", 1)), ("chr", 63)))
        if len(ws) != 1 or ws[0][1] != want:
            raise Refuse("parse: the loop `while(*pos.pos == '<' && pos.pos[1] == '?')` not found")
        wb = ws[0][2]
        if not wb or wb[-1] != ("expr", ("call", ("id", "skipSpace"), [])):
            raise Refuse("parse: the processing-instruction loop does not end with skipSpace()")
        c = Compiler("parsePi")
        parts.append("/-! ### `Xml::Private::parse`: one processing instruction `<?…?>` (body of the prologue loop, without its trailing `skipSpace();`) -/\n\n" +
                     (lambda d: render(d, c.preds, c.sets))(c.function(wb[:-1])))
    except Refuse as e:
        return False, f"Xml.cpp / String.hpp outside the translated subset: {e}"
    except (IndexError, KeyError, TypeError, ValueError) as e:
        return False, f"Xml.cpp / String.hpp outside the translated subset ({type(e).__name__}: {e})"
    text = ("/- generated by tools/gen_xml.py from src/Document/Xml.cpp and include/nstd/String.hpp — do not edit -/\n"
            "import Nstd.Xml.CSem\nset_option linter.unusedVariables false\nnamespace Nstd.Xml.Generated\nopen Nstd.Xml Nstd.Xml.CSem\n\n"
            + "\n".join(parts) + "\nend Nstd.Xml.Generated\n")
    OUT.parent.mkdir(parents=True, exist_ok=True)
    if not OUT.exists() or OUT.read_text() != text:
        OUT.write_text(text)
    return True, "ok"


if __name__ == "__main__":
    import os
    ok, msg = run(sys.argv[1] if len(sys.argv) > 1 else os.environ.get("NSTD_REPO", "/repo"))
    print(msg)
    sys.exit(0 if ok else 1)
