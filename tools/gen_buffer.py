#!/usr/bin/env python3
"""Translator for the method bodies of include/nstd/Buffer.hpp (property C08).

Extracts from the CURRENT header the bodies of
    Buffer(usize)  Buffer(const byte*, usize)  ~Buffer()  attach  operator=  assign  prepend(const byte*, usize)
    append(const byte*, usize)  append(const Buffer&)  resize  removeFront  removeBack  reserve  clear  swap  free
(tokenizer + recursive-descent parser for the C++ subset these bodies are written in, with the types byte* / usize / bool /
Buffer needed to tell pointer arithmetic from integer arithmetic) and writes them, statement by statement, as Lean functions
over the checked-memory machine of lean/Nstd/Buffer/CMem.lean into lean/Nstd/Generated/BufferBody.lean.
lean/Nstd/Buffer/PropsTr.lean proves that the generated functions are the hand-written step functions of
lean/Nstd/Buffer/Model.lean on every state that represents a model state.

Anything outside the understood subset is REFUSED (exception -> the check reports a broken tie): unknown statements, loops,
unknown members / functions / casts, arithmetic between unknown types.  Formatting, comments, names of locals and parameters
do not matter.

Translation (semantics in CMem.lean):
  byte* -> C.Ptr (base, offset); usize -> Nat (no wrap-around: `a - b` with b > a is a fault); bool -> Bool
  every expression -> `Option` value (`none` = no defined value -> fault of the statement that uses it); `&&`, `||`, `?:` evaluate
      their operands lazily as C++ does
  `x = e;` `T x = e;` `x += e;` `x -= e;` `a = b = e;` -> rebinding of the Lean variable(s); `(byte*)new char[e]` -> newArr
  `delete[] (char*)p;` -> deleteArr; `Memory::copy/move(a, b, n);` -> memcopy/memmove; `*p = 0;` -> store0
  `if(c) A else B; rest` -> branch c (A; rest) (B; rest);  `return;` / `return *this;` -> the object as it stands
  `resize(e);` -> call of the generated resize;  `return append(Buffer(data, size));` -> generated constructor, generated
      append(const Buffer&), generated destructor of the temporary
  `(byte*)&_capacity` / `(byte*)&other._capacity` -> the capacity cell of the variable the object / `other` is
  constructor initialiser lists `: _capacity(e)` -> assignments in front of the body (members not mentioned start as null / 0)
"""
import re
import sys
from pathlib import Path


class Refuse(Exception):
    pass


def strip_comments(src):
    src = re.sub(r"/\*.*?\*/", " ", src, flags=re.S)
    return re.sub(r"//[^\n]*", "", src)


TOK = re.compile(r"\s*(::|->|>>|<<|==|!=|<=|>=|&&|\|\||\+=|-=|\+\+|--|[A-Za-z_]\w*|\d+|[{}()\[\];,<>=+\-*/!?:&.~|^%])")


def tokenize(text):
    toks, pos = [], 0
    text = text.rstrip()
    while pos < len(text):
        m = TOK.match(text, pos)
        if not m:
            if text[pos:].strip() == "":
                break
            raise Refuse(f"cannot tokenize at {text[pos:pos + 30]!r}")
        toks.append(m.group(1))
        pos = m.end()
    return toks


FIELDS = {"buffer": "ptr", "bufferStart": "ptr", "bufferEnd": "ptr", "_capacity": "nat"}
LEAN_KEYWORDS = {"end", "at", "from", "open", "in", "then", "else", "do", "fun", "let", "have", "show", "by", "match", "with"}


def lname(n):
    """Lean name of a C++ variable"""
    if n == "_capacity":
        return "cap"
    n = n.lstrip("_") or "v"
    return n + "_" if n in LEAN_KEYWORDS or n in ("self", "cap", "some", "none", "pure", "val", "branch", "store", "load") else n


# ---- the methods that are translated: Lean name -> (regex of the C++ signature up to the parameter list, kind) ---------------
METHODS = [
    ("ctorCap", r"explicit\s+Buffer\s*\(\s*usize\s+\w+\s*\)", "ctor"),
    ("ctorData", r"Buffer\s*\(\s*const\s+byte\s*\*\s*\w+\s*,\s*usize\s+\w+\s*\)", "ctor"),
    ("dtor", r"~\s*Buffer\s*\(\s*\)", "void"),
    ("attach", r"void\s+attach\s*\(\s*byte\s*\*\s*\w+\s*,\s*usize\s+\w+\s*\)", "void"),
    ("assignBuf", r"Buffer\s*&\s*operator\s*=\s*\(\s*const\s+Buffer\s*&\s*\w+\s*\)", "void"),
    ("assign", r"void\s+assign\s*\(\s*const\s+byte\s*\*\s*\w+\s*,\s*usize\s+\w+\s*\)", "void"),
    ("prepend", r"void\s+prepend\s*\(\s*const\s+byte\s*\*\s*\w+\s*,\s*usize\s+\w+\s*\)", "void"),
    ("resize", r"void\s+resize\s*\(\s*usize\s+\w+\s*\)", "void"),
    ("appendBuf", r"void\s+append\s*\(\s*const\s+Buffer\s*&\s*\w+\s*\)", "void"),
    ("append", r"void\s+append\s*\(\s*const\s+byte\s*\*\s*\w+\s*,\s*usize\s+\w+\s*\)", "void"),
    ("removeFront", r"void\s+removeFront\s*\(\s*usize\s+\w+\s*\)", "void"),
    ("removeBack", r"void\s+removeBack\s*\(\s*usize\s+\w+\s*\)", "void"),
    ("reserve", r"void\s+reserve\s*\(\s*usize\s+\w+\s*\)", "void"),
    ("clear", r"void\s+clear\s*\(\s*\)", "void"),
    ("swap", r"void\s+swap\s*\(\s*Buffer\s*&\s*\w+\s*\)", "void"),
    ("free", r"void\s+free\s*\(\s*\)", "void"),
]


def balanced(src, start, op="{", cl="}"):
    depth = 0
    for i in range(start, len(src)):
        if src[i] == op:
            depth += 1
        elif src[i] == cl:
            depth -= 1
            if depth == 0:
                return i + 1
    raise Refuse("unbalanced braces")


def extract(src, name, sig_rx):
    """(parameter text, initialiser-list text, body text) of the one definition whose signature matches"""
    ms = [m for m in re.finditer(sig_rx + r"\s*(const\s*)?(:[^{;]*)?\{", src)]
    if len(ms) != 1:
        raise Refuse(f"{name}: {len(ms)} definitions found, expected exactly one")
    m = ms[0]
    sig = m.group(0)
    p0 = sig.index("(", sig.index("operator") if "operator" in sig else 0)
    p1 = balanced(sig, p0, "(", ")")
    params = sig[p0 + 1:p1 - 1]
    init = m.group(2) or ""
    end = balanced(src, m.end() - 1)
    return params, init.lstrip(":"), src[m.end():end - 1]


def parse_params(name, text):
    out = []
    for part in [p.strip() for p in text.split(",") if p.strip()]:
        m = re.fullmatch(r"(const\s+)?(byte|usize|Buffer)\s*([*&]?)\s*(\w+)", part)
        if not m:
            raise Refuse(f"{name}: parameter {part!r} not understood")
        const, ty, ref, nm = m.groups()
        if ty == "usize" and not ref:
            out.append((nm, "nat"))
        elif ty == "byte" and ref == "*":
            out.append((nm, "ptr"))
        elif ty == "Buffer" and ref == "&":
            out.append((nm, "obj" if const else "objmut"))
        else:
            raise Refuse(f"{name}: parameter type of {part!r} not understood")
    return out


# ---- expressions ---------------------------------------------------------------------------------------------------------------
class P:
    def __init__(self, toks, fn, env):
        self.t, self.i, self.fn = toks, 0, fn
        self.env = dict(env)          # C++ name -> type ('ptr' | 'nat' | 'bool' | 'obj' | 'objmut')
        self.tmp = 0

    def peek(self, k=0):
        return self.t[self.i + k] if self.i + k < len(self.t) else None

    def eat(self, x=None):
        tok = self.peek()
        if tok is None or (x is not None and tok != x):
            raise Refuse(f"{self.fn}: expected {x!r}, found {tok!r} (token {self.i})")
        self.i += 1
        return tok

    def refuse(self, what):
        raise Refuse(f"{self.fn}: {what} near {' '.join(self.t[max(0, self.i - 4):self.i + 6])!r}")

    # an expression is (lean text of an Option value, type)
    def is_cast(self):
        """`( [const] usize|byte|char [*] )` at the cursor"""
        j = self.i
        if self.peek() != "(":
            return None
        j += 1
        if self.t[j] == "const":
            j += 1
        if self.t[j] not in ("usize", "byte", "char"):
            return None
        ty = self.t[j]
        j += 1
        ptr = False
        if self.t[j] == "*":
            ptr = True
            j += 1
        if self.t[j] != ")":
            return None
        if (ty == "usize") == ptr:
            self.refuse("cast not understood")
        return j + 1 - self.i, ("ptr" if ptr else "nat")

    def expr(self):
        c = self.e_or()
        if self.peek() == "?":
            self.eat("?")
            a = self.expr()
            self.eat(":")
            b = self.expr()
            a, b = self.unify(a, b)
            return (f"(tern {self.as_bool(c)} {a[0]} {b[0]})", a[1])
        return c

    def unify(self, a, b):
        if a[1] == b[1]:
            return a, b
        if a[1] == "ptr" and b == ("(some 0)", "nat"):
            return a, ("(some nullPtr)", "ptr")
        if b[1] == "ptr" and a == ("(some 0)", "nat"):
            return ("(some nullPtr)", "ptr"), b
        self.refuse(f"operands of different types {a[1]} / {b[1]}")

    def as_bool(self, e):
        if e[1] == "bool":
            return e[0]
        if e[1] == "ptr":
            return f"(truthy {e[0]})"
        self.refuse(f"a value of type {e[1]} used as a condition")

    def e_or(self):
        a = self.e_and()
        while self.peek() == "||":
            self.eat()
            b = self.e_and()
            a = (f"(bor {self.as_bool(a)} {self.as_bool(b)})", "bool")
        return a

    def e_and(self):
        a = self.e_eq()
        while self.peek() == "&&":
            self.eat()
            b = self.e_eq()
            a = (f"(band {self.as_bool(a)} {self.as_bool(b)})", "bool")
        return a

    def e_eq(self):
        a = self.e_rel()
        while self.peek() in ("==", "!="):
            op = self.eat()
            b = self.e_rel()
            a, b = self.unify(a, b)
            if a[1] not in ("ptr", "nat"):
                self.refuse("comparison of this type")
            t = f"({'peq' if a[1] == 'ptr' else 'neq'} {a[0]} {b[0]})"
            a = (t if op == "==" else f"(bnot {t})", "bool")
        return a

    def e_shift(self):
        a = self.e_add()
        while self.peek() in (">>", "<<"):
            op = self.eat()
            b = self.e_add()
            if (a[1], b[1]) != ("nat", "nat"):
                self.refuse("shift of a non-integer")
            a = (f"({'nshr' if op == '>>' else 'nshl'} {a[0]} {b[0]})", "nat")
        return a

    def e_rel(self):
        a = self.e_shift()
        while self.peek() in ("<", "<=", ">", ">="):
            op = self.eat()
            b = self.e_shift()
            a, b = self.unify(a, b)
            if a[1] not in ("ptr", "nat"):
                self.refuse("comparison of this type")
            f = {"<": "lt", "<=": "le", ">": "gt", ">=": "ge"}[op]
            a = (f"({'p' if a[1] == 'ptr' else 'n'}{f} {a[0]} {b[0]})", "bool")
        return a

    def e_mul(self):
        a = self.e_unary()
        while self.peek() in ("*", "/"):
            op = self.eat()
            b = self.e_unary()
            if (a[1], b[1]) != ("nat", "nat"):
                self.refuse("multiplication / division of a non-integer")
            a = (f"({'nmul' if op == '*' else 'ndiv'} {a[0]} {b[0]})", "nat")
        return a

    def e_add(self):
        a = self.e_mul()
        while self.peek() in ("+", "-"):
            op = self.eat()
            b = self.e_mul()
            if op == "+" and a[1] == "ptr" and b[1] == "nat":
                a = (f"(padd {a[0]} {b[0]})", "ptr")
            elif op == "+" and a[1] == "nat" and b[1] == "nat":
                a = (f"(nadd {a[0]} {b[0]})", "nat")
            elif op == "-" and a[1] == "ptr" and b[1] == "ptr":
                a = (f"(pdiff {a[0]} {b[0]})", "nat")
            elif op == "-" and a[1] == "ptr" and b[1] == "nat":
                a = (f"(psub {a[0]} {b[0]})", "ptr")
            elif op == "-" and a[1] == "nat" and b[1] == "nat":
                a = (f"(nsub {a[0]} {b[0]})", "nat")
            else:
                self.refuse(f"arithmetic {a[1]} {op} {b[1]}")
        return a

    def e_unary(self):
        if self.peek() == "!":
            self.eat()
            a = self.e_unary()
            return (f"(bnot {self.as_bool(a)})", "bool")
        c = self.is_cast()
        if c:
            n, ty = c
            # `(byte*)&_capacity`, `(byte*)&other._capacity`
            if ty == "ptr" and self.peek(n) == "&":
                self.i += n
                self.eat("&")
                nm = self.eat()
                if nm == "_capacity":
                    return ("(some (cellPtr self))", "ptr")
                if self.env.get(nm) in ("obj", "objmut") and self.peek() == "." and self.peek(1) == "_capacity":
                    self.eat("."); self.eat("_capacity")
                    return (f"(some (cellPtr {lname(nm)}Var))", "ptr")
                self.refuse("address-of")
            if self.peek(n) == "new":
                self.refuse("`new` inside an expression")
            self.i += n
            a = self.e_unary()
            if a[1] != ty:
                self.refuse(f"cast of a {a[1]} to {ty}")
            return a
        return self.e_post()

    def e_post(self):
        tok = self.peek()
        if tok == "(":
            self.eat("(")
            a = self.expr()
            self.eat(")")
            return a
        if tok is not None and tok.isdigit():
            self.eat()
            return (f"(some {tok})", "nat")
        if tok == "this" and self.peek(1) == "->":
            self.eat(); self.eat()
            tok = self.peek()
        if tok in VALUE_HELPERS and self.peek(1) == "(":
            self.eat()
            return self.inline_value(tok, None)
        if tok is not None and re.fullmatch(r"[A-Za-z_]\w*", tok):
            self.eat()
            ty = self.env.get(tok)
            if ty in ("obj", "objmut") and self.peek() == "." and self.peek(1) in VALUE_HELPERS and self.peek(2) == "(":
                self.eat(".")
                return self.inline_value(self.eat(), tok)
            if ty in ("ptr", "nat", "bool"):
                return (f"(some {lname(tok)})", ty)
            if ty in ("obj", "objmut") and self.peek() == ".":
                self.eat(".")
                f = self.eat()
                if f not in FIELDS:
                    self.refuse(f"member {f}")
                return (f"(some {lname(tok)}_{lname(f)})", FIELDS[f])
            self.refuse(f"identifier {tok!r}")
        self.refuse("expression")

    def inline_value(self, name, recv):
        """a call of a pure value-returning helper: its returned expression with the arguments substituted"""
        names, body = VALUE_HELPERS[name]
        args = split_args(self)
        if len(args) != len(names):
            self.refuse(f"number of arguments of {name}")
        q = P(substitute(body, names, args, recv), self.fn, self.env)
        a = q.expr()
        if q.peek() is not None:
            self.refuse(f"body of {name}")
        return a

    # ---- statements: `stmts(k)` = Lean lines of the statement list followed by the continuation `k` (a list of lines) ----
    def selfobj(self):
        return "⟨buffer, bufferStart, bufferEnd, cap⟩"

    def is_new(self):
        """`(byte*) new char [` at the cursor"""
        return self.t[self.i:self.i + 7] == ["(", "byte", "*", ")", "new", "char", "["]

    def lvalue(self):
        nm = self.eat()
        ty = self.env.get(nm)
        if ty in ("ptr", "nat", "bool"):
            return lname(nm), ty
        if ty == "objmut" and self.peek() == ".":
            self.eat(".")
            f = self.eat()
            if f not in FIELDS:
                self.refuse(f"member {f}")
            return f"{lname(nm)}_{lname(f)}", FIELDS[f]
        self.refuse(f"assignment to {nm!r}")

    def count_args(self):
        """number of arguments of the call `name (` at the cursor (without consuming)"""
        q = P(self.t, self.fn, self.env)
        q.i = self.i + 1
        return len(split_args(q))

    def try_lvalue(self):
        tok = self.peek()
        if tok is None or not re.fullmatch(r"[A-Za-z_]\w*", tok):
            return None
        ty = self.env.get(tok)
        if ty in ("ptr", "nat", "bool"):
            self.eat()
            return lname(tok), ty
        if ty == "objmut" and self.peek(1) == "." and self.peek(2) in FIELDS:
            self.i += 3
            return f"{lname(tok)}_{lname(self.t[self.i - 1])}", FIELDS[self.t[self.i - 1]]
        return None

    def simple(self):
        """one statement that is not a block / if / return: list of Lean lines"""
        tok = self.peek()
        # delete[] (char*)p;
        if tok == "delete":
            self.eat("delete"); self.eat("["); self.eat("]")
            a = self.e_unary()
            self.eat(";")
            if a[1] != "ptr":
                self.refuse("delete[] of a non-pointer")
            return [f"deleteArr {a[0]}"]
        # Memory::copy(a, b, n);  Memory::move(a, b, n);
        if tok == "Memory":
            self.eat(); self.eat("::")
            f = self.eat()
            if f not in ("copy", "move"):
                self.refuse(f"Memory::{f}")
            self.eat("(")
            a = self.expr(); self.eat(",")
            b = self.expr(); self.eat(",")
            n = self.expr(); self.eat(")"); self.eat(";")
            if (a[1], b[1], n[1]) != ("ptr", "ptr", "nat"):
                self.refuse("argument types of Memory::" + f)
            return [f"mem{f} {a[0]} {b[0]} {n[0]}"]
        # *p = 0;
        if tok == "*":
            self.eat("*")
            nm, ty = self.lvalue()
            self.eat("="); z = self.eat(); self.eat(";")
            if ty != "ptr" or z != "0":
                self.refuse("store through a pointer other than `*p = 0`")
            return [f"store0 (some {nm})"]
        # a statement helper with reference parameters: inlined (the references are the argument lvalues themselves)
        if tok in MACRO_HELPERS and self.peek(1) == "(" and len(MACRO_HELPERS[tok][0]) == self.count_args():
            self.eat()
            names, refs, body = MACRO_HELPERS[tok]
            args = split_args(self)
            self.eat(";")
            q = P(substitute(body, names, args, None, [not r for r in refs]), self.fn, self.env)
            lines = []
            while q.peek() is not None:
                if q.peek() in ("return", "if", "{"):
                    self.refuse(f"control flow in the inlined helper {tok}")
                lines += q.simple()
            for k_, v_ in q.env.items():
                self.env.setdefault(k_, v_)
            return lines
        # a call of another member function on this object: `resize(e);` `reserve(e);` `helper(e, ...);`
        if tok is not None and self.peek(1) == "(" and tok in CALLABLE:
            self.eat()
            lean, ptypes = CALLABLE[tok]()
            argtoks = split_args(self)
            self.eat(";")
            if len(ptypes) != len(argtoks):
                self.refuse(f"number of arguments of {tok}")
            lines, names = [], []
            for i, (toks, ty) in enumerate(zip(argtoks, ptypes)):
                q = P(toks, self.fn, self.env)
                a = q.expr()
                if q.peek() is not None or a[1] != ty:
                    self.refuse(f"argument {i + 1} of {tok}")
                lines.append(f"let a{i}_ ← val {a[0]}")
                names.append(f"a{i}_")
            return lines + [f"let o_ ← {lean} self {self.selfobj()} " + " ".join(names),
                            "let buffer := o_.buffer", "let bufferStart := o_.bufferStart", "let bufferEnd := o_.bufferEnd",
                            "let cap := o_.capacity"]
        # declaration
        if tok in ("usize", "bool", "byte", "const"):
            if tok == "const":
                self.eat()
            ty0 = self.eat()
            if ty0 == "byte":
                self.eat("*")
                if self.peek() == "const":
                    self.eat()
                ty = "ptr"
            elif ty0 == "usize":
                ty = "nat"
            elif ty0 == "bool":
                ty = "bool"
            else:
                self.refuse("declaration")
            nm = self.eat()
            if not re.fullmatch(r"[A-Za-z_]\w*", nm) or nm in self.env and self.env[nm] not in ("ptr", "nat", "bool"):
                self.refuse("declared name")
            self.eat("=")
            lines = self.rhs_into([(lname(nm), ty)])
            self.env[nm] = ty
            return lines
        # assignment (chain), +=, -=
        targets = []
        while True:
            j = self.i
            lv = self.try_lvalue()
            if lv is not None and self.peek() in ("=", "+=", "-="):
                op = self.eat()
                targets.append((lv[0], lv[1], op))
                if op == "=":
                    continue
                break
            self.i = j
            break
        if not targets:
            self.refuse("statement")
        if targets[-1][2] != "=":
            if len(targets) != 1:
                self.refuse("compound assignment in a chain")
            nm, ty, op = targets[0]
            a = self.expr()
            self.eat(";")
            if ty == "ptr" and a[1] == "nat":
                return [f"let {nm} ← val ({'padd' if op == '+=' else 'psub'} (some {nm}) {a[0]})"]
            if ty == "nat" and a[1] == "nat":
                return [f"let {nm} ← val ({'nadd' if op == '+=' else 'nsub'} (some {nm}) {a[0]})"]
            self.refuse("compound assignment types")
        tys = {t for _, t, _ in targets}
        if len(tys) != 1:
            self.refuse("chained assignment to different types")
        return self.rhs_into([(nm, ty) for nm, ty, _ in reversed(targets)])

    def rhs_into(self, targets):
        """`= rhs;` assigned to the targets (innermost first)"""
        nm0, ty = targets[0]
        if self.is_new():
            if ty != "ptr":
                self.refuse("new assigned to a non-pointer")
            self.i += 7
            n = self.expr()
            self.eat("]"); self.eat(";")
            if n[1] != "nat":
                self.refuse("array size")
            lines = [f"let {nm0} ← newArr {n[0]}"]
        else:
            a = self.expr()
            self.eat(";")
            if ty == "ptr" and a == ("(some 0)", "nat"):
                a = ("(some nullPtr)", "ptr")
            if ty == "bool" and a[1] == "ptr":
                a = (self.as_bool(a), "bool")
            if a[1] != ty:
                self.refuse(f"assignment of a {a[1]} to a {ty}")
            lines = [f"let {nm0} ← val {a[0]}"]
        prev = nm0
        for nm, _ in targets[1:]:
            lines.append(f"let {nm} := {prev}")
            prev = nm
        return lines

    def stmt_list(self, k):
        """statements up to the closing brace / end of input, then `k`"""
        if self.peek() is None or self.peek() == "}":
            return list(k)
        tok = self.peek()
        if tok == "{":
            inner = self.sub_tokens()
            env0 = dict(self.env)
            rest = self.stmt_list(k)
            return P(inner, self.fn, env0).stmt_list(rest)
        if tok == "if":
            self.eat("if"); self.eat("(")
            c = self.expr()
            self.eat(")")
            then_t = self.sub_tokens()
            else_t = None
            if self.peek() == "else":
                self.eat("else")
                else_t = self.sub_tokens()
            env0 = dict(self.env)
            rest_start = self.i

            def rest():
                r = P(self.t, self.fn, env0)
                r.i = rest_start
                lines = r.stmt_list_until_close(k)
                self.i = r.i
                return lines
            a = P(then_t, self.fn, env0).stmt_list(rest())
            b = P(else_t, self.fn, env0).stmt_list(rest()) if else_t is not None else rest()
            return [f"branch {self.as_bool(c)}", "  (do"] + ["    " + l for l in a] + ["  )", "  (do"] + ["    " + l for l in b] + ["  )"]
        if tok == "return":
            self.eat("return")
            if self.peek() == ";":
                self.eat(";")
            elif self.peek() == "*" and self.peek(1) == "this":
                self.eat(); self.eat(); self.eat(";")
            elif self.t[self.i:self.i + 4] == ["append", "(", "Buffer", "("]:
                # `return append(Buffer(data, size));`: the temporary, append(const Buffer&), the temporary's destructor
                self.i += 4
                a = self.expr(); self.eat(",")
                b = self.expr(); self.eat(")"); self.eat(")"); self.eat(";")
                if (a[1], b[1]) != ("ptr", "nat"):
                    self.refuse("arguments of the temporary Buffer")
                self.skip_dead()
                return [f"let d_ ← val {a[0]}", f"let n_ ← val {b[0]}", "let t_ ← ctorData tmpVar d_ n_",
                        f"let o_ ← appendBuf self {self.selfobj()} tmpVar t_", "let _ ← dtor tmpVar t_", "pure o_"]
            else:
                self.refuse("return with a value")
            self.skip_dead()
            return list(self.ret)
        lines = self.simple()
        return lines + self.stmt_list(k)

    def stmt_list_until_close(self, k):
        return self.stmt_list(k)

    def skip_dead(self):
        """statements after a return in the same list are unreachable: there must be none"""
        if self.peek() is not None and self.peek() != "}":
            self.refuse("unreachable statement after return")

    def find_block_end(self):
        depth, j = 1, self.i
        while j < len(self.t):
            if self.t[j] == "{":
                depth += 1
            elif self.t[j] == "}":
                depth -= 1
                if depth == 0:
                    return j
            j += 1
        self.refuse("unbalanced block")

    def sub_tokens(self):
        """the tokens of the sub-statement at the cursor (block without its braces, or a single statement incl. a nested if/else);
        consumes it"""
        if self.peek() == "{":
            self.eat("{")
            e = self.find_block_end()
            toks = self.t[self.i:e]
            self.i = e + 1
            return toks
        start = self.i
        self.skip_stmt()
        return self.t[start:self.i]

    def skip_stmt(self):
        if self.peek() == "{":
            self.eat("{")
            self.i = self.find_block_end() + 1
            return
        if self.peek() == "if":
            self.eat("if")
            self.eat("(")
            depth = 1
            while depth:
                t = self.eat()
                depth += (t == "(") - (t == ")")
            self.skip_stmt()
            if self.peek() == "else":
                self.eat("else")
                self.skip_stmt()
            return
        while self.eat() != ";":
            pass


def translate(name, kind, params_text, init_text, body_text):
    params = parse_params(name, params_text)
    env = dict(FIELDS)
    for nm, ty in params:
        if nm in env:
            raise Refuse(f"{name}: parameter {nm} shadows a member")
        env[nm] = ty
    largs = ["(self : Nat)"] + (["(o : Obj)"] if kind != "ctor" else [])
    pre = []
    if kind == "ctor":
        pre += ["let buffer := nullPtr", "let bufferStart := nullPtr", "let bufferEnd := nullPtr", "let cap := 0"]
    else:
        pre += ["let buffer := o.buffer", "let bufferStart := o.bufferStart", "let bufferEnd := o.bufferEnd", "let cap := o.capacity"]
    ret_fields = ["⟨buffer, bufferStart, bufferEnd, cap⟩"]
    for nm, ty in params:
        ln = lname(nm)
        if ty == "nat":
            largs.append(f"({ln} : Nat)")
        elif ty == "ptr":
            largs.append(f"({ln} : Ptr)")
        else:
            largs.append(f"({ln}Var : Nat) ({ln} : Obj)")
            pre += [f"let {ln}_buffer := {ln}.buffer", f"let {ln}_bufferStart := {ln}.bufferStart",
                    f"let {ln}_bufferEnd := {ln}.bufferEnd", f"let {ln}_cap := {ln}.capacity"]
            if ty == "objmut":
                ret_fields.append(f"⟨{ln}_buffer, {ln}_bufferStart, {ln}_bufferEnd, {ln}_cap⟩")
    uses_tmp = "append(Buffer(" in re.sub(r"\s+", "", body_text)
    if uses_tmp:
        largs.insert(1, "(tmpVar : Nat)")
    ret = ["pure " + (ret_fields[0] if len(ret_fields) == 1 else "(" + ", ".join(ret_fields) + ")")]
    rty = "Obj" if len(ret_fields) == 1 else "(" + " × ".join(["Obj"] * len(ret_fields)) + ")"
    P.ret = ret
    # initialiser list -> assignments
    init_lines = []
    if init_text.strip():
        for part in re.split(r",(?![^()]*\))", init_text):
            m = re.fullmatch(r"\s*(\w+)\s*\((.*)\)\s*", part, flags=re.S)
            if not m or m.group(1) not in FIELDS:
                raise Refuse(f"{name}: initialiser {part!r} not understood")
            p = P(tokenize(m.group(1) + " = " + m.group(2) + ";"), name, env)
            init_lines += p.simple()
    p = P(tokenize(body_text), name, env)
    lines = p.stmt_list(ret)
    if p.peek() is not None:
        raise Refuse(f"{name}: unexpected {p.peek()!r}")
    out = [f"@[tr_gen] def {name} {' '.join(largs)} : CM {rty} := do"]
    out += ["  " + l for l in pre + init_lines + lines]
    return "\n".join(out)


VALUE_HELPERS = {}  # C++ name -> (parameter names, tokens of the returned expression): `T name(params) [const] {return e;}`, inlined
MACRO_HELPERS = {}  # C++ name -> (parameter names, is-reference flags, body tokens): statement helpers with reference parameters, inlined


def split_args(p):
    """the token lists of the arguments of a call whose `(` is at the cursor of parser `p`; consumes through `)`"""
    p.eat("(")
    args, cur, depth = [], [], 0
    while True:
        t = p.eat()
        if t == ")" and depth == 0:
            break
        if t == "," and depth == 0:
            args.append(cur); cur = []
            continue
        depth += (t in "([") - (t in ")]")
        cur.append(t)
    if cur:
        args.append(cur)
    return args


def substitute(body, names, args, recv=None, paren=None):
    """body tokens with parameter names replaced by the argument tokens and, for a call on another object, members by `recv.member`"""
    out = []
    for i, t in enumerate(body):
        if t in names and not (i > 0 and body[i - 1] in (".", "->")):
            a = args[names.index(t)]
            out += (["("] + a + [")"]) if (paren is None or paren[names.index(t)]) else a
        elif recv and t in FIELDS and not (i > 0 and body[i - 1] in (".", "->")):
            out += [recv, ".", t]
        else:
            out.append(t)
    return out


CALLABLE = {}     # C++ name of a member function that may be called as a statement -> thunk returning (Lean name, number of parameters)


def generate(repo):
    src = strip_comments((Path(repo) / "include/nstd/Buffer.hpp").read_text())
    defs, done, busy = [], {}, set()
    known = {n: (rx, kind) for n, rx, kind in METHODS}

    def emit(name, rx, kind):
        if name in done:
            return done[name]
        if name in busy:
            raise Refuse(f"{name}: recursive call")
        busy.add(name)
        params, init, body = extract(src, name, rx)
        text = translate(name, kind, params, init, body)
        ptypes = [t for _, t in parse_params(name, params)]
        defs.append(text)
        busy.discard(name)
        done[name] = (name, ptypes)
        return done[name]

    CALLABLE.clear(); VALUE_HELPERS.clear(); MACRO_HELPERS.clear()
    for cpp in ("resize", "reserve", "removeFront", "removeBack", "clear", "free", "assign"):
        CALLABLE[cpp] = (lambda c=cpp: emit(c, *known[c]))
    PARAM = r"(?:const\s+)?(?:byte\s*\*\s*(?:const\s*)?&?|usize)\s*\w+"
    # pure value-returning helpers `T name(params) [const] {return e;}`
    for m in re.finditer(r"(?:byte\s*\*|usize|bool)\s+(\w+)\s*\(\s*((?:" + PARAM + r"\s*,?\s*)*)\)\s*(?:const\s*)?\{\s*return\s+([^;{}]*);\s*\}", src):
        names = [re.search(r"(\w+)\s*$", x).group(1) for x in m.group(2).split(",") if x.strip()]
        VALUE_HELPERS[m.group(1)] = (names, tokenize(m.group(3)))
    # statement helpers: `[static] void name(params) {…}` that are not the public methods above
    for m in re.finditer(r"(static\s+)?void\s+(\w+)\s*\(\s*((?:" + PARAM + r"\s*,?\s*)*)\)\s*\{", src):
        cpp, ptext = m.group(2), m.group(3)
        if any(re.fullmatch(rx + r"\s*\{", m.group(0).replace("static ", "")) for rx, _ in known.values()):
            continue
        parts = [x.strip() for x in ptext.split(",") if x.strip()]
        if m.group(1) or any("&" in x for x in parts):
            end = balanced(src, m.end() - 1)
            names = [re.search(r"(\w+)\s*$", x).group(1) for x in parts]
            MACRO_HELPERS[cpp] = (names, ["&" in x for x in parts], tokenize(src[m.end():end - 1]))
            continue
        if cpp in CALLABLE:
            continue
        rx = r"void\s+" + cpp + r"\s*\(\s*" + re.escape(ptext.strip()).replace(r"\ ", r"\s*") + r"\s*\)"
        CALLABLE[cpp] = (lambda c=cpp, r=rx: emit("helper_" + c, r, "void"))
    for name, rx, kind in METHODS:
        emit(name, rx, kind)
    hdr = ("/- GENERATED by tools/gen_buffer.py from include/nstd/Buffer.hpp – do not edit.  The method bodies of Buffer.hpp, statement by\n"
           "   statement, over the checked-memory machine of Nstd/Buffer/CMem.lean. -/\n"
           "import Nstd.Buffer.CMem\nnamespace Nstd.Buffer.Gen\nopen Nstd.Buffer Nstd.Buffer.C\n\n")
    return hdr + "\n\n".join(defs) + "\n\nend Nstd.Buffer.Gen\n"


def main(repo="/repo", out=None):
    text = generate(repo)
    out = Path(out or Path(__file__).resolve().parent.parent / "lean/Nstd/Generated/BufferBody.lean")
    if not out.exists() or out.read_text() != text:
        out.write_text(text)
    return out


if __name__ == "__main__":
    import os
    try:
        print(main(sys.argv[1] if len(sys.argv) > 1 else os.environ.get("NSTD_REPO", "/repo")))
    except Refuse as e:
        print("REFUSED:", e)
        sys.exit(2)
