#!/bin/sh
# seedimport.sh <round> <Cxx> ...   confirm /tmp/s<round>-Cxx-out/change_{1,2} and import them as seeded/Cxx-<n>
# (n continues after the highest existing number of that property)
rnd=$1; shift
for p in "$@"; do
  for i in 1 2; do
    src=/tmp/s$rnd-$p-out/change_$i
    [ -f $src/patch.diff ] || { echo "$p change_$i: no patch"; continue; }
    n=$(ls -d /verif/seeded/$p-* 2>/dev/null | sed 's/.*-//' | sort -n | tail -1); n=$((n+1))
    python3 /verif/tools/seedconfirm.py $src $p-$n > /tmp/seedconfirm-$p-$n.log 2>&1
    if [ -d /verif/seeded/$p-$n ]; then echo "$p change_$i -> $p-$n CONFIRMED"; else echo "$p change_$i NOT confirmed (see /tmp/seedconfirm-$p-$n.log)"; fi
  done
done
