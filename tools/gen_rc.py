#!/usr/bin/env python3
"""Translator of the Rc area (property C09): tie by translation for the acquire / release / exchange bodies.

Reads the CURRENT headers (NSTD_REPO, default /repo)
    include/nstd/String.hpp          String(), String(const char(&)[N]), String(const String&), ~String(), operator=(const String&), attach
    include/nstd/Variant.hpp         Variant(), Variant(const Variant&), ~Variant(), clear(), operator=(const Variant&)
    include/nstd/Document/Xml.hpp    Xml::Variant: the same five
    include/nstd/RefCount.hpp        Ptr(), Ptr(const Ptr&), Ptr(D*), Ptr(const Ptr<D>&), ~Ptr(), operator=(const Ptr&), operator=(C*),
                                     operator=(const Ptr<D>&), swap(Ptr&)
and writes their bodies as values of the intermediate language `Nstd.Rc.Ir.Stmt` (lean/Nstd/Rc/Ir.lean) into
lean/Nstd/Generated/RcBodies.lean.  lean/Nstd/Rc/PropsTie.lean proves that the interpretation of these values is the step
list of the corresponding call of the hand-written model, for every state.

Tokenizer + recursive-descent parser of the statement subset these bodies use:
    T* x = <ptr>;   Data x = *<ptr>;   <ptr> = <ptr>;   Atomic::increment(<ptr>->ref);
    if(<ptr>->ref && Atomic::decrement(<ptr>->ref) == 0) delete[] (char*)<ptr>;          (also `if(<ptr> && …) delete <ptr>;`,
        and a block `{ switch(<ptr>->type) { case …: (…)->~T(); break; … default: break; } delete[] (char*)<ptr>; }`)
    if(<ptr>->ref) … else …      if(<ptr>) …      if(<ptr> == &emptyData) …      if(&other != this) …
    usize capacity = …; <ptr> = (Data*)new char[…]; followed by the initialisation of the new block (must set ref = 1) and the
        Memory::copy from <src>->str
    _data.f = …; (all of ref = 0, str, len)      _data = *<ptr>;      _data = <struct local>;
    clear();  (inlined)      return *this;      constructor initialiser lists  data(<ptr>) / refObj(<ptr>) / obj(<ptr>)
<ptr> = data | this->data | refObj | this->refObj | obj | this->obj | other.data | other.refObj | other.obj | a pointer local |
        the raw pointer parameter | &emptyData | &nullData | 0 | &_data.  Comments, formatting, the names of locals and parameters,
        NSTD_VERIF_RC_YIELD hooks and `#ifdef ASSERT` blocks do not matter.  EVERYTHING else is refused (exception -> the check reports a
        broken tie).
"""
import re
import sys
from pathlib import Path

VERIF = Path(__file__).resolve().parents[1]
OUT = VERIF / "lean" / "Nstd" / "Generated" / "RcBodies.lean"


class Refuse(Exception):
    pass


def preprocess(src):
    src = re.sub(r"/\*.*?\*/", " ", src, flags=re.S)
    src = re.sub(r"//[^\n]*", "", src)
    src = re.sub(r"(?ms)^[ \t]*#\s*ifdef\s+ASSERT\b.*?^[ \t]*#\s*endif[^\n]*$", "", src)
    src = re.sub(r"NSTD_VERIF_RC_YIELD_EXPR\s*\([^()]*\)", "", src)
    src = re.sub(r"NSTD_VERIF_RC_YIELD\s*\([^()]*\)\s*;", "", src)
    return src


TOK = re.compile(r"\s*(->|==|!=|<=|>=|&&|\|\||\+\+|--|::|[A-Za-z_]\w*|0[xX][0-9a-fA-F]+|\d+|'(?:\\.|[^'\\])'|[{}()\[\];,<>=+\-*/!?:&.~|^%])")


def tokenize(text):
    toks, pos = [], 0
    text = text.rstrip()
    while pos < len(text):
        m = TOK.match(text, pos)
        if not m:
            if text[pos:].strip() == "":
                break
            raise Refuse(f"cannot tokenize at {text[pos:pos + 30]!r}")
        toks.append(m.group(1))
        pos = m.end()
    return toks


def match_close(toks, i, op, cl):
    """index of the token closing the bracket opened at toks[i]"""
    depth = 0
    for j in range(i, len(toks)):
        if toks[j] == op:
            depth += 1
        elif toks[j] == cl:
            depth -= 1
            if depth == 0:
                return j
    raise Refuse(f"unbalanced {op}")


def find_function(src, sig_rx, what):
    """(parameter name or None, initialiser tokens, body tokens) of the unique function whose signature matches"""
    mm = list(re.finditer(sig_rx, src))
    if len(mm) != 1:
        raise Refuse(f"{what}: signature found {len(mm)} times")
    m = mm[0]
    rest = src[m.end():]
    k = rest.find("{")
    if k < 0:
        raise Refuse(f"{what}: no body")
    head = rest[:k].strip()
    depth, j = 0, k
    while j < len(rest):
        if rest[j] == "{":
            depth += 1
        elif rest[j] == "}":
            depth -= 1
            if depth == 0:
                break
        j += 1
    if depth != 0:
        raise Refuse(f"{what}: unbalanced body")
    toks = tokenize(rest[k:j + 1])
    end = match_close(toks, 0, "{", "}")
    init = []
    if head:
        if not head.startswith(":"):
            raise Refuse(f"{what}: unexpected text between signature and body: {head[:40]!r}")
        init = tokenize(head[1:])
    param = m.groupdict().get("p")
    return param, init, toks[1:end]


# ---- pointer expressions ----------------------------------------------------------------------------------------------
class Fn:
    def __init__(self, cls, param, raw_param):
        self.cls = cls                  # "String" | "Variant" | "Ptr"
        self.param = param              # name of the handle parameter (`other`) or None
        self.raw = raw_param            # name of the raw pointer parameter (`obj`) or None
        self.locals = {}                # name -> (index, field)
        self.structs = {}               # name of a `Data x = *p;` local -> pointer expression
        self.nloc = 0
        self.field_name = "data" if cls != "Ptr" else "refObj"
        self.aliases = {}               # parameter of an inlined helper -> (PE, field) of its argument
        self.src = ""                   # source of the class (helpers are looked up there)
        self.depth = 0
        self.fresh = {}                 # PE of a freshly allocated block -> {"lhs": tokens, "ref1": bool, "copied": bool}
        self.content = {}               # name of a pointer to the content of a fresh Variant block -> PE of the block
        self.tparam = None              # name of a parameter that is not a handle (`const String& other` of Variant::operator=)
        self.bools = {}                 # `const bool x = <condition>;` -> condition tokens
        self.counter_local = None       # `const usize x = data->ref;` (String): usable in the guard and for capacity policy only
        self.valalias = {}              # value parameter of an inlined helper -> source PE of the copy
        self.scalars = set()


def px(fn, t):
    """tokens -> (Lean PE term, field) with field in {"ref", "obj", "raw", "none"}; None if t is not a pointer expression"""
    t = list(t)
    # strip redundant parentheses
    try:
        while len(t) >= 2 and t[0] == "(" and match_close(t, 0, "(", ")") == len(t) - 1:
            t = t[1:-1]
    except Refuse:
        return None
    if len(t) == 1:
        n = t[0]
        if n in fn.aliases:
            return fn.aliases[n]
        if n in fn.locals:
            i, f = fn.locals[n]
            return f"(.loc {i})", f
        if fn.raw is not None and n == fn.raw:
            return ".other", "raw"
        if n == fn.field_name:
            return ".self", "ref"
        if fn.cls == "Ptr" and n == "obj":
            return ".self", "obj"
        if n == "0":
            return ".static_", "none"
        return None
    if len(t) == 3 and t[0] == "this" and t[1] == "->":
        if t[2] == fn.field_name:
            return ".self", "ref"
        if fn.cls == "Ptr" and t[2] == "obj":
            return ".self", "obj"
        return None
    if len(t) == 3 and fn.param is not None and t[0] == fn.param and t[1] == ".":
        if t[2] == fn.field_name:
            return ".other", "ref"
        if fn.cls == "Ptr" and t[2] == "obj":
            return ".other", "obj"
        return None
    if len(t) == 2 and t[0] == "&":
        if t[1] in ("emptyData", "nullData") and fn.cls != "Ptr":
            return ".static_", "none"
        if t[1] == "_data" and fn.cls != "Ptr":
            return ".inline_", "none"
    return None


def need_px(fn, t, what):
    r = px(fn, t)
    if r is None:
        raise Refuse(f"{what}: not a pointer expression: {' '.join(t)}")
    return r


def seq(stmts):
    stmts = [s for s in stmts if s != ".skip"]
    stmts = [s for k, s in enumerate(stmts) if not (s == ".writeInPlace" and k > 0 and stmts[k - 1] == ".writeInPlace")]
    if not stmts:
        return ".skip"
    out = stmts[-1]
    for s in reversed(stmts[:-1]):
        out = f".seq ({s}) ({out})"
    return out


def split_top(toks, sep):
    parts, cur, depth = [], [], 0
    for t in toks:
        if t in "([{":
            depth += 1
        elif t in ")]}":
            depth -= 1
        if t == sep and depth == 0:
            parts.append(cur)
            cur = []
        else:
            cur.append(t)
    parts.append(cur)
    return parts


SCALAR_BAD = {"delete", "new", "Atomic", "ref", "clear", "this", "return", "data"}


def scalar_only(toks):
    """tokens that only compute with lengths / capacities (no handle, no counter, no call of the library)"""
    js = " " + " ".join(toks) + " "
    js = js.replace(" data -> capacity ", " CAP ").replace(" data -> len ", " LEN ")
    t = js.split()
    return not any(x in SCALAR_BAD or x == "->" for x in t)


def strip_parens(t):
    t = list(t)
    try:
        while len(t) >= 2 and t[0] == "(" and match_close(t, 0, "(", ")") == len(t) - 1:
            t = t[1:-1]
    except Refuse:
        pass
    return t


def content_of(t):
    """`(T*)(p + 1)` (any redundant parentheses) -> tokens of p, else None"""
    t = strip_parens(t)
    if len(t) < 7 or t[0] != "(":
        return None
    try:
        e = match_close(t, 0, "(", ")")
    except Refuse:
        return None
    if t[e - 1] != "*" or e + 1 >= len(t) or t[e + 1] != "(" or match_close(t, e + 1, "(", ")") != len(t) - 1:
        return None
    inner = t[e + 2:-1]
    if inner[-2:] != ["+", "1"]:
        return None
    return inner[:-2]


def content_helpers(src):
    """`static T* name(Data* p) {return (T*)(p + 1);}` -> {name: T tokens}: pure pointer arithmetic, expanded at the call"""
    out = {}
    for m in re.finditer(r"static\s+([\w<>,\s:]+?)\s*\*\s*(\w+)\s*\(\s*Data\s*\*\s*(\w+)\s*\)\s*\{\s*return\s*\(\s*([\w<>,\s:]+?)\s*\*\s*\)\s*\(\s*(\w+)\s*\+\s*1\s*\)\s*;\s*\}", src):
        if m.group(3) == m.group(5) and tokenize(m.group(1)) == tokenize(m.group(4)):
            out[m.group(2)] = tokenize(m.group(1))
    return out


def normalise(fn, toks):
    """formatting-level rewrites that do not change the meaning: `T* const x` -> `T* x`; calls of content helpers expanded;
    `if(!p) return; if(Atomic::decrement(p->ref) == 0) delete p;` -> `if(p && Atomic::decrement(p->ref) == 0) delete p;`"""
    t = []
    for k, x in enumerate(toks):
        if x == "const" and k > 0 and toks[k - 1] == "*":
            continue
        t.append(x)
    helpers = content_helpers(fn.src)
    out, k = [], 0
    while k < len(t):
        if t[k] in helpers and k + 1 < len(t) and t[k + 1] == "(":
            e = match_close(t, k + 1, "(", ")")
            out += ["(", "("] + helpers[t[k]] + ["*", ")", "("] + t[k + 2:e] + ["+", "1", ")", ")"]
            k = e + 1
        else:
            out.append(t[k])
            k += 1
    t, out, k = out, [], 0
    while k < len(t):
        if t[k:k + 3] == ["if", "(", "!"]:
            e = match_close(t, k + 1, "(", ")")
            p = t[k + 3:e]
            tail = ["return", ";", "if", "(", "Atomic", "::", "decrement", "("] + p + ["->", "ref", ")", "==", "0", ")"]
            if t[e + 1:e + 1 + len(tail)] == tail:
                out += ["if", "("] + p + ["&&", "Atomic", "::", "decrement", "("] + p + ["->", "ref", ")", "==", "0", ")"]
                k = e + 1 + len(tail)
                continue
        out.append(t[k])
        k += 1
    return out


class Parser:
    def __init__(self, fn, toks, clear_body=None, norm=True):
        self.fn, self.t, self.i, self.clear_body = fn, (normalise(fn, toks) if norm else toks), 0, clear_body

    def peek(self, k=0):
        return self.t[self.i + k] if self.i + k < len(self.t) else None

    def until_semicolon(self):
        j, depth = self.i, 0
        while j < len(self.t):
            if self.t[j] in "([{":
                depth += 1
            elif self.t[j] in ")]}":
                depth -= 1
            elif self.t[j] == ";" and depth == 0:
                s = self.t[self.i:j]
                self.i = j + 1
                return s
            j += 1
        raise Refuse("missing ;")

    def block(self):
        out = []
        while self.i < len(self.t):
            out.append(self.stmt())
        return seq(out)

    def sub(self, toks):
        p = Parser(self.fn, toks, self.clear_body, norm=False)
        return p.block()

    def one_stmt_tokens(self):
        """tokens of the next statement (a block without its braces, or one statement including its `;`)"""
        if self.peek() == "{":
            e = match_close(self.t, self.i, "{", "}")
            s = self.t[self.i + 1:e]
            self.i = e + 1
            return s
        start = self.i
        self.i = self.skip_stmt(self.i)
        return self.t[start:self.i]

    def skip_stmt(self, i):
        """index after the statement starting at token i (no side effects)"""
        t = self.t
        if i >= len(t):
            raise Refuse("statement expected")
        if t[i] == "{":
            return match_close(t, i, "{", "}") + 1
        if t[i] == "if":
            e = match_close(t, i + 1, "(", ")")
            j = self.skip_stmt(e + 1)
            if j < len(t) and t[j] == "else":
                j = self.skip_stmt(j + 1)
            return j
        depth = 0
        for j in range(i, len(t)):
            if t[j] in "([{":
                depth += 1
            elif t[j] in ")]}":
                depth -= 1
            elif t[j] == ";" and depth == 0:
                return j + 1
        raise Refuse("missing ;")

    def resolve_cond(self, c):
        """bool locals and one-line predicates of the class are replaced by their definition; `&other == this` = not notSelf"""
        fn = self.fn
        c = strip_parens(c)
        if len(c) == 1 and c[0] in fn.bools:
            c = fn.bools[c[0]]
        if len(c) >= 3 and re.fullmatch(r"[A-Za-z_]\w*", c[0]) and c[1] == "(" and c[-1] == ")" and c[0] not in ("Atomic",):
            m = re.search(r"bool\s+" + re.escape(c[0]) + r"\s*\(\s*(?:const\s+)?\w+\s+(\w+)\s*\)\s*(?:const\s*)?\{\s*return\s+([^;{}]+);\s*\}", fn.src)
            if m:
                body = tokenize(m.group(2))
                c = [y for k, x in enumerate(body)
                     for y in (c[2:-1] if (x == m.group(1) and (k == 0 or body[k - 1] not in ("->", "."))) else [x])]
        if fn.param is not None and c == ["&", fn.param, "==", "this"]:
            return ["&", fn.param, "!=", "this"], True
        return c, False

    def ends_with_return(self, toks):
        """does the statement list end with a top-level `return …;`"""
        depth, start = 0, 0
        last = None
        for j, t in enumerate(toks):
            if t in "([{":
                depth += 1
            elif t in ")]}":
                depth -= 1
                if depth == 0 and t == "}":
                    start = j + 1
            elif t == ";" and depth == 0:
                last = toks[start:j]
                start = j + 1
        return bool(last) and last[0] == "return"

    def guard(self, c):
        """the plain read of the counter that decides between the in-place path and the clone"""
        fn = self.fn
        if fn.cls == "String":
            parts = split_top(c, "&&")
            if parts[0] in (["data", "->", "ref", "==", "1"], [fn.counter_local, "==", "1"]) and len(parts) <= 2 \
                    and (len(parts) == 1 or scalar_only(parts[1])):
                return ".sole"
            return None
        if fn.cls == "Variant":
            parts = split_top(c, "||")
            ty = lambda x: len(x) == 5 and x[:4] == ["data", "->", "type", "!="]
            sh = lambda x: x == ["data", "->", "ref", ">", "1"]
            pos = split_top(c, "&&")
            if len(pos) == 2 and len(pos[0]) == 5 and pos[0][:4] == ["data", "->", "type", "=="] and pos[1] == ["data", "->", "ref", "<=", "1"]:
                return ".sole"
            if len(parts) == 2 and ty(parts[0]) and sh(parts[1]):
                return ".notSole"
            if len(parts) == 1 and ty(parts[0]):
                return ".wrongType"
            if len(parts) == 1 and sh(parts[0]):
                return ".shared"
        return None

    def release_cond(self, c):
        """`<p>->ref && Atomic::decrement(<p>->ref) == 0` / `<p> && Atomic::decrement(<p>->ref) == 0` -> p tokens or None"""
        parts = split_top(c, "&&")
        if len(parts) != 2:
            return None
        a, b = parts
        m = b[:4] == ["Atomic", "::", "decrement", "("] and b[-3:] == [")", "==", "0"]
        if not m:
            return None
        inner = b[4:-3]
        if inner[-2:] != ["->", "ref"]:
            return None
        p = inner[:-2]
        if a == p + ["->", "ref"] or (self.fn.cls == "Ptr" and a == p):
            return p
        return None

    def delete_of(self, toks, p):
        """the then-branch of a release: [destructor switch] delete[] (char*)p; / delete p;"""
        toks = list(toks)
        if toks[:1] == ["switch"]:
            if self.fn.cls != "Variant":
                raise Refuse("switch outside Variant::clear")
            e = match_close(toks, 1, "(", ")")
            if toks[2:e] != p + ["->", "type"] or toks[e + 1] != "{":
                raise Refuse("switch is not over the type of the released payload")
            e2 = match_close(toks, e + 1, "{", "}")
            body = " ".join(toks[e + 2:e2])
            # only destructor calls on the content ((T*)(p + 1))->~T(); and break
            for st in [x.strip() for x in body.split(";") if x.strip()]:
                st = re.sub(r"^(case \w+ :|default :)\s*", "", st).strip()
                if st in ("break", ""):
                    continue
                if not re.fullmatch(r"\( \( [\w<>, :]+ \* \) \( " + re.escape(" ".join(p)) + r" \+ 1 \) \) -> ~ [\w<>, :]+ \( \)", st):
                    raise Refuse(f"destructor dispatch: unexpected statement `{st}`")
            toks = toks[e2 + 1:]
        arr = ["delete", "[", "]", "(", "char", "*", ")"] + p + [";"]
        plain = ["delete"] + p + [";"]
        if toks == arr and self.fn.cls != "Ptr":
            return True
        if toks == plain and self.fn.cls == "Ptr":
            return True
        raise Refuse(f"release of {' '.join(p)}: the zero branch is not `delete` of the same block: {' '.join(toks)[:80]}")

    def stmt(self):
        fn = self.fn
        t = self.peek()
        if t == "{":
            return self.sub(self.one_stmt_tokens())
        if t == "if":
            if self.peek(1) != "(":
                raise Refuse("if without (")
            e = match_close(self.t, self.i + 1, "(", ")")
            cond = self.t[self.i + 2:e]
            self.i = e + 1
            then_t = self.one_stmt_tokens()
            else_t = None
            if self.peek() == "else":
                self.i += 1
                else_t = self.one_stmt_tokens()
            if self.ends_with_return(then_t) and self.i < len(self.t):
                # `if(c) { …; return …; } [else X] rest`  ==  `if(c) { … } else { [X] rest }`
                else_t = (else_t or []) + self.t[self.i:]
                self.i = len(self.t)
            cond, swap = self.resolve_cond(cond)
            if swap:
                then_t, else_t = (else_t or []), then_t
            p = self.release_cond(cond)
            if p is not None:
                if else_t is not None:
                    raise Refuse("release with an else branch")
                pe, f = need_px(fn, p, "release")
                if f != "ref":
                    raise Refuse("release through a pointer that is not the counted field")
                self.delete_of(then_t, p)
                return f".release {pe}"
            if cond[:1] == ["&"] and cond[2:] == ["!=", "this"] and fn.param is not None and cond[1] == fn.param:
                c = ".notSelf"
            elif cond[-2:] == ["->", "ref"] and px(fn, cond[:-2]) is not None and fn.cls != "Ptr":
                c = f".counted {px(fn, cond[:-2])[0]}"
            elif fn.cls == "Ptr" and px(fn, cond) is not None and px(fn, cond)[1] in ("ref",):
                c = f".counted {px(fn, cond)[0]}"
            elif len(cond) > 3 and cond[-3:] == ["==", "&", "emptyData"] and px(fn, cond[:-3]) is not None:
                c = f".isStatic {px(fn, cond[:-3])[0]}"
            elif cond[-3:] == ["ref", "!=", "0"] and cond[-4:-3] == ["->"] and px(fn, cond[:-4]) is not None and fn.cls != "Ptr":
                c = f".counted {px(fn, cond[:-4])[0]}"
            elif fn.cls == "String" and "==" in cond and px(fn, cond[:cond.index("==")]) is not None \
                    and px(fn, cond[cond.index("==") + 1:]) is not None \
                    and {px(fn, cond[:cond.index("==")])[1], px(fn, cond[cond.index("==") + 1:])[1]} == {"ref"}:
                c = f".samePtr {px(fn, cond[:cond.index('==')])[0]} {px(fn, cond[cond.index('==') + 1:])[0]}"
            elif self.guard(cond) is not None:
                c = self.guard(cond)
            elif scalar_only(cond):
                a = self.sub(then_t)
                b = self.sub(else_t) if else_t is not None else ".skip"
                if a != ".skip" or b != ".skip":
                    raise Refuse(f"a condition on lengths / capacities decides about handles: {' '.join(cond)}")
                return ".skip"
            else:
                raise Refuse(f"condition not understood: {' '.join(cond)}")
            a = self.sub(then_t)
            b = self.sub(else_t) if else_t is not None else ".skip"
            if a == ".skip" and b == ".skip":
                return ".skip"
            return f".ite ({c}) ({a}) ({b})"
        if t == "return":
            s = self.until_semicolon()
            if self.i < len(self.t):
                raise Refuse("statements after a return")
            if s == ["return", "*", "this"] or s == ["return"]:
                return ".skip"
            if len(s) == 3 and s[1] == "*" and s[2] in fn.content:
                return ".skip"                      # reference into the fresh block
            if len(s) > 4 and re.fullmatch(r"[A-Za-z_]\w*", s[1]) and s[2] == "(" and s[-1] == ")" and len(split_top(s[3:-1], ",")) == 2:
                return self.helper2(s[1], split_top(s[3:-1], ","))
            if fn.cls == "Variant" and s[1] == "*" and content_of(s[2:]) == ["data"]:
                return ".writeInPlace"              # mutable reference into the shared-checked payload
            raise Refuse(f"return not understood: {' '.join(s)}")
        if t in ("for", "while", "do", "switch", "goto", "try"):
            raise Refuse(f"statement `{t}` is outside the subset")
        s = self.until_semicolon()
        return self.simple(s)

    def simple(self, s):
        fn = self.fn
        if not s:
            return ".skip"
        if s == ["clear", "(", ")"]:
            if self.clear_body is None:
                raise Refuse("call of clear() where no clear body is known")
            return self.helper("clear", None)       # inlined in place (its locals are numbered with those of the caller)
        if s[:4] == ["Atomic", "::", "increment", "("] and s[-1] == ")" and s[-3:-1] == ["->", "ref"]:
            pe, f = need_px(fn, s[4:-3], "increment")
            if f != "ref":
                raise Refuse("increment through a pointer that is not the counted field")
            return f".inc {pe}"
        if (s[:1] == ["bool"] or s[:2] == ["const", "bool"]) and "=" in s:
            k = s.index("=")
            fn.bools[s[k - 1]] = s[k + 1:]
            return ".skip"
        if fn.cls == "String" and s[-4:] == ["=", "data", "->", "ref"] and (s[:1] == ["usize"] or s[:2] == ["const", "usize"]) \
                and len(s) - 4 in (2, 3) and fn.counter_local is None:
            fn.counter_local = s[-5]
            return ".skip"
        if re.fullmatch(r"[A-Za-z_]\w*", s[0]) and s[0] in fn.scalars and "=" in s and scalar_only(s):
            return ".skip"
        if len(s) > 3 and re.fullmatch(r"[A-Za-z_]\w*", s[0]) and s[1] == "(" and s[-1] == ")" and len(split_top(s[2:-1], ",")) == 2 \
                and s[0] not in ("Memory",):
            return self.helper2(s[0], split_top(s[2:-1], ","))
        # scalar locals computed without calls from lengths / capacities (`usize capacity = minCapacity | 0x3;`): no effect on
        # handles; a local that holds the COUNTER is refused (the read of the counter is the guard itself)
        if (s[:1] == ["usize"] or s[:2] == ["const", "usize"]) and "=" in s:
            k = s.index("=")
            if "(" in s[k:] or "ref" in s[k:] or not re.fullmatch(r"[A-Za-z_]\w*", s[k - 1]) or s[k - 1] == "ref":
                raise Refuse(f"scalar local not understood: {' '.join(s)}")
            fn.scalars.add(s[k - 1])
            return ".skip"
        r = self.block_stmt(s)
        if r is not None:
            return r
        if "=" in s:
            k = s.index("=")
            lhs, rhs = s[:k], s[k + 1:]
            # inline descriptor
            if lhs[:2] == ["_data", "."] and len(lhs) == 3:
                return self.inline_fields(lhs[2], rhs)
            if lhs == ["_data"]:
                if rhs[:1] == ["*"]:
                    pe, _ = need_px(fn, rhs[1:], "_data = *p")
                elif len(rhs) == 1 and rhs[0] in fn.structs:
                    pe = fn.structs[rhs[0]]
                else:
                    raise Refuse(f"_data = {' '.join(rhs)}")
                return f".copyInline {pe}"
            # declarations
            if len(lhs) >= 3 and lhs[-2] == "*" and re.fullmatch(r"[A-Za-z_]\w*", lhs[-1]) and lhs[:-2] in (["Data"], ["Object"], ["C"], ["D"]):
                name = lhs[-1]
                if rhs[:1] == ["("] and "new" in rhs:
                    pe = f"(.loc {fn.nloc})"
                    fn.locals[name] = (fn.nloc, "ref")
                    fn.nloc += 1
                    self.alloc(pe, [name], rhs)
                    return f".bind {fn.nloc - 1} .static_"
                r, f = need_px(fn, rhs, "initialiser of a pointer local")
                if f == "raw":
                    f = "ref" if lhs[:-2] == ["Object"] else "obj"
                if f == "none":
                    f = "ref"
                fn.locals[name] = (fn.nloc, f)
                fn.nloc += 1
                return f".bind {fn.nloc - 1} {r}" if f == "ref" else f".bindO {fn.nloc - 1} {r}"
            if lhs[:1] == ["Data"] and len(lhs) == 2 and rhs[:1] == ["*"]:
                pe, _ = need_px(fn, rhs[1:], "struct copy")
                fn.structs[lhs[1]] = pe
                return ".skip"
            l = px(fn, lhs)
            if l is not None and l[1] in ("ref", "obj"):
                if rhs[:1] == ["("] and "new" in rhs:
                    if l[1] != "ref":
                        raise Refuse("allocation into the uncounted field")
                    self.alloc(l[0], lhs, rhs)
                    return ".skip"
                r, f = need_px(fn, rhs, "pointer store")
                if f not in (l[1], "raw", "none"):
                    raise Refuse(f"store mixes the fields: {' '.join(s)}")
                return f".store {l[0]} {r}" if l[1] == "ref" else f".storeO {l[0]} {r}"
        if len(s) >= 4 and re.fullmatch(r"[A-Za-z_]\w*", s[0]) and s[1] == "(" and s[-1] == ")" and px(fn, s[2:-1]) is not None:
            return self.helper(s[0], px(fn, s[2:-1]))
        if len(s) == 3 and re.fullmatch(r"[A-Za-z_]\w*", s[0]) and s[1:] == ["(", ")"]:
            return self.helper(s[0], None)
        raise Refuse(f"statement not understood: {' '.join(s)}")

    def helper(self, name, arg):
        """`name(<ptr>);` -> the body of the one-pointer-parameter helper `[static] void name(Data* p)` of the same class, inlined"""
        fn = self.fn
        if fn.depth >= 2 or name in ("detach", "append", "prepend"):
            raise Refuse(f"call of {name}() is outside the subset")
        ty = "Object" if fn.cls == "Ptr" else "Data"
        if arg is None:
            rx = r"(?:inline\s+)?void\s+" + re.escape(name) + r"\s*\(\s*\)"
        else:
            rx = r"(?:static\s+)?(?:inline\s+)?void\s+" + re.escape(name) + r"\s*\(\s*" + ty + r"\s*\*\s*(?:const\s+)?(?P<p>[A-Za-z_]\w*)\s*\)"
        param, init, body = find_function(fn.src, rx, f"helper {name}()")
        if init:
            raise Refuse(f"helper {name}() has an initialiser list")
        saved = (dict(fn.aliases), fn.depth)
        fn.aliases = dict(fn.aliases)
        if arg is not None:
            fn.aliases[param] = arg
        fn.depth += 1
        try:
            return Parser(fn, body, self.clear_body).block()
        finally:
            fn.aliases, fn.depth = saved

    def value_src(self, arg):
        fn = self.fn
        if not arg:
            return ".static_"
        if len(arg) == 1 and arg[0] in fn.valalias:
            return fn.valalias[arg[0]]
        if "this" in arg or "data" in arg:
            return ".self"
        if fn.tparam is not None and arg == [fn.tparam]:
            return ".other"
        raise Refuse(f"value that is neither the own content nor the argument: {' '.join(arg)}")

    def helper2(self, name, args):
        """`name(type, value)` -> the body of `template <class T> T& name(Type t, const T& v)` inlined (v = the value copied)"""
        fn = self.fn
        if fn.depth >= 2:
            raise Refuse(f"call of {name}() is outside the subset")
        rx = r"template\s*<\s*class\s+T\s*>\s*T\s*&\s*" + re.escape(name) + r"\s*\(\s*Type\s+\w+\s*,\s*const\s+T\s*&\s*(?P<p>[A-Za-z_]\w*)\s*\)"
        param, init, body = find_function(fn.src, rx, f"helper {name}()")
        saved = (dict(fn.valalias), fn.depth)
        fn.valalias = dict(fn.valalias)
        fn.valalias[param] = self.value_src(args[1])
        fn.depth += 1
        try:
            return Parser(fn, body, self.clear_body).block()
        finally:
            fn.valalias, fn.depth = saved

    def inline_fields(self, first, rhs):
        """`_data.ref = 0; _data.str = …; _data.len = …;` in any order -> one copyInline from the arguments"""
        seen = {first: rhs}
        while self.peek() == "_data" and self.peek(1) == ".":
            s = self.until_semicolon()
            if len(s) < 5 or s[3] != "=":
                raise Refuse(f"_data field statement: {' '.join(s)}")
            seen[s[2]] = s[4:]
        if set(seen) != {"ref", "str", "len"} or seen["ref"] != ["0"]:
            raise Refuse(f"inline descriptor: fields {sorted(seen)} (ref must be set to 0)")
        return ".copyInline .other"

    def alloc(self, pe, lhs, rhs):
        """`p = (Data*)new char[…];`: p is a fresh block from here on (its initialisation and the copy into it follow)"""
        if rhs[:5] != ["(", "Data", "*", ")", "new"] or rhs[5] != "char":
            raise Refuse(f"allocation: {' '.join(rhs)[:60]}")
        self.fn.fresh[pe] = {"lhs": list(lhs), "ref1": False, "copied": False}

    def block_stmt(self, s):
        """statements on a fresh block (initialisation, the copy of the source) and in-place writes to the own payload"""
        fn = self.fn
        js = " ".join(s)
        # field stores  <p> -> f = …
        if len(s) > 3 and "=" in s and "->" in s and s.index("->") < s.index("="):
            k = s.index("->")
            r = px(fn, s[:k])
            if r is not None and s[k + 2] == "=":
                pe, f = r[0], s[k + 1]
                if pe in fn.fresh or (fn.cls == "Variant" and pe == ".self" and f in ("type", "ref") and fn.fresh):
                    if f == "ref":
                        if s[k + 3:] != ["1"]:
                            raise Refuse("fresh block: ref is not set to 1")
                        for v in ([fn.fresh[pe]] if (pe in fn.fresh and pe != ".self") else fn.fresh.values()):
                            v["ref1"] = True
                    return ".skip"
                if fn.cls == "String" and pe == ".self" and f == "len":
                    return ".writeInPlace"
                raise Refuse(f"store into a payload that is neither fresh nor guarded: {js}")
        if fn.cls == "String":
            m = re.match(r"\( \( char \* \) (.+?) -> str \) \[", js)
            if m and px(fn, m.group(1).split(" ")) is not None:
                pe = px(fn, m.group(1).split(" "))[0]
                if pe in fn.fresh:
                    return ".skip"
                if pe == ".self":
                    return ".writeInPlace"
            if js.startswith("* ( char * ) data -> str =") and ".self" not in fn.fresh:
                return ".writeInPlace"
            if s[:4] == ["Memory", "::", "copy", "("]:
                args = split_top(s[4:-1], ",")
                m = re.match(r"\( char \* \) (.+?) -> str$", " ".join(args[0]))
                if not m or px(fn, m.group(1).split(" ")) is None or px(fn, m.group(1).split(" "))[0] not in fn.fresh:
                    raise Refuse(f"Memory::copy whose target is not a fresh block: {js}")
                dst = px(fn, m.group(1).split(" "))[0]
                a = args[1]
                if a[-2:] != ["->", "str"]:
                    raise Refuse("Memory::copy source is not <ptr>->str")
                src = need_px(fn, a[:-2], "copy source")[0]
                if fn.fresh[dst]["copied"]:
                    raise Refuse("second copy into a fresh block")
                fn.fresh[dst]["copied"] = True
                return f".allocCopy {dst} {src}"
        if fn.cls == "Variant":
            # T* x = (T*)(p + 1);
            if "=" in s and s.index("=") >= 3 and s[s.index("=") - 2] == "*" and content_of(s[s.index("=") + 1:]) is not None:
                pp = px(fn, content_of(s[s.index("=") + 1:]))
                if pp is not None and pp[0] in fn.fresh:
                    fn.content[s[s.index("=") - 1]] = pp[0]
                    return ".skip"
            # new (x) T(arg);  /  new (x) T;
            if s[:2] == ["new", "("]:
                e = match_close(s, 1, "(", ")")
                where = s[2:e]
                if len(where) == 1 and where[0] in fn.content:
                    dst = fn.content[where[0]]
                elif content_of(where) is not None and px(fn, content_of(where)) is not None and px(fn, content_of(where))[0] in fn.fresh:
                    dst = px(fn, content_of(where))[0]
                else:
                    raise Refuse(f"placement new outside a fresh block: {js}")
                rest = s[e + 1:]
                arg = rest[rest.index("(") + 1:-1] if "(" in rest else []
                src = self.value_src(arg)
                if fn.fresh[dst]["copied"]:
                    raise Refuse("second construction in a fresh block")
                fn.fresh[dst]["copied"] = True
                return f".allocCopy {dst} {src}"
            # *(T*)(data + 1) = other;
            if fn.tparam is not None and s[0] == "*" and s[-2:] == ["=", fn.tparam] and content_of(s[1:-2]) == ["data"]:
                return ".writeInPlace"
        return None


def init_list(fn, toks):
    out = []
    if not toks:
        return out
    for part in split_top(toks, ","):
        if len(part) < 3 or part[1] != "(" or part[-1] != ")":
            raise Refuse(f"initialiser: {' '.join(part)}")
        name, arg = part[0], part[2:-1]
        if name == fn.field_name:
            r, f = need_px(fn, arg, "initialiser")
            if f == "obj":
                raise Refuse("counted field initialised from the uncounted one")
            out.append(f".store .self {r}")
        elif fn.cls == "Ptr" and name == "obj":
            r, f = need_px(fn, arg, "initialiser")
            if f == "ref":
                raise Refuse("obj initialised from the counted field")
            out.append(f".storeO .self {r}")
        else:
            raise Refuse(f"initialiser of unknown member {name}")
    return out


def translate(src, cls, sig_rx, what, raw=False, clear_body=None, tparam=False):
    param, init, body = find_function(src, sig_rx, what)
    fn = Fn(cls, None if (raw or tparam) else param, param if raw else None)
    fn.src = src
    fn.tparam = param if tparam else None
    try:
        pre = init_list(fn, init)
        out = seq(pre + [Parser(fn, body, clear_body).block()])
        for pe, v in fn.fresh.items():
            if not v["ref1"]:
                raise Refuse(f"fresh block {pe}: `ref = 1` missing")
            if not v["copied"]:
                raise Refuse(f"fresh block {pe}: no copy / construction of its content")
        return out
    except Refuse as e:
        raise Refuse(f"{what}: {e}")


ID = r"[A-Za-z_]\w*"


def class_region(src, rx, what):
    m = re.search(rx, src)
    if not m:
        raise Refuse(f"{what} not found")
    k = src.index("{", m.end() - 1)
    depth = 0
    for j in range(k, len(src)):
        if src[j] == "{":
            depth += 1
        elif src[j] == "}":
            depth -= 1
            if depth == 0:
                return src[k:j + 1]
    raise Refuse(f"{what}: unbalanced")


def translate_calls(src, sig_rx, what):
    """a body that only calls the translated members on `*this`, the argument and one temporary:
    `Variant tmp = other;` (copy constructor) / `x = y;` (operator=) with x, y in {*this, other, tmp}; the temporary is destroyed at the end"""
    param, init, body = find_function(src, sig_rx, what)
    if init or param is None:
        raise Refuse(f"{what}: unexpected shape")
    calls, tmp, i = [], None, 0
    stmts, cur = [], []
    for t in body:
        if t == ";":
            stmts.append(cur)
            cur = []
        else:
            cur.append(t)
    if cur:
        raise Refuse(f"{what}: missing ;")

    def obj(t):
        if t == ["*", "this"]:
            return ".this"
        if t == [param]:
            return ".arg"
        if tmp is not None and t == [tmp]:
            return ".tmp"
        raise Refuse(f"{what}: object not understood: {' '.join(t)}")
    for st in stmts:
        if len(st) >= 4 and st[0] == "Variant" and st[2] == "=" and tmp is None:
            tmp = st[1]
            src_o = ".this" if st[3:] == ["*", "this"] else ".arg" if st[3:] == [param] else None
            if src_o is None:
                raise Refuse(f"{what}: {' '.join(st)}")
            calls.append(f".copyCtor .tmp {src_o}")
        elif "=" in st:
            k = st.index("=")
            calls.append(f".assign {obj(st[:k])} {obj(st[k + 1:])}")
        else:
            raise Refuse(f"{what}: statement not understood: {' '.join(st)}")
    if tmp is not None:
        calls.append(".dtor .tmp")
    return "[" + ", ".join(calls) + "]"


def generate(repo):
    repo = Path(repo)
    defs = []
    # String
    s = preprocess((repo / "include/nstd/String.hpp").read_text())
    S = "String"
    defs += [
        ("String_default", translate(s, S, r"\bString\s*\(\s*\)\s*(?=:)", "String()")),
        ("String_literal", translate(s, S, r"template\s*<\s*usize\s+N\s*>\s*String\s*\(\s*const\s+char\s*\(\s*&\s*(?P<p>" + ID + r")\s*\)\s*\[\s*N\s*\]\s*\)", "String(const char(&)[N])", raw=True)),
        ("String_copy", translate(s, S, r"(?<![~\w])String\s*\(\s*const\s+String\s*&\s*(?P<p>" + ID + r")\s*\)", "String(const String&)")),
        ("String_dtor", translate(s, S, r"~\s*String\s*\(\s*\)", "~String()")),
        ("String_assign", translate(s, S, r"String\s*&\s*operator\s*=\s*\(\s*const\s+String\s*&\s*(?P<p>" + ID + r")\s*\)", "String::operator=")),
        ("String_attach", translate(s, S, r"void\s+attach\s*\(\s*const\s+char\s*\*\s*" + ID + r"\s*,\s*usize\s+" + ID + r"\s*\)", "String::attach")),
        ("String_clear", translate(s, S, r"void\s+clear\s*\(\s*\)", "String::clear")),
        ("String_detach", translate(s, S, r"void\s+detach\s*\(\s*usize\s+" + ID + r"\s*,\s*usize\s+" + ID + r"\s*\)", "String::detach(copyLength, minCapacity)")),
    ]
    # Variant and Xml::Variant
    for pref, path, region_rx in (("Variant", "include/nstd/Variant.hpp", r"\bclass\s+Variant\s*\{"),
                                  ("XmlVariant", "include/nstd/Document/Xml.hpp", r"\bclass\s+Variant\s*\{")):
        v = class_region(preprocess((repo / path).read_text()), region_rx, f"class Variant in {path}")
        V = "Variant"
        clear = translate(v, V, r"void\s+clear\s*\(\s*\)", f"{pref}::clear")
        defs += [
            (pref + "_default", translate(v, V, r"(?<![~\w])Variant\s*\(\s*\)\s*(?=:)", f"{pref}()")),
            (pref + "_copy", translate(v, V, r"(?<![~\w])Variant\s*\(\s*const\s+Variant\s*&\s*(?P<p>" + ID + r")\s*\)", f"{pref}(const Variant&)")),
            (pref + "_clear", clear),
            (pref + "_dtor", translate(v, V, r"~\s*Variant\s*\(\s*\)", f"~{pref}()", clear_body=clear)),
            (pref + "_assign", translate(v, V, r"Variant\s*&\s*operator\s*=\s*\(\s*const\s+Variant\s*&\s*(?P<p>" + ID + r")\s*\)", f"{pref}::operator=", clear_body=clear)),
            (pref + "_assignString", translate(v, V, r"Variant\s*&\s*operator\s*=\s*\(\s*const\s+String\s*&\s*(?P<p>" + ID + r")\s*\)", f"{pref}::operator=(const String&)", clear_body=clear, tparam=True)),
        ]
        if pref == "Variant":
            for nm, ty, acc in (("List", r"List\s*<\s*Variant\s*>", "toList"), ("Array", r"Array\s*<\s*Variant\s*>", "toArray"),
                                ("Map", r"HashMap\s*<\s*String\s*,\s*Variant\s*>", "toMap")):
                defs.append((f"Variant_assign{nm}", translate(v, V, r"Variant\s*&\s*operator\s*=\s*\(\s*const\s+" + ty + r"\s*&\s*(?P<p>" + ID + r")\s*\)",
                                                              f"Variant::operator=(const {nm}&)", clear_body=clear, tparam=True)))
                defs.append((f"Variant_{acc}", translate(v, V, r"(?<!const\s)" + ty + r"\s*&\s*" + acc + r"\s*\(\s*\)(?!\s*const)", f"Variant::{acc}()", clear_body=clear)))
            defs.append(("Variant_swap : List Call", translate_calls(v, r"void\s+swap\s*\(\s*Variant\s*&\s*(?P<p>" + ID + r")\s*\)", "Variant::swap")))
            defs.append(("Variant_toString", translate(v, V, r"(?<!const\s)String\s*&\s*toString\s*\(\s*\)(?!\s*const)", "Variant::toString()", clear_body=clear)))
        else:
            defs.append(("XmlVariant_toElement", translate(v, V, r"(?<!const\s)Element\s*&\s*toElement\s*\(\s*\)(?!\s*const)", "Xml::Variant::toElement()", clear_body=clear)))
    # RefCount::Ptr
    r = preprocess((repo / "include/nstd/RefCount.hpp").read_text())
    r = class_region(r, r"template\s*<\s*class\s+C\s*=\s*Object\s*>\s*class\s+Ptr\s*\{", "class RefCount::Ptr")
    P = "Ptr"
    TD = r"template\s*<\s*class\s+D\s*>\s*"
    defs += [
        ("Ptr_default", translate(r, P, r"(?<![~\w])Ptr\s*\(\s*\)\s*(?=:)", "Ptr()")),
        ("Ptr_copy", translate(r, P, r"(?<!>\s)(?<![~\w])Ptr\s*\(\s*const\s+Ptr\s*&\s*(?P<p>" + ID + r")\s*\)", "Ptr(const Ptr&)")),
        ("Ptr_fromRaw", translate(r, P, TD + r"Ptr\s*\(\s*D\s*\*\s*(?P<p>" + ID + r")\s*\)", "Ptr(D*)", raw=True)),
        ("Ptr_convert", translate(r, P, TD + r"Ptr\s*\(\s*const\s+Ptr\s*<\s*D\s*>\s*&\s*(?P<p>" + ID + r")\s*\)", "Ptr(const Ptr<D>&)")),
        ("Ptr_dtor", translate(r, P, r"~\s*Ptr\s*\(\s*\)", "~Ptr()")),
        ("Ptr_assign", translate(r, P, r"(?<!>\s)(?<!>)\bPtr\s*&\s*operator\s*=\s*\(\s*const\s+Ptr\s*&\s*(?P<p>" + ID + r")\s*\)", "Ptr::operator=(const Ptr&)")),
        ("Ptr_assignRaw", translate(r, P, r"Ptr\s*&\s*operator\s*=\s*\(\s*C\s*\*\s*(?P<p>" + ID + r")\s*\)", "Ptr::operator=(C*)", raw=True)),
        ("Ptr_assignConvert", translate(r, P, TD + r"Ptr\s*&\s*operator\s*=\s*\(\s*const\s+Ptr\s*<\s*D\s*>\s*&\s*(?P<p>" + ID + r")\s*\)", "Ptr::operator=(const Ptr<D>&)")),
        ("Ptr_swap", translate(r, P, r"void\s+swap\s*\(\s*Ptr\s*&\s*(?P<p>" + ID + r")\s*\)", "Ptr::swap")),
    ]
    return defs


HEADER = """/- generated by tools/gen_rc.py from include/nstd/{String,Variant,RefCount}.hpp and Document/Xml.hpp - do not edit -/
import Nstd.Rc.Ir

namespace Nstd.Generated.RcBodies
open Nstd.Rc.Ir
open Nstd.Rc.Ir.Stmt Nstd.Rc.Ir.PE Nstd.Rc.Ir.CE Nstd.Rc.Ir.Call Nstd.Rc.Ir.Obj

"""


def render(defs):
    out = [HEADER]
    for name, body in defs:
        out.append(f"def {name} :=\n  {body}\n\n" if " : " in name else f"def {name} : Stmt :=\n  {body}\n\n")
    out.append("end Nstd.Generated.RcBodies\n")
    return "".join(out)


def run(repo):
    """(ok, message); writes the file only when its content changes"""
    try:
        defs = generate(repo)
    except Refuse as e:
        return False, f"tools/gen_rc.py refuses the current code (broken tie): {e}"
    except OSError as e:
        return False, f"tools/gen_rc.py: {e}"
    text = render(defs)
    OUT.parent.mkdir(parents=True, exist_ok=True)
    if not OUT.exists() or OUT.read_text() != text:
        OUT.write_text(text)
    return True, f"{len(defs)} bodies translated (String 8, Variant 14, Xml::Variant 7, RefCount::Ptr 9)"


if __name__ == "__main__":
    import os
    ok, msg = run(sys.argv[1] if len(sys.argv) > 1 else os.environ.get("NSTD_REPO", "/repo"))
    print(msg)
    sys.exit(0 if ok else 1)
