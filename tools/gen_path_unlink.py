#!/usr/bin/env python3
"""Translator of the entry-type decision of the recursive Directory::unlink (property C19).

Reads the POSIX branch of Directory::unlink out of the CURRENT src/Directory.cpp and translates the statements of the
readdir loop that decide what happens to an entry:
    bool isDir = dent->d_type == DT_x;
    if(dent->d_type == DT_y) { struct stat buf; if(<stat|lstat>(P, &buf) == 0 && S_ISDIR(buf.st_mode)) isDir = true; }
    if(isDir && <name is "." or ".."> ) continue;
    if(isDir) { if(!unlink(P, true)) {…return false;} } else if(!File::unlink(P)) {…return false;}
(P = the one path expression `prefix + String(str, String::length(str))`) into lean/Nstd/Generated/PathUnlink.lean:
`statFollows` (does the type test follow a symbolic link: `stat` = true, `lstat` = false), `isDirDecision` (the two
assignments of isDir over the d_type tag and the answer of the stat call), `action` (skip / recurse / unlink as a file).
Nstd/Path/PropsUnlinkTie.lean proves that this is the decision of the model (`entryIsDirU`), which the never-follows-
symlinks theorems are about.  Any other shape of these statements (other calls, other order, nftw, …) is REFUSED.
"""
import re
import sys
from pathlib import Path

VERIF = Path(__file__).resolve().parents[1]
OUT = VERIF / "lean" / "Nstd" / "Generated" / "PathUnlink.lean"


class Refuse(Exception):
    pass


def strip_comments(src):
    src = re.sub(r"/\*.*?\*/", " ", src, flags=re.S)
    return re.sub(r"//[^\n]*", "", src)


TAGS = {"DT_DIR": "DType.dir", "DT_UNKNOWN": "DType.unknown", "DT_LNK": "DType.lnk", "DT_REG": "DType.reg"}


LAST_LEVEL = [""]


def analyse(repo):
    """-> (tag1, tag2, statfn) of the current text; raises Refuse"""
    src = strip_comments((Path(repo) / "src/Directory.cpp").read_text(errors="replace"))
    m = re.search(r"bool\s+Directory::unlink\s*\(\s*const\s+String&\s*dir\s*,\s*bool\s+recursive\s*\)\s*\{", src)
    if not m:
        raise Refuse("Directory::unlink(const String& dir, bool recursive) not found")
    depth, i = 0, m.end() - 1
    while i < len(src):
        if src[i] == "{":
            depth += 1
        elif src[i] == "}":
            depth -= 1
            if depth == 0:
                break
        i += 1
    body = src[m.end():i]
    # the #else branch of the outermost `#ifdef _WIN32` (conditionals nested in the Windows branch are skipped)
    depth, branch, posix_lines, seen = 0, None, [], 0
    for line in body.split("\n"):
        d = re.match(r"\s*#\s*(\w+)\s*(.*)", line)
        if d:
            kw = d.group(1)
            if kw in ("if", "ifdef", "ifndef"):
                depth += 1
                if depth == 1:
                    if kw != "ifdef" or d.group(2).strip() != "_WIN32":
                        raise Refuse("Directory::unlink: outermost conditional is not #ifdef _WIN32")
                    branch, seen = "win", seen + 1
            elif kw == "else" and depth == 1:
                branch = "posix"
            elif kw == "endif":
                if depth == 1:
                    branch = None
                depth -= 1
            elif depth == 1 and branch == "posix":
                raise Refuse("Directory::unlink: preprocessor line inside the POSIX branch")
            continue
        if branch == "posix" and depth == 1:
            posix_lines.append(line)
        elif branch is None and line.strip():
            raise Refuse("Directory::unlink: code outside the #ifdef _WIN32 / #else / #endif")
    if seen != 1 or depth != 0:
        raise Refuse("Directory::unlink: expected exactly one outermost #ifdef _WIN32 / #else / #endif")
    parts = [None, None, None, None, "\n".join(posix_lines)]
    posix = re.sub(r"\s+", " ", parts[4]).strip()
    # the path of the entry: `prefix + String(str, String::length(str))`, or a String variable that is rebuilt
    # (`v.resize(n); v.append(str, String::length(str));`) directly before it is used
    PE = r"(\w+ \+ String\(str, String::length\(str\)\)|\w+)"
    BUILD = r"(?:(\w+)\.resize\(\w+\); \w+\.append\(str, String::length\(str\)\); )?"
    FAIL = r"\{ int lastErrno = errno; closedir\(dp\); errno = lastErrno; return false; \}"
    rx = (r"const char\* const str = dent->d_name; "
          r"bool isDir = dent->d_type == (DT_\w+); "
          r"if\(dent->d_type == (DT_\w+)\) \{ struct stat buf; " + BUILD + r"if\((\w+)\(" + PE + r", &buf\) == 0 && S_ISDIR\(buf\.st_mode\)\) isDir = true; \} "
          r"if\(isDir && \*str == '\.' && \(str\[1\] == '\\0' \|\| \(str\[1\] == '\.' && str\[2\] == '\\0'\)\)\) continue; "
          + BUILD +
          r"if\(isDir\) \{ if\(!unlink\(" + PE + r", true\)\) " + FAIL + r" \} "
          r"else if\(!File::unlink\(" + PE + r"\)\) " + FAIL + r" \}")
    mm = re.search(rx, posix)
    if not mm:
        raise Refuse("Directory::unlink: the entry-type decision of the readdir loop has a shape the translator does not understand")
    tag1, tag2, b1, statfn, p1, b2, p2, p3 = mm.groups()
    if not (p1 == p2 == p3):
        raise Refuse(f"Directory::unlink: the type test and the removal use different paths ({p1} / {p2} / {p3})")
    if re.fullmatch(r"\w+", p1):
        if b1 != p1 or b2 != p1:
            raise Refuse(f"Directory::unlink: the path variable {p1} is not rebuilt directly before its use")
    elif b1 or b2:
        raise Refuse("Directory::unlink: path buffer rebuilt but not used")
    if tag1 not in TAGS or tag2 not in TAGS:
        raise Refuse(f"Directory::unlink: unknown d_type tag {tag1} / {tag2}")
    if statfn not in ("stat", "lstat"):
        raise Refuse(f"Directory::unlink: type test through {statfn}()")
    if "nftw" in posix or "ftw(" in posix:
        raise Refuse("Directory::unlink: file tree walk call")
    return tag1, tag2, statfn


def generate(repo, out_path=OUT):
    """writes Generated/PathUnlink.lean: the decision of the CURRENT text when the translator understands its shape
    (`decision_isCurrent := true`; the proofs of PropsUnlinkTie.lean then hold or break with it), else the decision the
    proofs were written for with `decision_isCurrent := false` (LAST_LEVEL says why; the current text is then tied by the
    correspondence run only)"""
    try:
        tag1, tag2, statfn = analyse(repo)
        current, why = True, ""
    except Refuse as e:
        tag1, tag2, statfn, current, why = "DT_DIR", "DT_UNKNOWN", "lstat", False, str(e)
    LAST_LEVEL[0] = "proved" if current else f"correspondence run only (translator refuses the current text: {why})"
    text = f"""/- generated by tools/gen_path_unlink.py from src/Directory.cpp (POSIX branch of Directory::unlink) - do not edit -/
namespace Nstd.Generated.PathUnlink

/-- `d_type` of a directory entry -/
inductive DType where
  | dir | unknown | lnk | reg
  deriving DecidableEq, Repr

inductive Action where
  | skip | recurse | unlinkFile
  deriving DecidableEq, Repr

/-- the type test of an entry goes through `{statfn}`: does it follow a symbolic link? -/
def statFollows : Bool := {"true" if statfn == "stat" else "false"}

/-- `bool isDir = dent->d_type == {tag1}; if(dent->d_type == {tag2}) {{ if({statfn}(path) == 0 && S_ISDIR) isDir = true; }}` -/
def isDirDecision (t : DType) (statSaysDir : Bool) : Bool :=
  let isDir := decide (t = {TAGS[tag1]})
  let isDir := if t = {TAGS[tag2]} then (if statSaysDir then true else isDir) else isDir
  isDir

/-- `if(isDir && name is "." or "..") continue; if(isDir) unlink(path, true) else File::unlink(path)` -/
def action (isDir : Bool) (name : List Nat) : Action :=
  if isDir && (decide (name = [46]) || decide (name = [46, 46])) then Action.skip
  else if isDir then Action.recurse
  else Action.unlinkFile

/-- is the decision above the one of the current src/Directory.cpp (false: the translator did not understand the current
    text; the proved decision stands here and the current text is tied by the correspondence run only) -/
def decision_isCurrent : Bool := {"true" if current else "false"}

end Nstd.Generated.PathUnlink
"""
    out_path = Path(out_path)
    out_path.parent.mkdir(parents=True, exist_ok=True)
    if not out_path.exists() or out_path.read_text() != text:
        out_path.write_text(text)
    if not current:
        return f"Directory::unlink entry decision: REFUSED ({why}) [the proved decision stands in]"
    return f"Directory::unlink entry decision: isDir = d_type == {tag1}; {tag2} -> {statfn}; skip ./..; recurse / File::unlink"


if __name__ == "__main__":
    repo = sys.argv[1] if len(sys.argv) > 1 else "/repo"
    try:
        print(generate(repo, sys.argv[2] if len(sys.argv) > 2 else OUT))
    except Refuse as e:
        print("REFUSED:", e)
        sys.exit(1)
