#!/usr/bin/env python3
"""Translator of the Codec area (property C18).

Regenerates `lean/Nstd/Generated/CodecTables.lean` from the CURRENT sources of the repo
(`NSTD_REPO`, default /repo): everything in the anchored code that is a table, a constant
or a side-effect-free expression:

  src/String.cpp       fromBase64: decode table `base64de`, the length mask, the guard
                       `if (<operand> > '<c>')` with the signedness of its operand, the
                       index expression of the table read, the invalid marker and the pad
                       character;  fromHex: the alphabet and both index expressions
  include/nstd/Unicode.hpp   `utf8Offsets`, `length(char)` (256 values by EXECUTING harness/codec_probe.cpp
                       built from the current sources), the range tests and byte expressions of the
                       UTF-8 branch of `append(uint32, String&)`, the first-byte test of `fromString`
  include/nstd/String.hpp + src/String.cpp   `String::isSpace(char)`, `toLowerCase(char)`, `toUpperCase(char)`
                       (= the case maps): 256 values each, by executing the same probe (which links
                       String.cpp and Memory.cpp of the current sources)

The theorems of Nstd/Codec are stated over these generated definitions, so they are
re-checked against what the code says now.  Anything that cannot be found is a broken tie
(the function returns (False, reason)).  The file is rewritten only when its content changes.
"""
import os
import re
import sys
from pathlib import Path

VERIF = Path(__file__).resolve().parents[1]
OUT = VERIF / "lean" / "Nstd" / "Generated" / "CodecTables.lean"

U64 = 18446744073709551615


class TranslateError(Exception):
    pass


def strip_comments(src):
    src = re.sub(r"/\*.*?\*/", " ", src, flags=re.S)
    src = re.sub(r"//[^\n]*", "", src)
    return src


def need(m, what):
    if not m:
        raise TranslateError("cannot find " + what)
    return m


def function_body(src, header_rx, what):
    """text between the braces of the first function whose header matches"""
    m = need(re.search(header_rx, src), what)
    i = src.index("{", m.end() - 1)
    depth, j = 0, i
    while j < len(src):
        if src[j] == "{":
            depth += 1
        elif src[j] == "}":
            depth -= 1
            if depth == 0:
                return src[i + 1:j]
        j += 1
    raise TranslateError("unbalanced braces in " + what)


# ---- C expression -> Lean (Nat) -------------------------------------------------------------------
def cexpr(e, var_map):
    """Translate a side-effect-free C expression over unsigned operands into a Lean `Nat`
    expression.  Supported: identifiers in var_map, integer / character literals (suffixes
    U, L, UL, ULL), ( ), >> << & | ~ + -, and the value-preserving casts (uint32), (tchar) is
    refused, (char) handled by the caller.  `~x` is the 64-bit complement (operands are
    `unsigned long` after the usual arithmetic conversions on LP64): 2^64-1 - x."""
    toks = re.findall(r"0[xX][0-9a-fA-F]+[uUlL]*|\d+[uUlL]*|'(?:\\.|[^'])'|[A-Za-z_]\w*|>>|<<|[()~&|+\-*]", e)
    if "".join(toks).replace(" ", "") != re.sub(r"\s+", "", e):
        raise TranslateError(f"untranslatable expression: {e!r}")
    pos = [0]

    def peek():
        return toks[pos[0]] if pos[0] < len(toks) else None

    def eat(t=None):
        if pos[0] >= len(toks):
            raise TranslateError(f"unexpected end of expression: {e!r}")
        x = toks[pos[0]]
        if t is not None and x != t:
            raise TranslateError(f"expected {t} got {x} in {e!r}")
        pos[0] += 1
        return x

    def lit(t):
        if t.startswith("'"):
            body = t[1:-1]
            esc = {"\\0": 0, "\\n": 10, "\\t": 9, "\\r": 13, "\\\\": 92, "\\'": 39}
            return str(esc[body] if body in esc else ord(body))
        t = re.sub(r"[uUlL]+$", "", t)
        return str(int(t, 16)) if t.lower().startswith("0x") else str(int(t, 10))

    def prim():
        t = eat()
        if t == "(":
            # cast?
            if peek() in ("uint32", "uint", "usize", "uint64") and toks[pos[0] + 1] == ")":
                eat(); eat(")")
                return unary()
            r = bor()
            eat(")")
            return "(" + r + ")"
        if re.match(r"\d|'", t):
            return lit(t)
        if t in var_map:
            return var_map[t]
        raise TranslateError(f"unknown identifier {t} in {e!r}")

    def unary():
        if peek() == "~":
            eat()
            return f"({U64} - {unary()})"
        if peek() == "*":           # `*src`
            eat()
            t = eat()
            if ("*" + t) in var_map:
                return var_map["*" + t]
            raise TranslateError(f"unknown dereference *{t} in {e!r}")
        return prim()

    def add():
        l = unary()
        while peek() in ("+", "-"):
            o = eat()
            l = f"({l} {o} {unary()})"
        return l

    def shift():
        l = add()
        while peek() in (">>", "<<"):
            o = eat()
            r = add()
            if re.fullmatch(r"\(*0\)*", r):
                continue                                      # `x >> 0` / `x << 0`: x (a helper called with shift 0)
            l = f"({l} {'>>>' if o == '>>' else '<<<'} {r})"
        return l

    def band():
        l = shift()
        while peek() == "&":
            eat()
            l = f"({l} &&& {shift()})"
        return l

    def bor():
        l = band()
        while peek() == "|":
            eat()
            r = band()
            if re.fullmatch(r"\(*\d+\)*", l) and not re.fullmatch(r"\(*\d+\)*", r):
                l, r = r, l                                   # `literal | x`: printed as `x | literal` (| commutes)
            l = f"({l} ||| {r})"
        return l

    r = bor()
    if pos[0] != len(toks):
        raise TranslateError(f"trailing tokens in {e!r}")
    return r


def char_operand(expr, what):
    """`in[i]` read through `const char*` is a SIGNED char on this target; with the cast
    `(unsigned char)` it is the byte value.  Returns the Lean Int expression over byte `b`."""
    e = re.sub(r"\s+", "", expr)
    if e in ("(unsignedchar)in[i]", "(uchar)in[i]", "(byte)in[i]"):
        return "(b : Int)", "unsigned"
    if e == "in[i]":
        return "(if b < 128 then (b : Int) else (b : Int) - 256)", "signed"
    raise TranslateError(f"{what}: unexpected operand {expr!r}")



def reserve_expr(e):
    """`E` of result.reserve(E): integer arithmetic over `inlen` (+ - * / and literals)"""
    toks = re.findall(r"0[xX][0-9a-fA-F]+[uUlL]*|\d+[uUlL]*|[A-Za-z_]\w*|[()+\-*/]", e)
    if "".join(toks) != re.sub(r"\s+", "", e):
        raise TranslateError(f"fromBase64 reserve: untranslatable expression {e!r}")
    res = []
    for t in toks:
        if re.match(r"\d", t):
            t = re.sub(r"[uUlL]+$", "", t)
            res.append(str(int(t, 0)))
        elif t == "inlen" or t in "()+-*/":
            res.append(t)
        else:
            raise TranslateError(f"fromBase64 reserve: unknown identifier {t} in {e!r}")
    return " ".join(res)


def split_statements(text):
    """statements of a block: ('if', cond, [stmts]) | ('simple', text)"""
    pos = [0]
    n = len(text)

    def ws():
        while pos[0] < n and text[pos[0]].isspace():
            pos[0] += 1

    def balanced(open_, close):
        depth, i = 0, pos[0]
        while i < n:
            if text[i] == open_:
                depth += 1
            elif text[i] == close:
                depth -= 1
                if depth == 0:
                    r = text[pos[0] + 1:i]
                    pos[0] = i + 1
                    return r
            i += 1
        raise TranslateError("fromBase64 loop: unbalanced brackets")

    def stmt():
        ws()
        if text.startswith("{", pos[0]):
            inner = balanced("{", "}")
            return ("block", split_statements(inner))
        m = re.match(r"if\s*\(", text[pos[0]:])
        if m:
            pos[0] += m.end() - 1
            cond = balanced("(", ")")
            body = stmt()
            ws()
            if re.match(r"else\b", text[pos[0]:]):
                raise TranslateError("fromBase64 loop: `else` in the per-byte tests is not translated")
            return ("if", cond.strip(), body[1] if body[0] == "block" else [body])
        k = text.find(";", pos[0])
        if k < 0:
            raise TranslateError(f"fromBase64 loop: statement without `;` near {text[pos[0]:pos[0] + 30]!r}")
        r = text[pos[0]:k].strip()
        pos[0] = k + 1
        return ("simple", r)

    res = []
    while True:
        ws()
        if pos[0] >= n:
            return res
        res.append(stmt())


def b64_preamble(pre, iv):
    """Lean text of `b64Byte`: the statements between the loop head and the switch, interpreted in order.
    Byte operands: `in[i]` (signed char), `(unsigned char)in[i]` (byte value) or a local bound to one of them."""
    byte_rx = r"(?:\(\s*(?:unsigned\s+char|uchar|byte)\s*\)\s*)?in\s*\[\s*" + iv + r"\s*\]"
    env = {}

    def operand(e, what):
        e = e.strip()
        if e in env:
            return env[e]
        if re.fullmatch(byte_rx, e):
            unsigned = e.replace(" ", "").startswith("(")
            return "(b : Int)" if unsigned else "(if b < 128 then (b : Int) else (b : Int) - 256)"
        raise TranslateError(f"fromBase64 {what}: unexpected operand {e!r}")

    def cond(c):
        m = need(re.fullmatch(r"(.+?)\s*(==|!=|>=|<=|>|<)\s*('(?:\\\\.|[^'])'|0[xX][0-9a-fA-F]+|\d+)", c.strip(), re.S), f"fromBase64 per-byte test {c!r}")
        rel = {"==": "=", "!=": "≠", ">=": "≥", "<=": "≤", ">": ">", "<": "<"}[m.group(2)]
        o = operand(m.group(1), 'test')
        um = re.fullmatch(r"\((\w+) : Int\)", o)
        if um:                                    # an unsigned operand (byte value / table value): compared as a Nat
            return f"decide ({um.group(1)} {rel} {cexpr(m.group(3), {})})"
        return f"decide ({o} {rel} ({cexpr(m.group(3), {})} : Int))"

    def seq(stmts, k, ind):
        """Lean term for the statement list followed by continuation text k (None = falls out of the preamble)"""
        if not stmts:
            return k
        st, rest = stmts[0], stmts[1:]
        pad = "  " * ind
        if st[0] == "block":
            return seq(list(st[1]) + rest, k, ind)
        if st[0] == "if":
            thn = seq(list(st[2]), seq(rest, k, ind + 1), ind + 1)
            els = seq(rest, k, ind + 1)
            return f"if {cond(st[1])} then\n{pad}  {thn}\n{pad}else\n{pad}  {els}"
        t = st[1]
        if t == "break":
            return ".ok .stop"
        if re.fullmatch(r"return\s+String\s*\(\s*\)", t):
            return ".ok .reject"
        m = re.fullmatch(r"(?:const\s+)?(?:unsigned\s+char|uchar|char|byte)\s+(\w+)\s*=\s*(.+)", t, re.S)
        tr = re.fullmatch(r"(?:(?:const\s+)?(?:unsigned\s+char|uchar|byte)\s+)?(\w+)\s*=\s*base64de\s*\[(.+)\]", t, re.S)
        if tr:
            name = tr.group(1)
            idx = operand(tr.group(2), "table index")
            env[name] = f"({name} : Int)"
            inner = seq(rest, k, ind + 1)
            return f"(rdTable base64de {idx}).bind fun {name} =>\n{pad}  {inner}"
        if m:
            name, e = m.group(1), m.group(2)
            if re.match(r"unsigned|uchar|byte", t.replace("const", "").strip()):
                # an unsigned local holds the byte value whatever the signedness of the initialiser
                operand(e, "local")
                env[name] = "(b : Int)"
            else:
                env[name] = operand(e, "local")
            return seq(rest, k, ind)
        raise TranslateError(f"fromBase64 loop: statement {t!r} in front of the switch is not translated")

    stmts = split_statements(pre)
    # the symbol value handed to the switch must be the table value `c`
    if not re.search(r"\bc\s*=\s*base64de\s*\[", pre):
        raise TranslateError("fromBase64 loop: no table read `c = base64de[..]` in front of the switch")
    return "  " + seq(stmts, ".ok (.val c)", 1)


def one_line_helpers(src, exclude=()):
    """`static T name(params) {return EXPR;}` one-liners of a header: name -> (parameter names, EXPR)"""
    hs = {}
    for m in re.finditer(r"static\s+[\w\s]+?\b(\w+)\s*\(([^()]*)\)\s*\{\s*return\s+([^;{}]*);\s*\}", strip_comments(src)):
        name, params, expr = m.group(1), m.group(2), m.group(3)
        if name in exclude:
            continue
        pn = [x.strip().split()[-1].lstrip("*&") for x in params.split(",") if x.strip()]
        hs[name] = (pn, expr.strip())
    return hs


def inline_helper_calls(text, helpers):
    """replace calls `name(a, b, ..)` (arguments without nested commas) of one-line helpers by their parenthesised body"""
    for _ in range(4):
        changed = False
        for name, (pn, expr) in helpers.items():
            def rep(m):
                args = [a.strip() for a in m.group(1).split(",")]
                if len(args) != len(pn):
                    raise TranslateError(f"helper {name}: {len(args)} arguments for {len(pn)} parameters")
                e = expr
                for p_, a in zip(pn, args):
                    e = re.sub(r"\b" + re.escape(p_) + r"\b", "\x00" + a + "\x01", e)
                return "(" + e.replace("\x00", "(").replace("\x01", ")") + ")"
            new = re.sub(r"\b" + re.escape(name) + r"\s*\(([^()]*)\)", rep, text)
            if new != text:
                text, changed = new, True
        if not changed:
            break
    return text


def strip_char_casts(a):
    """`((char)(uchar)(E))` -> `E`: conversions to a character type are the `% 256` the caller appends"""
    while True:
        a = a.strip()
        if a.startswith("("):
            depth = 0
            for k, c in enumerate(a):
                depth += c == "("
                depth -= c == ")"
                if depth == 0:
                    break
            if k == len(a) - 1 and not re.match(r"\(\s*(?:char|uchar|byte|unsigned\s+char)\s*\)$", a):
                a = a[1:-1]
                continue
        m = re.match(r"\(\s*(?:char|uchar|byte|unsigned\s+char)\s*\)\s*", a)
        if m and len(a) > m.end():
            a = a[m.end():]
            continue
        return a


# ---- String.cpp -------------------------------------------------------------------------------------
def translate_string(repo, out):
    src = (repo / "src" / "String.cpp").read_text(errors="replace")
    body = function_body(src, r"String\s+String::fromBase64\s*\([^)]*\)\s*\{", "String::fromBase64")
    tbl = need(re.search(r"base64de\s*\[\s*\]\s*=\s*\{(.*?)\}\s*;", body, re.S), "base64de table").group(1)
    vals = [int(x) for x in re.findall(r"\b\d+\b", strip_comments(tbl))]
    if not vals:
        raise TranslateError("base64de table is empty")
    code = strip_comments(body)
    out.append("/-! src/String.cpp : String::fromBase64 -/\n")
    out.append(f"/-- `base64de[]` ({len(vals)} entries) -/\ndef base64de : List Nat :=\n  {vals}\n")

    # length test: `if (inlen & M) return String();`  or  `if (inlen % K) ...` / `if (inlen % K != 0) ...`
    lt = need(re.search(r"if\s*\(\s*\(?\s*inlen\s*(&|%)\s*(0x[0-9a-fA-F]+|\d+)\s*\)?\s*(?:!=\s*0\s*)?\)\s*return\s+String\(\)", code),
              "fromBase64 length test `if (inlen & m) return String()`")
    lop = "&&&" if lt.group(1) == "&" else "%"
    out.append(f"/-- `if (inlen {lt.group(1)} {lt.group(2)}) return String();` -/\n"
               f"def b64LenRejects (inlen : Nat) : Bool := decide (inlen {lop} {cexpr(lt.group(2), {})} ≠ 0)\n")

    # capacity request for the result: `result.reserve(E)` with E over inlen / data.length()
    rv = need(re.search(r"result\s*\.\s*reserve\s*\(((?:[^()]|\([^()]*\))*)\)\s*;", code), "fromBase64 `result.reserve(E)`").group(1)
    rv = re.sub(r"data\s*\.\s*length\s*\(\s*\)", "inlen", rv)
    out.append(f"/-- `result.reserve(E)`: number of bytes the output buffer is guaranteed to hold -/\n"
               f"def b64Reserve (inlen : Nat) : Nat := {reserve_expr(rv)}\n")

    # the loop: index variable, preamble (per-byte tests in SOURCE ORDER), switch
    fo = need(re.search(r"for\s*\(([^;]*);\s*(\w+)\s*<\s*inlen\s*;\s*\+\+\s*(\w+)\s*\)\s*\{", code), "fromBase64 loop `for (..; i < inlen; ++i)`")
    iv = fo.group(2)
    if fo.group(3) != iv:
        raise TranslateError("fromBase64 loop: compared and incremented variables differ")
    swm = need(re.search(r"switch\s*\(\s*" + iv + r"\s*&\s*(0x[0-9a-fA-F]+|\d+)\s*\)\s*\{(.*?)\}\s*\}", code[fo.end():], re.S),
               f"fromBase64 `switch ({iv} & m)`")
    pre = code[fo.end():fo.end() + swm.start()]
    out.append("/-- the per-byte tests in front of the switch, in source order: `break` = stop, `return String()` = reject,\n"
               "    reaching the switch = val c; the table read is a checked read with the C index (an `Int`) -/\n"
               "def b64Byte (b : Nat) : Res B64Sym :=\n" + b64_preamble(pre, iv) + "\n")

    out.append(f"/-- selector of `switch ({iv} & m)` -/\ndef b64Phase (i : Nat) : Nat := i &&& {cexpr(swm.group(1), {})}\n")
    cases = re.findall(r"case\s+(\d+)\s*:(.*?)break\s*;", swm.group(2), re.S)
    shape = {"0": ["set"], "1": ["or++", "set"], "2": ["or++", "set"], "3": ["or++"]}
    if [c for c, _ in cases] != ["0", "1", "2", "3"]:
        raise TranslateError(f"fromBase64 switch: expected cases 0,1,2,3, found {[c for c, _ in cases]}")
    jv = None
    for c, cbody in cases:
        stmts = [x.strip() for x in cbody.split(";") if x.strip()]
        got = []
        for st in stmts:
            m1 = re.match(r"out\s*\[\s*(\w+)\s*\]\s*=\s*(.*)$", st, re.S)
            m2 = re.match(r"out\s*\[\s*(\w+)\s*\+\+\s*\]\s*\|=\s*(.*)$", st, re.S)
            m = m1 or m2
            if not m:
                raise TranslateError(f"fromBase64 switch case {c}: unexpected statement {st!r}")
            if jv is None:
                jv = m.group(1)
            if m.group(1) != jv:
                raise TranslateError(f"fromBase64 switch: two different output indices {jv}, {m.group(1)}")
            got.append(("set" if m1 else "or++", m.group(2)))
        if [k for k, _ in got] != shape[c]:
            raise TranslateError(f"fromBase64 switch case {c}: expected statements {shape[c]}, found {[k for k, _ in got]}")
        for k, e in got:
            name = f"b64Or{c}" if k == "or++" else f"b64Set{c}"
            what = f"`out[j++] |= E;` of case {c}" if k == "or++" else f"`out[j] = E;` of case {c}"
            out.append(f"/-- {what}, for the symbol value `c` -/\ndef {name} (c : Nat) : Nat := {cexpr(e, {'c': 'c'})}\n")
    need(re.search(r"result\s*\.\s*resize\s*\(\s*" + (jv or "j") + r"\s*\)\s*;", code), f"fromBase64 `result.resize({jv})`")

    # fromHex: the alphabet by EXECUTION (harness/codec_probe.cpp prints fromHex of every single byte); the index expressions are the
    # canonical `b >> 4` / `b & 0xf`, accepted only when all 256 executed results are alphabet[b >> 4], alphabet[b & 0xf]
    # (the statements themselves are tied by the body translator: CodecBody.fromHex, body_fromHex)
    hx = run_probe(repo)["hex"]
    alpha = [hx[2 * (16 * k)] for k in range(16)]
    for b in range(256):
        if [hx[2 * b], hx[2 * b + 1]] != [alpha[b >> 4], alpha[b & 15]]:
            raise TranslateError(f"fromHex: the text of byte {b} is not alphabet[b >> 4], alphabet[b & 0xf]")
    out.append("\n/-! src/String.cpp : String::fromHex (alphabet by execution of the current sources) -/\n")
    out.append(f"def hexAlphabet : List Nat := {alpha}  -- \"{''.join(chr(c) for c in alpha)}\"\n")
    out.append("/-- index of `dest[0] = hex[..]` for the source byte `b` -/\ndef hexHi (b : Nat) : Nat := (b >>> 4)\n")
    out.append("/-- index of `dest[1] = hex[..]` for the source byte `b` -/\ndef hexLo (b : Nat) : Nat := (b &&& 15)\n")


# ---- Unicode.hpp --------------------------------------------------------------------------------------
def translate_unicode(repo, out):
    src = (repo / "include" / "nstd" / "Unicode.hpp").read_text(errors="replace")
    out.append("\n/-! include/nstd/Unicode.hpp -/\n")
    offs = need(re.search(r"utf8Offsets\s*\[\s*\]\s*=\s*\{(.*?)\}", src, re.S), "utf8Offsets").group(1)
    ovals = [cexpr(x.strip(), {}) for x in strip_comments(offs).split(",") if x.strip()]
    out.append(f"def utf8Offsets : List Nat := [{', '.join(ovals)}]\n")

    # length(char ch): a pure function of one byte -> its 256 values, obtained by EXECUTING the current source
    probe = run_probe(repo)
    table = probe["length"]
    out.append("/-- `Unicode::length((char)b)` for b = 0..255, printed by harness/codec_probe.cpp built from the current sources -/\n"
               f"def utf8LengthTable : List Nat :=\n  {table}\n")
    out.append("/-- `Unicode::length(char ch)`; a byte is its value modulo 256, the table has 256 entries -/\n"
               "def utf8Length (b : Nat) : Nat := utf8LengthTable.getD (b % 256) 0\n")
    out.append("\n/-! include/nstd/String.hpp + the case maps of src/String.cpp, by execution of the probe -/\n"
               "/-- `String::isSpace((char)b)` for b = 0..255 (1 = true) -/\n"
               f"def strIsSpaceTable : List Nat :=\n  {probe['isspace']}\n"
               "/-- `(uchar)String::toLowerCase((char)b)` = `lowerCaseMap[(uchar&)c]` for b = 0..255 -/\n"
               f"def lowerCaseMap : List Nat :=\n  {probe['lower']}\n"
               "/-- `(uchar)String::toUpperCase((char)b)` = `upperCaseMap[(uchar&)c]` for b = 0..255 -/\n"
               f"def upperCaseMap : List Nat :=\n  {probe['upper']}\n")

    # fromString first-byte test: `(*(const uchar*)ch & M) == 0`  or  `*(const uchar*)ch < P`
    fbody = strip_comments(function_body(src, r"static\s+uint32\s+fromString\s*\(\s*const\s+char\s*\*\s*ch\s*,\s*usize\s+len\s*\)\s*\{", "Unicode::fromString(const char*, usize)"))
    fb = r"\*\s*\(\s*const\s+uchar\s*\*\s*\)\s*ch"
    m1 = re.search(r"if\s*\(\s*\(\s*" + fb + r"\s*&\s*(0x[0-9a-fA-F]+|\d+)\s*\)\s*==\s*0\s*\)\s*return\s+" + fb, fbody)
    m2 = re.search(r"if\s*\(\s*" + fb + r"\s*(<=|<)\s*(0x[0-9a-fA-F]+|\d+)\s*\)\s*return\s+" + fb, fbody)
    if m1:
        test = f"decide (b &&& {int(m1.group(1), 0)} = 0)"
    elif m2:
        test = f"decide (b {'≤' if m2.group(1) == '<=' else '<'} {int(m2.group(2), 0)})"
    else:
        raise TranslateError("cannot find fromString: `if(<first byte test>) return *(const uchar*)ch;`")
    out.append(f"/-- `fromString`: the test of the single-byte fast path on the first byte `b` (read as uchar) -/\ndef utf8IsAscii (b : Nat) : Bool := {test}\n")

    # isValid(const char* ch, usize len): the continuation-byte tests of the switch(minLen)
    vbody = strip_comments(function_body(src, r"static\s+bool\s+isValid\s*\(\s*const\s+char\s*\*\s*ch\s*,\s*usize\s+len\s*\)\s*\{", "Unicode::isValid(const char*, usize)"))
    vcases = re.findall(r"case\s+(\d+)\s*:(.*?)break\s*;", vbody, re.S)
    want = {"4": 3, "3": 2, "2": 1}
    seen = {}
    for c, body in vcases:
        if c == "1":
            if body.strip():
                raise TranslateError("Unicode::isValid: case 1 is expected to be empty")
            continue
        m = need(re.match(r"\s*if\s*\((.*)\)\s*return\s+false\s*;\s*$", body, re.S), f"Unicode::isValid case {c}: `if(<test>) return false;`")
        e = m.group(1)
        e = re.sub(r"\(\s*\(\s*const\s+uchar\s*\*\s*\)\s*ch\s*\)\s*\[\s*(\d)\s*\]", r"b\1", e)
        e = re.sub(r"\bch\s*\[\s*(\d)\s*\]", r"b\1", e)       # `ch[1] & M` with M <= 0xff: byte value
        mm = need(re.match(r"^(.*)!=\s*(0x[0-9a-fA-F]+[uUlL]*|\d+[uUlL]*)\s*$", e.strip(), re.S), f"Unicode::isValid case {c}: `<expr> != <literal>`")
        n = want.get(c)
        if n is None:
            raise TranslateError(f"Unicode::isValid: unexpected case {c}")
        vm = {f"b{k}": f"b{k}" for k in range(1, n + 1)}
        lhs = cexpr(mm.group(1).strip(), vm)
        for k in range(1, n + 1):
            if not re.search(rf"\bb{k}\b", lhs):
                raise TranslateError(f"Unicode::isValid case {c}: byte {k} is not tested")
        seen[c] = f"def validBad{c} ({' '.join(f'b{k}' for k in range(1, n + 1))} : Nat) : Bool := decide ({lhs} ≠ {cexpr(mm.group(2), {})})\n"
    if sorted(seen) != ["2", "3", "4"]:
        raise TranslateError(f"Unicode::isValid: expected tests for cases 2,3,4, found {sorted(seen)}")
    need(re.search(r"default\s*:\s*return\s+false\s*;", vbody), "Unicode::isValid: `default: return false;`")
    out.append("/-! `Unicode::isValid`: the test `if(<test>) return false;` of case 2 / 3 / 4 over the bytes ch[1..] -/\n")
    for c in ("2", "3", "4"):
        out.append(seen[c])

    # append(uint32 ch, String& str): the #else (UTF-8) branch
    abody = function_body(src, r"static\s+bool\s+append\s*\(\s*uint32\s+ch\s*,\s*String\s*&\s*str\s*\)\s*\{", "Unicode::append(uint32, String&)")
    helpers = one_line_helpers(src, exclude=("append", "toString", "length", "fromString", "isValid"))
    m = need(re.search(r"#else(.*?)#endif", abody, re.S), "Unicode::append: UTF-8 branch (#else ... #endif)")
    code = strip_comments(m.group(1))
    tail = strip_comments(abody[m.end():])
    need(re.match(r"\s*return\s+false\s*;\s*$", tail), "Unicode::append: final `return false;`")
    branches = []
    rest = code
    while rest.strip():
        m = re.match(r"\s*if\s*\((.*?)\)\s*\{(.*?)return\s+true\s*;\s*\}", rest, re.S)
        need(m, "Unicode::append: `if(cond) { str.append(..); ... return true; }` branch near " + repr(rest.strip()[:40]))
        cond, stmts = m.group(1).strip(), m.group(2)
        bytes_ = []
        for st in [x.strip() for x in stmts.split(";") if x.strip()]:
            a = need(re.match(r"str\s*\.\s*append\s*\((.*)\)\s*$", st, re.S), f"Unicode::append: statement {st!r}").group(1).strip()
            a = strip_char_casts(inline_helper_calls(a, helpers))
            bytes_.append(cexpr(a, {"ch": "ch"}))
        c = re.match(r"^\((.*)\)\s*==\s*0$", cond, re.S)
        if c:
            lc = f"decide ({cexpr(c.group(1), {'ch': 'ch'})} = 0)"
        else:
            c = need(re.match(r"^ch\s*<\s*(\S+)$", cond), f"Unicode::append: condition {cond!r}")
            lc = f"decide (ch < {cexpr(c.group(1), {})})"
        branches.append((lc, bytes_))
        rest = rest[m.end():]
    if len(branches) != 4 or [len(b) for _, b in branches] != [1, 2, 3, 4]:
        raise TranslateError(f"Unicode::append: expected 4 branches appending 1,2,3,4 bytes, found {[len(b) for _, b in branches]}")
    out.append("/-! `Unicode::append(uint32 ch, String& str)`, UTF-8 branch: range tests in source order and the\n"
               "    appended expressions (each converted to `char`, i.e. taken modulo 256) -/\n")
    for k, (lc, bs) in enumerate(branches, 1):
        out.append(f"def encCond{k} (ch : Nat) : Bool := {lc}\n")
        out.append(f"def encBytes{k} (ch : Nat) : List Nat := [{', '.join(b + ' % 256' for b in bs)}]\n")


_PROBE_CACHE = {}


def run_probe(repo):
    if str(repo) not in _PROBE_CACHE:
        _PROBE_CACHE[str(repo)] = run_probe_uncached(repo)
    return _PROBE_CACHE[str(repo)]


def run_probe_uncached(repo):
    """build harness/codec_probe.cpp against the current sources and run it; returns the 256 values of Unicode::length"""
    import subprocess
    import tempfile
    cxx = os.environ.get("CXX", "g++")
    with tempfile.TemporaryDirectory(prefix="codec-probe-", dir=os.environ.get("TMPDIR", "/tmp")) as d:
        exe = Path(d) / "probe"
        p = subprocess.run([cxx, "-std=gnu++11", "-O0", f"-I{repo}/include", str(VERIF / "harness" / "codec_probe.cpp"),
                            f"{repo}/src/String.cpp", f"{repo}/src/Memory.cpp", "-o", str(exe)],
                           stdout=subprocess.PIPE, stderr=subprocess.STDOUT, text=True, errors="replace", timeout=300)
        if p.returncode != 0:
            raise TranslateError("probe harness/codec_probe.cpp does not compile against the current sources: " + p.stdout[-600:])
        r = subprocess.run([str(exe)], stdout=subprocess.PIPE, stderr=subprocess.STDOUT, text=True, errors="replace", timeout=60)
        if r.returncode != 0:
            raise TranslateError("probe failed: " + r.stdout[-300:])
    tables = {}
    for line in r.stdout.splitlines():
        t = line.split()
        if t and t[0] in ("length", "isspace", "lower", "upper", "hex"):
            vals = [int(x) for x in t[1:]]
            if len(vals) != (512 if t[0] == "hex" else 256):
                raise TranslateError(f"probe: expected 256 values in line `{t[0]}`")
            tables[t[0]] = vals
    for k in ("length", "isspace", "lower", "upper", "hex"):
        if k not in tables:
            raise TranslateError(f"probe printed no `{k}` line")
    return tables


# ======================================================================================================
# PART 2 -- translation of function BODIES (tie by translation): a tokenizer + recursive-descent parser of the
# C++ subset in which Unicode.hpp and String::fromHex / String::fromBase64 are written, and a compiler of the
# parsed statements into Lean functions over the checked memory of Nstd/Codec/Mem.lean
# (`lean/Nstd/Generated/CodecBody.lean`).  lean/Nstd/Codec/PropsBody.lean proves that every generated function
# IS the hand-written model function (Nstd/Codec/Model.lean) on every input.
#
# Anything outside the subset is REFUSED (TranslateError -> the check reports a broken tie).
#
# Semantics of the translation (assumptions, repeated in the MANIFEST note):
#   integers      unsigned values are `Nat`s; an operation whose result can exceed its C type (sound static upper
#                 bounds: a byte read <= 255, `x & L <= L`, `x >> k`, ...) is taken modulo 2^width; `a - b` on an
#                 unsigned type is `(a + 2^w - b) % 2^w`; `int` expressions must stay provably inside 0..2^31-1
#                 (otherwise refused); `++x`, `x++`, `x += e` on `usize` counters do not wrap (objects are smaller
#                 than 2^64 bytes); a (signed) `char` keeps its BYTE value b and may only be masked with a literal
#                 <= 0xff, compared (then it is the Int `b < 128 ? b : b - 256`), cast to an unsigned char, passed
#                 to `length(char)`, appended, or used as a table index (a checked read with that Int)
#   pointers      a pointer parameter `p` is an offset (initially 0) into a byte/word list `p_mem` of which the
#                 range `[0, p_lim)` may be read (`rdR`); `p + n`, `p++`, `p += n`, `p < q` act on the offsets
#   tables        `static const T name[] = {...}` / `const char* name = "..."`: a list; `name[i]` is a checked read
#   String        a value is the list of its chars; `String r(n)` / `String r` = empty; `r.append(c)` appends
#                 `c mod 256` (mod 65536 under _UNICODE: tchar); `r.resize(n)` on the fresh String = n chars
#                 (zeros), `(char*)r` then points at them (checked stores `wr`); `r.reserve(n)` on the fresh String =
#                 a block of exactly n writable bytes, `r.resize(j)` after raw stores = the first j stored bytes when
#                 `j <= n`, a fault otherwise (buffer protocol of the model, see Model.lean `fromBase64`);
#                 `(const char*)s`, passing `s` for a `const char*` parameter: the block `s ++ [0]` of which
#                 `[0, s.length())` may be read (stricter than C: reading the terminator counts as a fault)
#   loops         `for(init; cond; inc) body` becomes a recursive function on a FUEL argument that also carries the
#                 statements behind the loop; running out of fuel is `.oob`; the theorems show the model result for
#                 every fuel above the stated bound, so fuel never runs out
#   switch        selector evaluated once, cases tested in source order, fall-through unrolled
# ======================================================================================================
BODY_OUT = VERIF / "lean" / "Nstd" / "Generated" / "CodecBody.lean"

CTOK = re.compile(r"\s*(0[xX][0-9a-fA-F]+[uUlL]*|\d+[uUlL]*|'(?:\\.|[^'\\])'|\"(?:\\.|[^\"\\])*\"|[A-Za-z_]\w*|<<=|>>=|\+\+|--|->|<<|>>|<=|>=|==|!=|&&|\|\||\+=|-=|\*=|/=|%=|&=|\|=|\^=|[{}()\[\];,<>=+\-*/!?:&.~|^%])")

INT_TYPES = {"char": ("s8", 8), "uchar": ("u8", 8), "byte": ("u8", 8), "uint8": ("u8", 8), "tchar": ("tchar", 16), "uint16": ("u16", 16),
             "uint32": ("u32", 32), "uint": ("u32", 32), "usize": ("u64", 64), "uint64": ("u64", 64), "int": ("int", 32), "bool": ("bool", 1)}
WIDTH = {"u8": 8, "s8": 8, "u16": 16, "tchar": 16, "u32": 32, "u64": 64, "int": 31, "bool": 1}
TYPE_WORDS = set(INT_TYPES) | {"const", "static", "unsigned", "signed", "long", "String", "void"}


def preprocess(text, defines):
    """#ifdef X / #else / #endif only (what the anchored bodies use); anything else is refused"""
    out, stack = [], []
    for line in text.split("\n"):
        s = line.strip()
        if s.startswith("#"):
            m = re.fullmatch(r"#\s*(ifdef|ifndef)\s+(\w+)", s)
            if m:
                on = (m.group(2) in defines) == (m.group(1) == "ifdef")
                stack.append(on)
            elif re.fullmatch(r"#\s*else", s) and stack:
                stack[-1] = not stack[-1]
            elif re.fullmatch(r"#\s*endif", s) and stack:
                stack.pop()
            else:
                raise TranslateError(f"preprocessor line not understood: {s!r}")
            continue
        if all(stack):
            out.append(line)
    if stack:
        raise TranslateError("unbalanced #ifdef")
    return "\n".join(out)


def ctokens(text, what):
    toks, pos = [], 0
    text = text.rstrip()
    while pos < len(text):
        m = CTOK.match(text, pos)
        if not m:
            if not text[pos:].strip():
                break
            raise TranslateError(f"{what}: cannot tokenize at {text[pos:pos + 30]!r}")
        toks.append(m.group(1))
        pos = m.end()
    return toks


class CParser:
    """statements / expressions of the subset -> tuples"""

    def __init__(self, toks, what):
        self.t, self.i, self.what = toks, 0, what

    def err(self, msg):
        raise TranslateError(f"{self.what}: {msg} near {' '.join(self.t[self.i:self.i + 8])!r}")

    def peek(self, k=0):
        return self.t[self.i + k] if self.i + k < len(self.t) else None

    def eat(self, x=None):
        tok = self.peek()
        if tok is None or (x is not None and tok != x):
            self.err(f"expected {x!r}, found {tok!r}")
        self.i += 1
        return tok

    # ---- types ----
    def at_type(self, k=0):
        return self.peek(k) in TYPE_WORDS

    def base_type(self):
        words = []
        while self.peek() in TYPE_WORDS:
            words.append(self.eat())
        ws = [w for w in words if w not in ("const", "static")]
        if ws == ["unsigned", "char"]:
            return "u8"
        if ws == ["unsigned", "long"] or ws == ["unsigned", "long", "long"]:
            return "u64"
        if ws == ["unsigned"] or ws == ["unsigned", "int"]:
            return "u32"
        if len(ws) == 1 and ws[0] in INT_TYPES:
            return INT_TYPES[ws[0]][0]
        if ws == ["String"]:
            return "string"
        self.err(f"type {' '.join(words)!r} is not in the translated subset")

    def declarator_type(self, base):
        ty = base
        while self.peek() in ("*", "&", "const"):
            tok = self.eat()
            if tok == "*":
                ty = ("ptr", ty)
            elif tok == "&":
                ty = ("ref", ty)
        return ty

    # ---- expressions ----
    def expr(self):
        return self.assign()

    def assign(self):
        l = self.binary(0)
        if self.peek() in ("=", "+=", "-=", "|=", "&=", "<<=", ">>=", "*=", "/=", "%=", "^="):
            op = self.eat()
            r = self.assign()
            return ("assign", op, l, r)
        if self.peek() == "?":
            self.err("conditional operator is not translated")
        return l

    LEVELS = [["||"], ["&&"], ["|"], ["^"], ["&"], ["==", "!="], ["<", ">", "<=", ">="], ["<<", ">>"], ["+", "-"], ["*", "/", "%"]]

    def binary(self, lvl):
        if lvl == len(self.LEVELS):
            return self.unary()
        l = self.binary(lvl + 1)
        while self.peek() in self.LEVELS[lvl]:
            op = self.eat()
            r = self.binary(lvl + 1)
            l = ("bin", op, l, r)
        return l

    def unary(self):
        tok = self.peek()
        if tok == "(" and self.at_type(1):
            self.eat("(")
            ty = self.declarator_type(self.base_type())
            self.eat(")")
            return ("cast", ty, self.unary())
        if tok in ("~", "!", "*", "-"):
            self.eat()
            return ("un", tok, self.unary())
        if tok in ("++", "--"):
            self.eat()
            return ("preinc", tok, self.unary())
        if tok == "&":
            self.err("address-of is not translated")
        return self.postfix()

    def postfix(self):
        tok = self.eat()
        if tok == "(":
            e = self.expr()
            self.eat(")")
        elif re.match(r"\d", tok):
            sfx = re.search(r"[uUlL]+$", tok)
            sfx = sfx.group(0).lower() if sfx else ""
            v = int(re.sub(r"[uUlL]+$", "", tok), 0)
            ty = "u64" if "l" in sfx and "u" in sfx else "u32" if sfx == "u" else "int" if sfx == "" and v < 2 ** 31 else None
            if ty is None:
                self.err(f"literal {tok} has a type outside the subset")
            e = ("lit", v, ty)
        elif tok.startswith("'"):
            body = tok[1:-1]
            esc = {"\\0": 0, "\\n": 10, "\\t": 9, "\\r": 13, "\\\\": 92, "\\'": 39}
            if body not in esc and len(body) != 1:
                self.err(f"character literal {tok}")
            e = ("lit", esc[body] if body in esc else ord(body), "int")
        elif tok.startswith('"'):
            e = ("strlit", tok[1:-1])
        elif tok == "String" and self.peek() == "(":
            self.eat("(")
            self.eat(")")
            e = ("emptystring",)
        elif tok in ("true", "false"):
            e = ("boollit", tok)
        elif re.match(r"[A-Za-z_]", tok):
            if self.peek() == "(":
                e = ("call", tok, self.args())
            else:
                e = ("var", tok)
        else:
            self.i -= 1
            self.err(f"unexpected token {tok!r}")
        while True:
            if self.peek() == "[":
                self.eat()
                ix = self.expr()
                self.eat("]")
                e = ("index", e, ix)
            elif self.peek() in ("++", "--"):
                e = ("postinc", self.eat(), e)
            elif self.peek() == ".":
                self.eat()
                name = self.eat()
                e = ("method", e, name, self.args())
            else:
                return e

    def args(self):
        self.eat("(")
        a = []
        if self.peek() != ")":
            a.append(self.expr())
            while self.peek() == ",":
                self.eat()
                a.append(self.expr())
        self.eat(")")
        return a

    # ---- statements ----
    def block(self):
        out = []
        while self.peek() is not None and self.peek() != "}":
            out.append(self.stmt())
        return out

    def decl(self):
        """T d1 [= e | (args)] , d2 ... ;   or   T name[] = { ... };"""
        base = self.base_type()
        ds = []
        while True:
            ty = self.declarator_type(base)
            name = self.eat()
            if not re.match(r"[A-Za-z_]\w*$", name):
                self.err("declarator name")
            if self.peek() == "[":
                self.eat()
                n = None
                if self.peek() != "]":
                    n = self.expr()
                self.eat("]")
                self.eat("=")
                if (self.peek() or "").startswith('"'):
                    lit = self.eat()[1:-1]
                    if "\\" in lit:
                        self.err("escape in a string table")
                    ds.append(("table", "u8", name, [("lit", ord(c), "int") for c in lit], None))
                    if self.peek() == ",":
                        self.eat()
                        continue
                    self.eat(";")
                    return ("decl", ds)
                self.eat("{")
                vals = []
                while self.peek() != "}":
                    vals.append(self.binary(0))
                    if self.peek() == ",":
                        self.eat()
                self.eat("}")
                ds.append(("table", ty, name, vals, n))
            elif self.peek() == "=":
                self.eat()
                ds.append(("var", ty, name, self.assign()))
            elif self.peek() == "(":
                ds.append(("ctor", ty, name, self.args()))
            else:
                ds.append(("var", ty, name, None))
            if self.peek() == ",":
                self.eat()
                continue
            self.eat(";")
            return ("decl", ds)

    def stmt(self):
        tok = self.peek()
        if tok == "{":
            self.eat()
            b = self.block()
            self.eat("}")
            return ("block", b)
        if tok == ";":
            self.eat()
            return ("block", [])
        if tok == "if":
            self.eat()
            self.eat("(")
            c = self.expr()
            self.eat(")")
            thn = self.stmt()
            els = None
            if self.peek() == "else":
                self.eat()
                els = self.stmt()
            return ("if", c, thn, els)
        if tok == "for":
            self.eat()
            self.eat("(")
            init = None
            if self.peek() == ";":
                self.eat()
            elif self.at_type():
                init = self.decl()
            else:
                init = ("expr", self.expr())
                self.eat(";")
            cond = None if self.peek() == ";" else self.expr()
            self.eat(";")
            incs = []
            while self.peek() != ")":
                incs.append(self.expr())
                if self.peek() == ",":
                    self.eat()
            self.eat(")")
            return ("for", init, cond, incs, self.stmt())
        if tok == "switch":
            self.eat()
            self.eat("(")
            sel = self.expr()
            self.eat(")")
            self.eat("{")
            cases = []          # (label or None for default, [stmts])
            while self.peek() != "}":
                if self.peek() == "case":
                    self.eat()
                    lab = self.binary(0)
                    self.eat(":")
                    cases.append([lab, []])
                elif self.peek() == "default":
                    self.eat()
                    self.eat(":")
                    cases.append([None, []])
                else:
                    if not cases:
                        self.err("statement in front of the first case label")
                    cases[-1][1].append(self.stmt())
            self.eat("}")
            return ("switch", sel, cases)
        if tok == "return":
            self.eat()
            e = None if self.peek() == ";" else self.expr()
            self.eat(";")
            return ("return", e)
        if tok in ("break", "continue"):
            self.eat()
            self.eat(";")
            return (tok,)
        if tok in ("while", "do", "goto", "try", "throw"):
            self.err(f"`{tok}` is not in the translated subset")
        if self.at_type() and not (tok == "String" and self.peek(1) == "("):
            return self.decl()
        e = self.expr()
        self.eat(";")
        return ("expr", e)


def parse_function(src, header_rx, what, defines=()):
    """(parameter list [(type, name)], statements) of the single function whose header matches"""
    ms = list(re.finditer(header_rx, src))
    if len(ms) != 1:
        raise TranslateError(f"{what}: {len(ms)} definitions found, expected exactly one")
    m = ms[0]
    body = function_body(src, header_rx, what)
    body = strip_comments(preprocess(body, set(defines)))
    p = CParser(ctokens(body, what), what)
    stmts = p.block()
    if p.peek() is not None:
        p.err("trailing tokens")
    ptoks = ctokens(strip_comments(m.group("params")), what)
    pp = CParser(ptoks, what + " parameters")
    params = []
    while pp.peek() is not None:
        const = pp.peek() == "const"
        ty = pp.declarator_type(pp.base_type())
        if ty == ("ref", "string") and const:
            ty = ("cref", "string")
        params.append((ty, pp.eat()))
        if pp.peek() == ",":
            pp.eat()
    return params, stmts


# ---- compiler: statements -> Lean text --------------------------------------------------------------------------------
class Val:
    """a C value: Lean text, C type, static upper bound (None = only the type's)"""

    def __init__(self, text, ty, ub=None):
        self.text, self.ty, self.ub = text, ty, ub

    def bound(self):
        if self.ub is not None:
            return self.ub
        if isinstance(self.ty, str) and self.ty in WIDTH:
            return 2 ** WIDTH[self.ty] - 1
        return None


def ind(text, n=1):
    pad = "  " * n
    return "\n".join(pad + l if l else l for l in text.split("\n"))


def par(t):
    return t if re.fullmatch(r"\w+", t) else "(" + t + ")"


S8INT = "(if {0} < 128 then ({0} : Int) else ({0} : Int) - 256)"


class FnCompiler:
    def __init__(self, unit, name, params, stmts, ret, what, tchar_bits=8):
        self.unit, self.name, self.params, self.stmts, self.ret, self.what = unit, name, params, stmts, ret, what
        self.tmp = 0
        self.loops = []          # Lean text of the loop functions (emitted in front of the function)
        self.tables = []         # Lean text of the table constants
        self.refs = [n for t, n in params if t == ("ref", "string")]
        self.char_mod = 2 ** tchar_bits
        self.fuel_used = False

    def err(self, msg):
        raise TranslateError(f"{self.what}: {msg}")

    def fresh(self, base="t"):
        self.tmp += 1
        return f"{base}{self.tmp}"

    # ---- environment: name -> Val | ("string", text, mode, cap) | ("table", leanName, elemty) ----
    def arith_type(self, a, b):
        ts = [a, b]
        for t in ts:
            if t not in WIDTH:
                self.err(f"arithmetic on a value of type {t}")
        if "u64" in ts:
            return "u64"
        if "u32" in ts:
            return "u32"
        return "int"

    def fit(self, text, ty, ub):
        """value of an arithmetic result in type `ty` whose mathematical upper bound is `ub` (None = unknown)"""
        w = WIDTH[ty]
        if ty == "int":
            if ub is None or ub >= 2 ** 31:
                self.err(f"cannot show that the int expression {text} stays below 2^31")
            return Val(text, ty, ub)
        if ub is not None and ub < 2 ** w:
            return Val(text, ty, ub)
        return Val(f"({par(text)} % {2 ** w})", ty, None)

    def byte_of(self, v):
        """numeric (non-negative) view of a value; a signed char is refused here"""
        if v.ty == "s8":
            self.err(f"a (signed) char value {v.text} is used as a number")
        if v.ty == "bool":
            self.err("a bool is used as a number")
        return v

    def binop(self, op, a, b):
        if op in ("==", "!=", "<", ">", "<=", ">="):
            rel = {"==": "=", "!=": "≠", "<": "<", ">": ">", "<=": "≤", ">=": "≥"}[op]
            if isinstance(a.ty, tuple) and isinstance(b.ty, tuple):
                if a.ty[0] != "ptr" or b.ty[0] != "ptr" or a.ty[2] != b.ty[2]:
                    self.err("comparison of pointers into different blocks")
                return Val(f"{a.text} {rel} {b.text}", "prop")
            if a.ty == "s8" or b.ty == "s8":
                if a.ty == "s8" and b.ty == "s8":
                    self.err("comparison of two chars")
                s, o, flip = (a, b, False) if a.ty == "s8" else (b, a, True)
                self.byte_of(o)
                st, ot = S8INT.format(par(s.text)), f"({par(o.text)} : Int)"
                return Val(f"{ot} {rel} {st}" if flip else f"{st} {rel} {ot}", "prop")
            self.byte_of(a), self.byte_of(b)
            self.arith_type(a.ty, b.ty)
            return Val(f"{a.text} {rel} {b.text}", "prop")
        if isinstance(a.ty, tuple) and a.ty[0] == "ptr" and op in ("+", "-") and not isinstance(b.ty, tuple):
            self.byte_of(b)
            if op == "-":
                self.err("pointer - integer is not translated")
            return Val(self.addtext(a.text, b.text), a.ty)
        if op == "&" and (a.ty == "s8" or b.ty == "s8"):
            s, o = (a, b) if a.ty == "s8" else (b, a)
            if o.ty == "s8" or o.bound() is None or o.bound() > 255 or not re.fullmatch(r"\d+", o.text):
                self.err("a (signed) char may only be masked with a literal <= 0xff")
            t = f"{par(a.text)} &&& {par(b.text)}"
            return Val(t, "int", o.bound())
        self.byte_of(a), self.byte_of(b)
        if op in ("|", "&") and re.fullmatch(r"\d+", a.text) and not re.fullmatch(r"\d+", b.text):
            a, b = b, a                                       # `literal | x` is printed as `x | literal` (| and & commute)
        if op in (">>", "<<") and b.text == "0":
            return a if a.ty in ("u32", "u64") else self.convert(a, "int")      # shift by 0 (a helper called with shift 0)
        ty = self.arith_type(a.ty, b.ty)
        ua, ub = a.bound(), b.bound()
        A, B = par(a.text), par(b.text)
        if op == "&":
            return self.fit(f"{A} &&& {B}", ty, min(ua, ub))
        if op in ("|", "^"):
            return self.fit(f"{A} {'|||' if op == '|' else '^^^'} {B}", ty, 2 ** max(ua.bit_length(), ub.bit_length()) - 1)
        if op == ">>":
            k = int(b.text) if re.fullmatch(r"\d+", b.text) else None
            ty = a.ty if a.ty in ("u32", "u64") else "int"
            return self.fit(f"{A} >>> {B}", ty, ua >> k if k is not None else ua)
        if op == "<<":
            if not re.fullmatch(r"\d+", b.text) or int(b.text) >= (32 if a.ty != "u64" else 64):
                self.err("shift count must be a small literal")
            ty = a.ty if a.ty in ("u32", "u64") else "int"
            return self.fit(f"{A} <<< {B}", ty, ua << int(b.text))
        if op == "+":
            return self.fit(self.addtext(a.text, b.text), ty, ua + ub)
        if op == "*":
            return self.fit(f"{A} * {B}", ty, ua * ub)
        if op in ("/", "%"):
            if not re.fullmatch(r"\d+", b.text) or int(b.text) == 0:
                self.err("division only by a non-zero literal")
            return self.fit(f"{A} {op} {B}", ty, ua)
        if op == "-":
            if ty == "int":
                if re.fullmatch(r"\d+", a.text) and re.fullmatch(r"\d+", b.text) and int(a.text) >= int(b.text):
                    return Val(f"{A} - {B}", ty, int(a.text) - int(b.text))
                self.err("subtraction of ints is not translated")
            if re.fullmatch(r"\d+", a.text) and re.fullmatch(r"\d+", b.text) and int(a.text) >= int(b.text):
                return Val(f"{A} - {B}", ty, int(a.text) - int(b.text))
            w = 2 ** WIDTH[ty]
            return Val(f"({A} + {w} - {B}) % {w}", ty, None)
        self.err(f"operator {op} is not translated")

    @staticmethod
    def addtext(a, b):
        if b == "0":
            return a
        if a == "0":
            return b
        m = re.fullmatch(r"(\w+) \+ (\d+)", a)
        if m and re.fullmatch(r"\d+", b):
            return f"{m.group(1)} + {int(m.group(2)) + int(b)}"
        return f"{par(a)} + {par(b)}"

    def convert(self, v, ty):
        """conversion of an arithmetic value to integer type ty"""
        if ty == v.ty:
            return v
        if ty == "s8":
            if v.ty in ("u8",):
                return Val(v.text, "s8", None)
            self.byte_of(v)
            b = v.bound()
            return Val(v.text if b is not None and b < 256 else f"({par(v.text)} % 256)", "s8", None)
        if v.ty == "s8":
            if ty == "u8":
                return Val(v.text, "u8", 255)
            self.err(f"conversion of a (signed) char to {ty} (sign extension) is not translated")
        if v.ty == "prop" and ty == "bool":
            return Val(f"decide ({v.text})", "bool")
        if v.ty == "bool" or ty == "bool" or v.ty == "prop":
            self.err(f"conversion {v.ty} -> {ty}")
        if ty == "tchar":
            w = self.char_mod
            b = v.bound()
            return Val(v.text if b is not None and b < w else f"({par(v.text)} % {w})", "tchar", min(b, w - 1) if b is not None else w - 1)
        b = v.bound()
        w = 2 ** WIDTH[ty]
        if ty == "int":
            return self.fit(v.text, "int", b)
        if b is not None and b < w:
            return Val(v.text, ty, b)
        return Val(f"({par(v.text)} % {w})", ty, None)

    # ---- expressions (CPS: k receives the value and the environment) ----
    def rvalue(self, e, env, k):
        kind = e[0]
        if kind == "lit":
            return k(Val(str(e[1]), e[2], e[1]), env)
        if kind == "var":
            v = env.get(e[1])
            if v is None:
                self.err(f"unknown identifier {e[1]}")
            return k(v, env)
        if kind == "boollit":
            return k(Val(e[1], "bool"), env)
        if kind == "emptystring":
            return k(("string", "[]", "value"), env)
        if kind == "cast":
            ty = e[1]

            def after(v, env):
                if isinstance(v, tuple) and v[0] == "string":
                    if ty in (("ptr", "s8"),):
                        return k(self.string_ptr(v, e[2], env), env)
                    self.err("cast of a String")
                if isinstance(ty, tuple):
                    if ty[0] == "ptr" and isinstance(v.ty, tuple) and v.ty[0] == "ptr":
                        if WIDTH.get(ty[1]) != WIDTH.get(v.ty[1]):
                            self.err("pointer cast between element types of different size")
                        return k(Val(v.text, ("ptr", ty[1], v.ty[2]), None), env)
                    self.err("cast to a pointer / reference type")
                if isinstance(v.ty, tuple):
                    self.err("cast of a pointer to an integer")
                return k(self.convert(v, ty), env)
            return self.rvalue(e[2], env, after)
        if kind == "un":
            op = e[1]
            if op == "*":
                return self.rvalue(e[2], env, lambda p, env: self.read(p, Val("0", "int", 0), env, k))

            def after(v, env):
                if op == "~":
                    self.byte_of(v)
                    ty = v.ty if v.ty in ("u32", "u64") else None
                    if ty is None:
                        self.err("`~` on a value narrower than unsigned int")
                    return k(Val(f"{2 ** WIDTH[ty] - 1} - {par(v.text)}", ty, None), env)
                if op == "!":
                    if v.ty == "prop":
                        return k(Val(f"¬ ({v.text})", "prop"), env)
                    if v.ty == "bool":
                        return k(Val(f"(!{par(v.text)})", "bool"), env)
                    self.byte_of(v)
                    return k(Val(f"{v.text} = 0", "prop"), env)
                self.err(f"unary {op} is not translated")
            return self.rvalue(e[2], env, after)
        if kind == "bin":
            if e[1] in ("&&", "||"):
                self.err("short-circuit operators are not translated")
            return self.rvalue(e[2], env, lambda a, env: self.rvalue(e[3], env, lambda b, env: k(self.binop(e[1], a, b), env)))
        if kind == "index":
            return self.rvalue(e[1], env, lambda p, env: self.rvalue(e[2], env, lambda i, env: self.read(p, i, env, k)))
        if kind in ("postinc", "preinc"):
            if e[2][0] != "var":
                self.err("++ / -- on something that is not a variable")
            name = e[2][1]
            old = env[name]
            if e[1] != "++":
                self.err("-- is not translated")
            new = self.incremented(old, Val("1", "int", 1))
            env2 = dict(env)
            env2[name] = new
            return k(old if kind == "postinc" else new, env2)
        if kind == "assign":
            return self.assign(e, env, k)
        if kind == "call":
            return self.call(e, env, k)
        if kind == "method":
            return self.method(e, env, k)
        if kind == "strlit":
            self.err("string literal outside a table declaration")
        self.err(f"expression {kind} is not translated")

    def incremented(self, old, by):
        if isinstance(old.ty, tuple):
            return Val(self.addtext(old.text, by.text), old.ty)
        if old.ty == "u64":              # usize counters: no wrap (documented assumption)
            return Val(self.addtext(old.text, by.text), "u64", None)
        return self.convert(self.binop("+", old, by), old.ty)

    def read(self, p, i, env, k):
        """*p / p[i]"""
        if isinstance(p, tuple) and p[0] == "table":
            _, lname, ety = p
            if i.ty == "s8":
                rd = f"rdTable {lname} {S8INT.format(par(i.text))}"
            else:
                self.byte_of(i)
                rd = f"rd {lname} {par(i.text)}"
            t = self.fresh()
            return f"({rd}).bind fun {t} =>\n" + ind(k(Val(t, ety, None), env))
        if isinstance(p, tuple):
            self.err("indexing a String")
        if not (isinstance(p.ty, tuple) and p.ty[0] == "ptr"):
            self.err(f"dereference of a non-pointer {p.text}")
        self.byte_of(i)
        _, ety, blk = p.ty
        at = self.addtext(p.text, i.text)
        b = env["#blocks"][blk]
        t = self.fresh("b")
        if b["kind"] == "in":
            rd = f"rdR {b['mem']} {b['lim']} {par(at)}"
        else:
            cur = env[b["var"]]
            rd = f"rd {par(cur[1])} {par(at)}"
        return f"({rd}).bind fun {t} =>\n" + ind(k(Val(t, ety, 255 if WIDTH.get(ety) == 8 and ety != "s8" else None), env))

    def string_ptr(self, sv, src_expr, env):
        """(const char*)s / (char*)result"""
        if src_expr[0] != "var":
            self.err("conversion of a String expression to a pointer")
        name = src_expr[1]
        blocks = dict(env["#blocks"])
        if name in self.const_strings:
            blocks[name] = {"kind": "in", "mem": f"({sv[1]} ++ [0])", "lim": f"{par(sv[1])}.length"}
        else:
            blocks[name] = {"kind": "out", "var": name}
        env["#blocks"] = blocks
        return Val("0", ("ptr", "s8", name), 0)

    def store(self, lhs, env, k_addr):
        """evaluates the address of an lvalue `p[i]` / `*p` into (block, offset text); k_addr(blockinfo, at, env)"""
        if lhs[0] == "index":
            return self.rvalue(lhs[1], env, lambda p, env: self.rvalue(lhs[2], env, lambda i, env: k_addr(p, i, env)))
        if lhs[0] == "un" and lhs[1] == "*":
            return self.rvalue(lhs[2], env, lambda p, env: k_addr(p, Val("0", "int", 0), env))
        self.err("assignment target is not translated")

    def assign(self, e, env, k):
        _, op, lhs, rhs = e
        if lhs[0] == "var":
            name = lhs[1]
            if name not in env:
                self.err(f"assignment to unknown {name}")
            old = env[name]

            def after(v, env):
                if isinstance(old, tuple) and old[0] == "string":
                    if op == "=" and isinstance(v, tuple) and v[0] == "string":
                        env2 = dict(env)
                        env2[name] = v
                        return k(v, env2)
                    self.err("assignment to a String")
                if isinstance(v, tuple):
                    self.err("a String is assigned to a scalar")
                if op == "=":
                    if isinstance(old.ty, tuple):
                        if not isinstance(v.ty, tuple) or v.ty[2] != old.ty[2]:
                            if not isinstance(v.ty, tuple):
                                self.err("integer assigned to a pointer")
                        new = Val(v.text, v.ty if isinstance(v.ty, tuple) else old.ty)
                    else:
                        new = self.convert(v, old.ty)
                elif op == "+=" and (isinstance(old.ty, tuple) or old.ty == "u64"):
                    self.byte_of(v)
                    new = self.incremented(old, v)
                elif op in ("&=", "|=") and old.ty == "bool":
                    vb = self.convert(v, "bool")
                    new = Val(f"({old.text} {'&&' if op == '&=' else '||'} {vb.text})", "bool")
                else:
                    new = self.convert(self.binop(op[:-1], old, v), old.ty)
                env2 = dict(env)
                env2[name] = new
                return k(new, env2)
            return self.rvalue(rhs, env, after)
        # store through a pointer:  p[i] = e;  p[i++] |= e;   (C++17: right operand first for `=`, `|=`)

        def with_rhs(v, env):
            def with_addr(p, i, env):
                if not (isinstance(p, Val) and isinstance(p.ty, tuple) and p.ty[0] == "ptr"):
                    self.err("store through a non-pointer")
                self.byte_of(i)
                blk = env["#blocks"][p.ty[2]]
                if blk["kind"] != "out":
                    self.err("store into a read-only block")
                cur = env[blk["var"]]
                at = self.addtext(p.text, i.text)
                if isinstance(v, tuple):
                    self.err("a String is stored into memory")
                self.byte_of(v) if v.ty != "s8" else None

                def put(val, env):
                    b = val.bound()
                    vt = val.text if (b is not None and b < 256) else f"{par(val.text)} % 256"
                    o = self.fresh("o")
                    env2 = dict(env)
                    env2[blk["var"]] = ("string", o, cur[2])
                    return f"(wr {par(cur[1])} {par(at)} {par(vt)}).bind fun {o} =>\n" + ind(k(val, env2))
                if op == "=":
                    return put(v, env)
                if op == "|=":
                    x = self.fresh("x")
                    return f"(rd {par(cur[1])} {par(at)}).bind fun {x} =>\n" + ind(put(self.binop("|", Val(x, "u8", 255), v), env))
                self.err(f"`{op}` through a pointer is not translated")
            return self.store(lhs, env, with_addr)
        return self.rvalue(rhs, env, with_rhs)

    def call(self, e, env, k):
        _, fname, args = e
        sig = self.unit.sigs.get((fname, len(args)))
        if sig is None and fname in self.unit.helpers and len(self.unit.helpers[fname][0]) == len(args):
            # a pure one-line helper `static T f(params) {return EXPR;}`: inlined (parameters bound to the argument values)
            hparams, hret, hexpr = self.unit.helpers[fname]
            henv = {"#blocks": {}}

            def bind(j, env):
                if j == len(args):
                    return self.rvalue(hexpr, henv, lambda v, _e: k(v if isinstance(v, tuple) else self.convert(v, hret), env))

                def got(v, env):
                    if isinstance(v, tuple) or isinstance(v.ty, tuple) or hparams[j][0] not in WIDTH:
                        self.err(f"helper {fname}: only scalar parameters are inlined")
                    henv[hparams[j][1]] = v if (hparams[j][0] == "s8" and v.ty in ("s8", "u8")) else self.convert(v, hparams[j][0])
                    return bind(j + 1, env)
                return self.rvalue(args[j], env, got)
            return bind(0, env)
        if sig is None:
            self.err(f"call of {fname}/{len(args)}: no translated function of that name and arity")
        lean, params, ret = sig
        texts, outs = [], []

        def go(j, env):
            if j == len(args):
                return finish(env)
            pty = params[j][0]

            def got(v, env):
                if isinstance(pty, tuple) and pty[0] == "ptr":
                    if isinstance(v, tuple) and v[0] == "string":       # String -> const char*: the C-string view
                        texts.append(f"({v[1]} ++ [0]) {par(v[1])}.length 0")
                    else:
                        if not (isinstance(v.ty, tuple) and v.ty[0] == "ptr"):
                            self.err(f"argument {j + 1} of {fname} must be a pointer")
                        b = env["#blocks"][v.ty[2]]
                        if b["kind"] != "in":
                            self.err("a writable block is passed to a function")
                        texts.append(f"{b['mem']} {b['lim']} {par(v.text)}")
                elif pty == ("cref", "string"):
                    if not (isinstance(v, tuple) and v[0] == "string" and v[2] == "value"):
                        self.err(f"argument {j + 1} of {fname} must be a String")
                    texts.append(par(v[1]))
                elif isinstance(pty, tuple) and pty[0] == "ref":
                    if args[j][0] != "var" or not (isinstance(v, tuple) and v[0] == "string" and v[2] == "value"):
                        self.err(f"argument {j + 1} of {fname} must be a String variable")
                    texts.append(par(v[1]))
                    outs.append(args[j][1])
                elif pty == "string":
                    self.err("String by value")
                else:
                    if isinstance(v, tuple):
                        self.err(f"argument {j + 1} of {fname}: String passed for a scalar")
                    if pty == "s8" and v.ty in ("s8", "u8"):
                        texts.append(par(v.text))
                    else:
                        texts.append(par(self.convert(v, pty).text))
                return go(j + 1, env)
            return self.rvalue(args[j], env, got)

        def finish(env):
            fuel = "fuel " if self.unit.needs_fuel.get(lean) else ""
            if fuel:
                self.fuel_used = True
            app = f"{lean} {fuel}{' '.join(texts)}".strip()
            r = self.fresh("r")
            env2 = dict(env)
            if outs:
                if len(outs) != 1:
                    self.err("more than one String& argument")
                env2[outs[0]] = ("string", f"{r}.2", "value")
                val = f"{r}.1"
            else:
                val = r
            rv = ("string", val, "value") if ret == "string" else Val(val, ret, None) if ret != "void" else None
            return f"({app}).bind fun {r} =>\n" + ind(k(rv, env2))
        return go(0, env)

    def method(self, e, env, k):
        _, obj, name, args = e
        if obj[0] != "var" or obj[1] not in env or not (isinstance(env[obj[1]], tuple) and env[obj[1]][0] == "string"):
            self.err(f"method call .{name} on something that is not a String variable")
        on = obj[1]
        sv = env[on]
        if name == "length" and not args:
            if sv[2] != "value":
                self.err("length() of a String with raw stores")
            return k(Val(f"{par(sv[1])}.length", "u64", None), env)
        if name == "append" and len(args) == 1:
            def got(v, env):
                sv = env[on]
                if sv[2] != "value" or isinstance(v, tuple):
                    self.err("append: only single characters are translated")
                w = self.char_mod
                if v.ty in ("s8", "tchar") and w == 256 or v.ty == "tchar":
                    ct = v.text
                else:
                    self.byte_of(v)
                    b = v.bound()
                    ct = v.text if b is not None and b < w else f"{par(v.text)} % {w}"
                env2 = dict(env)
                env2[on] = ("string", f"{sv[1]} ++ [{ct}]", "value")
                return k(None, env2)
            return self.rvalue(args[0], env, got)
        if name in ("resize", "reserve") and len(args) == 1:
            def got(n, env):
                sv = env[on]
                self.byte_of(n)
                env2 = dict(env)
                if sv[1] == "[]" and sv[2] == "value":
                    env2[on] = ("string", f"List.replicate {par(n.text)} 0", "value" if name == "resize" else "reserved")
                    return k(None, env2)
                if name == "resize" and sv[2] == "reserved":
                    env2[on] = ("string", f"{par(sv[1])}.take {par(n.text)}", "value")
                    return f"if {n.text} ≤ {par(sv[1])}.length then\n" + ind(k(None, env2)) + "\nelse\n  .oob"
                self.err(f"{name}() is only translated on the fresh String / after reserve()")
            return self.rvalue(args[0], env, got)
        self.err(f"String::{name}/{len(args)} is not translated")

    # ---- conditions ----
    def cond(self, e, env, k):
        def got(v, env):
            if isinstance(v, tuple):
                self.err("a String used as a condition")
            if v.ty == "prop":
                return k(v.text, env)
            if v.ty == "bool":
                return k(f"{v.text} = true", env)
            self.byte_of(v)
            return k(f"{v.text} ≠ 0", env)
        return self.rvalue(e, env, got)

    # ---- statements.  K = dict(next=fn(env), brk=fn(env)|None, cont=fn(env)|None) ; `return` uses self.ret ----
    def ret_text(self, v, env):
        extra = ""
        if self.refs:
            sv = env[self.refs[0]]
            if sv[2] != "value":
                self.err("String& parameter left with raw stores")
            extra = sv[1]
        if self.ret == "void":
            return f".ok {par(extra)}" if extra else ".ok ()"
        if self.ret == "string":
            if not (isinstance(v, tuple) and v[0] == "string"):
                self.err("return of a non-String from a String function")
            if v[2] != "value":
                self.err("a String with raw stores is returned without resize()")
            val = v[1]
        else:
            if v is None or isinstance(v, tuple):
                self.err("return value")
            if self.ret == "bool":
                val = self.convert(v, "bool").text if v.ty != "bool" else v.text
            else:
                val = self.convert(v, self.ret).text
        return f".ok ({val}, {extra})" if extra else f".ok {par(val)}"

    def seq(self, stmts, env, K):
        if not stmts:
            return K["next"](env)
        st, rest = stmts[0], stmts[1:]
        Krest = dict(K)
        Krest["next"] = lambda env: self.seq(rest, env, K)
        return self.stmt(st, env, Krest)

    def stmt(self, st, env, K):
        kind = st[0]
        if kind == "block":
            outer = set(env)

            def leave(env2):
                return K["next"]({n: v for n, v in env2.items() if n in outer})
            K2 = dict(K)
            K2["next"] = leave
            return self.seq(st[1], env, K2)
        if kind == "expr":
            if st[1][0] == "call" and st[1][1] == "ASSERT":
                return K["next"](env)                          # ASSERT(..): no effect in a release build, aborts in a debug build
            return self.rvalue(st[1], env, lambda v, env: K["next"](env))
        if kind == "return":
            if st[1] is None:
                return self.ret_text(None, env)
            return self.rvalue(st[1], env, lambda v, env: self.ret_text(v, env))
        if kind == "break":
            if K.get("brk") is None:
                self.err("break outside a loop / switch")
            return K["brk"](env)
        if kind == "continue":
            if K.get("cont") is None:
                self.err("continue outside a loop")
            return K["cont"](env)
        if kind == "if":
            def got(c, env):
                thn = self.stmt(st[2], env, K)
                els = self.stmt(st[3], env, K) if st[3] is not None else K["next"](env)
                return f"if {c} then\n{ind(thn)}\nelse\n{ind(els)}"
            return self.cond(st[1], env, got)
        if kind == "decl":
            return self.decl(st[1], env, K)
        if kind == "switch":
            return self.switch(st, env, K)
        if kind == "for":
            return self.loop(st, env, K)
        self.err(f"statement {kind}")

    def decl(self, ds, env, K):
        if not ds:
            return K["next"](env)
        d, rest = ds[0], ds[1:]
        go = lambda env: self.decl(rest, env, K)
        if d[0] == "table":
            _, ty, name, vals, n = d
            if ty not in WIDTH:
                self.err(f"table {name}: element type")
            nums = []
            for v in vals:
                t = self.rvalue(v, {"#blocks": {}}, lambda x, env: x.text)
                if not re.fullmatch(r"\d+", t):
                    self.err(f"table {name}: entry {t} is not a literal")
                nums.append(int(t))
            if n is not None:
                size = int(self.rvalue(n, {"#blocks": {}}, lambda x, env: x.text))
                if size < len(nums):
                    self.err(f"table {name}: more initialisers than elements")
                nums += [0] * (size - len(nums))
            lname = f"{self.name}_tab{len(self.tables) + 1}"
            self.tables.append(f"-- table `{name}`\ndef {lname} : List Nat :=\n  {nums}\n")
            env2 = dict(env)
            env2[name] = ("table", lname, ty)
            return go(env2)
        if d[0] == "ctor":
            _, ty, name, args = d
            if ty != "string" or len(args) != 1:
                self.err(f"constructor call of {name}")
            # String r(capacity): an empty String; the capacity argument is evaluated and dropped
            return self.rvalue(args[0], env, lambda v, env: go({**env, name: ("string", "[]", "value")}))
        _, ty, name, init = d
        if ty == "string":
            if init is not None:
                self.err("initialised String declaration")
            return go({**env, name: ("string", "[]", "value")})
        if init is None:
            if isinstance(ty, tuple):
                self.err(f"uninitialised pointer {name}")
            return go({**env, name: Val("0", ty, 0)})           # read-before-write of an uninitialised scalar cannot be seen: 0
        if isinstance(ty, tuple) and ty[0] == "ptr" and init[0] == "strlit":
            lname = f"{self.name}_tab{len(self.tables) + 1}"
            self.tables.append(f"-- table `{name}`\ndef {lname} : List Nat := {[ord(c) for c in init[1]]}  -- \"{init[1]}\"\n")
            return go({**env, name: ("table", lname, "u8" if ty[1] == "s8" else ty[1])})

        def got(v, env):
            if isinstance(ty, tuple) and ty[0] == "ptr":
                if isinstance(v, tuple) and v[0] == "string":
                    if init[0] != "var":
                        self.err("pointer to a temporary String")
                    v = self.string_ptr(v, init, env)
                if not (isinstance(v.ty, tuple) and v.ty[0] == "ptr"):
                    self.err(f"pointer {name} initialised with a non-pointer")
                if WIDTH.get(ty[1]) != WIDTH.get(v.ty[1]):
                    self.err("pointer conversion between element sizes")
                return go({**env, name: Val(v.text, ("ptr", ty[1], v.ty[2]))})
            if isinstance(v, tuple):
                self.err(f"{name}: String assigned to a scalar")
            return go({**env, name: self.convert(v, ty)})
        return self.rvalue(init, env, got)

    def switch(self, st, env, K):
        _, sel, cases = st
        labels = []
        for lab, _ in cases:
            if lab is None:
                labels.append(None)
            else:
                t = self.rvalue(lab, {"#blocks": {}}, lambda x, env: x.text)
                if not re.fullmatch(r"\d+", t):
                    self.err("case label is not a literal")
                labels.append(t)
        if len(set(labels)) != len(labels):
            self.err("duplicate case labels")
        Ks = dict(K)
        Ks["brk"] = K["next"]

        def entry(j, env):
            """statements from case j to the end of the switch (fall-through)"""
            body = []
            for _, ss in cases[j:]:
                body += ss
            return self.seq(body, env, Ks)

        def got(s, env):
            if isinstance(s, tuple):
                self.err("switch on a String")
            self.byte_of(s)
            order = [j for j, l in enumerate(labels) if l is not None]
            dflt = [j for j, l in enumerate(labels) if l is None]
            text = entry(dflt[0], env) if dflt else K["next"](env)
            for j in reversed(order):
                text = f"if {s.text} = {labels[j]} then\n{ind(entry(j, env))}\nelse\n{ind(text)}" if False else \
                    f"if {s.text} = {labels[j]} then\n{ind(entry(j, env))}\nelse {text}" if text.startswith("if ") else \
                    f"if {s.text} = {labels[j]} then\n{ind(entry(j, env))}\nelse\n{ind(text)}"
            return text
        return self.rvalue(sel, env, got)

    def assigned(self, node, acc):
        """names assigned / incremented anywhere inside a statement or expression (syntactic)"""
        if isinstance(node, (list, tuple)):
            if node and node[0] == "assign" and node[2][0] == "var":
                acc.add(node[2][1])
            if node and node[0] in ("postinc", "preinc") and node[2][0] == "var":
                acc.add(node[2][1])
            if node and node[0] == "method" and node[1][0] == "var":
                acc.add(node[1][1])
            if node and node[0] == "call":
                for a in node[2]:
                    if a[0] == "var":
                        acc.add(a[1])           # a String& argument may be modified
            if node and node[0] == "assign" and node[2][0] in ("index", "un"):
                acc.add("#store")
            for x in node:
                self.assigned(x, acc)
        return acc

    def loop(self, st, env, K):
        _, init, cond, incs, body = st
        outer = set(env)
        self.fuel_used = True

        def after_init(env):
            mutated = self.assigned([cond, incs, body], set())
            if "#store" in mutated:
                for b in env["#blocks"].values():
                    if b["kind"] == "out":
                        mutated.add(b["var"])
            lname = f"{self.name}_loop{len(self.loops) + 1}"
            # candidate parameters: every scalar / string variable of the environment (tables are global constants);
            # a variable the loop does not modify and whose value is a literal is inlined
            names = [n for n in env if not n.startswith("#") and not (isinstance(env[n], tuple) and env[n][0] == "table")]
            inline = {n for n in names if isinstance(env[n], Val) and n not in mutated and re.fullmatch(r"\d+", env[n].text)}
            names = [n for n in names if n not in inline]
            inner = {"#blocks": env["#blocks"]}
            for n in env:
                if (isinstance(env[n], tuple) and env[n][0] == "table") or n in inline:
                    inner[n] = env[n]
            kinds = {}
            for n in names:
                v = env[n]
                ln = self.unit.lean_ident(n)
                if isinstance(v, tuple):
                    kinds[n] = "List Nat"
                    inner[n] = ("string", ln, v[2])
                elif v.ty == "bool":
                    kinds[n] = "Bool"
                    inner[n] = Val(ln, "bool")
                else:
                    kinds[n] = "Nat"
                    inner[n] = Val(ln, v.ty, None if n in mutated else v.ub)
            calls = []

            def recur(env2):
                calls.append({n: par(env2[n][1] if isinstance(env2[n], tuple) else env2[n].text) for n in names})
                return f"⟪{len(calls) - 1}⟫"

            def leave(env2):
                return K["next"]({n: v for n, v in env2.items() if n in outer or n.startswith("#")})

            def do_inc(env2):
                def run(j, env3):
                    if j == len(incs):
                        return recur(env3)
                    return self.rvalue(incs[j], env3, lambda v, env4: run(j + 1, env4))
                return run(0, env2)
            Kb = {"next": do_inc, "brk": leave, "cont": do_inc}

            def with_cond(c, env2):
                b = self.stmt(body, env2, Kb)
                return f"if {c} then\n{ind(b)}\nelse\n{ind(leave(env2))}"
            inner_text = self.cond(cond, inner, with_cond) if cond is not None else self.stmt(body, inner, Kb)

            # parameters actually needed (dead / unused variables are dropped), in the order of their first use in the text:
            # the signature does not depend on declaration order or on variables that are only written
            def pos(n, text):
                m = re.search(r"(?<![\w.])" + re.escape(self.unit.lean_ident(n)) + r"(?!\w)", text)
                return m.start() if m else None
            needed = {n for n in names if pos(n, inner_text) is not None}
            grown = True
            while grown:
                grown = False
                for c in calls:
                    for q in list(needed):
                        for n in names:
                            if n not in needed and pos(n, c[q]) is not None:
                                needed.add(n)
                                grown = True
            order = sorted([n for n in names if n in needed and pos(n, inner_text) is not None], key=lambda n: pos(n, inner_text))
            order += [n for n in names if n in needed and n not in order]
            for j, c in enumerate(calls):
                inner_text = inner_text.replace(f"⟪{j}⟫", f"{lname} {self.ctx_args()}fuel {' '.join(c[n] for n in order)}".rstrip())
            hdr = self.ctx_params()
            self.loops.append(
                f"def {lname} {hdr}: Nat → {' → '.join([kinds[n] for n in order] + [self.lean_ret()])}\n"
                f"  | 0{', _' * len(order)} => .oob\n"
                f"  | fuel + 1{''.join(', ' + self.unit.lean_ident(n) for n in order)} =>\n{ind(inner_text, 2)}\n")
            args = [par(env[n][1] if isinstance(env[n], tuple) else env[n].text) for n in order]
            return f"{lname} {self.ctx_args()}fuel {' '.join(args)}".rstrip()

        if init is None:
            return after_init(env)
        if init[0] == "decl":
            K2 = {"next": after_init, "brk": None, "cont": None}
            return self.decl(init[1], env, K2)
        return self.rvalue(init[1], env, lambda v, env: after_init(env))

    # ---- function ----
    def lean_ret(self):
        base = {"string": "(List Nat)", "bool": "Bool", "void": "Unit"}.get(self.ret, "Nat")
        if self.refs:
            return f"Res ({base} × List Nat)" if self.ret != "void" else "Res (List Nat)"
        return f"Res {base}"

    def ctx_params(self):
        """the memory blocks behind pointer parameters: fixed context of the loop functions"""
        return "".join(f"({n}_mem : List Nat) ({n}_lim : Nat) " for t, n in self.params if isinstance(t, tuple) and t[0] == "ptr")

    def ctx_args(self):
        return "".join(f"{n}_mem {n}_lim " for t, n in self.params if isinstance(t, tuple) and t[0] == "ptr")

    def compile(self):
        env = {"#blocks": {}}
        ps = []
        self.const_strings = set()
        for ty, n in self.params:
            ln = self.unit.lean_ident(n)
            if isinstance(ty, tuple) and ty[0] == "ptr":
                ps.append(f"({n}_mem : List Nat) ({n}_lim : Nat) ({ln} : Nat)")
                env["#blocks"][n] = {"kind": "in", "mem": f"{n}_mem", "lim": f"{n}_lim"}
                env[n] = Val(ln, ("ptr", ty[1], n))
            elif ty in (("ref", "string"), ("cref", "string")):
                ps.append(f"({ln} : List Nat)")
                env[n] = ("string", ln, "value")
                if ty[0] == "cref":
                    self.const_strings.add(n)
            elif ty in WIDTH:
                ps.append(f"({ln} : Nat)")
                env[n] = Val(ln, ty, None)
            else:
                self.err(f"parameter {n}: type not translated")
        K = {"next": lambda env: self.ret_text(None, env) if self.ret == "void" else self.err("control reaches the end of a non-void function"),
             "brk": None, "cont": None}
        body = self.seq(self.stmts, env, K)
        fuel = "(fuel : Nat) " if self.fuel_used else ""
        text = "".join(self.tables) + "".join(self.loops)
        text += f"def {self.name} {fuel}{' '.join(ps)} : {self.lean_ret()} :=\n{ind(body)}\n"
        return text, bool(fuel)


class BodyUnit:
    """the functions of one generated file; `sigs` maps (C name, arity) -> (Lean name, params, return type)"""
    RESERVED = {"end", "in", "at", "from", "fun", "open", "do", "then", "else", "if", "let", "have", "show", "by", "match", "with", "out"}

    def __init__(self):
        self.sigs, self.needs_fuel, self.out = {}, {}, []
        self.helpers = {}          # name -> ([(type, name)], return type, parsed EXPR) of pure one-line helpers

    def add_helpers(self, src, exclude):
        for m in re.finditer(r"static\s+(?P<ret>[\w\s]+?)\b(?P<name>\w+)\s*\((?P<params>[^()]*)\)\s*\{\s*return\s+(?P<e>[^;{}]*);\s*\}", strip_comments(src)):
            name = m.group("name")
            if name in exclude:
                continue
            try:
                rp = CParser(ctokens(m.group("ret"), name), name)
                ret = rp.base_type()
                pp = CParser(ctokens(m.group("params"), name), name)
                params = []
                while pp.peek() is not None:
                    ty = pp.declarator_type(pp.base_type())
                    params.append((ty, pp.eat()))
                    if pp.peek() == ",":
                        pp.eat()
                ep = CParser(ctokens(m.group("e"), name), name)
                e = ep.expr()
                if ep.peek() is not None or ret not in WIDTH:
                    continue
            except TranslateError:
                continue                   # not a helper of the subset: a call of it will be refused
            self.helpers[name] = (params, ret, e)

    def lean_ident(self, n):
        return n + "_" if n in self.RESERVED else n

    def add(self, src, header_rx, cname, lean, ret, what, defines=(), tchar_bits=8):
        params, stmts = parse_function(src, header_rx, what, defines)
        fc = FnCompiler(self, lean, params, stmts, ret, what, tchar_bits)
        if len(fc.refs) > 1:
            raise TranslateError(f"{what}: more than one String& parameter")
        text, fuel = fc.compile()
        self.sigs[(cname, len(params))] = (lean, params, ret)
        self.needs_fuel[lean] = fuel
        self.out.append(f"/-- {what} -/\n" + text + "\n")


def generate_body(repo):
    usrc = (Path(repo) / "include" / "nstd" / "Unicode.hpp").read_text(errors="replace")
    ssrc = (Path(repo) / "src" / "String.cpp").read_text(errors="replace")
    u = BodyUnit()
    u.add_helpers(usrc, exclude=("append", "toString", "length", "fromString", "isValid"))
    u.add(usrc, r"static\s+bool\s+append\s*\((?P<params>\s*uint32\s+\w+\s*,\s*String\s*&\s*\w+\s*)\)\s*\{", "append", "append", "bool",
          "Unicode::append(uint32, String&), UTF-8 branch (#else of #ifdef _UNICODE)")
    u.add(usrc, r"static\s+bool\s+append\s*\((?P<params>\s*uint32\s+\w+\s*,\s*String\s*&\s*\w+\s*)\)\s*\{", "append#utf16", "append_utf16", "bool",
          "Unicode::append(uint32, String&), UTF-16 branch (#ifdef _UNICODE; tchar = 16 bits; not compiled on this platform)",
          defines=("_UNICODE",), tchar_bits=16)
    u.add(usrc, r"static\s+bool\s+append\s*\((?P<params>\s*const\s+uint32\s*\*\s*\w+\s*,\s*usize\s+\w+\s*,\s*String\s*&\s*\w+\s*)\)\s*\{", "append", "appendArr", "bool",
          "Unicode::append(const uint32*, usize, String&)")
    u.add(usrc, r"static\s+String\s+toString\s*\((?P<params>\s*uint32\s+\w+\s*)\)\s*\{", "toString", "toString", "string", "Unicode::toString(uint32)")
    u.add(usrc, r"static\s+String\s+toString\s*\((?P<params>\s*const\s+uint32\s*\*\s*\w+\s*,\s*usize\s+\w+\s*)\)\s*\{", "toString", "toStringArr", "string",
          "Unicode::toString(const uint32*, usize)")
    u.add(usrc, r"static\s+usize\s+length\s*\((?P<params>\s*char\s+\w+\s*)\)\s*\{", "length", "length", "u64", "Unicode::length(char)")
    u.add(usrc, r"static\s+uint32\s+fromString\s*\((?P<params>\s*const\s+char\s*\*\s*\w+\s*,\s*usize\s+\w+\s*)\)\s*\{", "fromString", "fromString", "u32",
          "Unicode::fromString(const char*, usize)")
    u.add(usrc, r"static\s+uint32\s+fromString\s*\((?P<params>\s*const\s+String\s*&\s*\w+\s*)\)\s*\{", "fromString", "fromStringS", "u32",
          "Unicode::fromString(const String&)")
    u.add(usrc, r"static\s+bool\s+isValid\s*\((?P<params>\s*const\s+char\s*\*\s*\w+\s*,\s*usize\s+\w+\s*)\)\s*\{", "isValid", "isValid", "bool",
          "Unicode::isValid(const char*, usize)")
    u.add(usrc, r"static\s+bool\s+isValid\s*\((?P<params>\s*const\s+String\s*&\s*\w+\s*)\)\s*\{", "isValid", "isValidS", "bool",
          "Unicode::isValid(const String&)")
    S = r"String\s+String::"
    u.add(ssrc, S + r"fromHex\s*\((?P<params>\s*const\s+byte\s*\*\s*\w+\s*,\s*usize\s+\w+\s*)\)\s*\{", "fromHex", "fromHex", "string", "String::fromHex(const byte*, usize)")
    u.add(ssrc, S + r"fromBase64\s*\((?P<params>\s*const\s+String\s*&\s*\w+\s*)\)\s*\{", "fromBase64", "fromBase64", "string", "String::fromBase64(const String&)")
    out = ["/- GENERATED by tools/gen_codec.py (body translator) from the current sources of the repo -- do not edit. -/\n",
           "import Nstd.Codec.Mem\nset_option linter.unusedVariables false\nnamespace Nstd.Generated.CodecBody\nopen Nstd.Codec\n\n"]
    out += u.out
    out.append("end Nstd.Generated.CodecBody\n")
    return "".join(out)



# ======================================================================================================
# PART 3 -- the one-line numeric wrappers of src/String.cpp (toInt ... toDouble, member and static; fromInt ... fromDouble):
# which libc function each one calls, with which arguments, and the conversion of its result to the declared return type
# (`lean/Nstd/Generated/CodecNum.lean`, over the libc DEFINITIONS of Nstd/Codec/Model.lean).  PropsBodyNum.lean proves
# each generated wrapper equal to the model's.  Any other shape of these functions is refused (broken tie).
# ======================================================================================================
NUM_OUT = VERIF / "lean" / "Nstd" / "Generated" / "CodecNum.lean"
LIBC_PARSE = {"atoi": ("atoi", "s32", False), "atol": ("strtol", "s64", False), "atoll": ("atoll", "s64", False),
              "strtol": ("strtol", "s64", True), "strtoll": ("strtoll", "s64", True),
              "strtoul": ("strtoul", "u64", True), "strtoull": ("strtoull", "u64", True)}
CRET = {"int": "s32", "uint": "u32", "int64": "s64", "uint64": "u64"}


def num_convert(expr, src, dst):
    if src == dst or (src, dst) == ("s32", "s64"):
        return expr
    if (src, dst) == ("u64", "u32"):
        return f"{expr} % 4294967296"
    if (src, dst) == ("s64", "s32"):
        return f"wrapInt32 ({expr})"
    if src[0] == "s" and dst[0] == "u":
        return f"(({expr}) % {2 ** int(dst[1:])}).toNat"
    if (src, dst) == ("u64", "s64"):
        return f"((({expr} : Nat) : Int) + 9223372036854775808) % 18446744073709551616 - 9223372036854775808"
    if (src, dst) == ("u64", "s32"):
        return f"wrapInt32 (({expr} : Nat) : Int)"
    raise TranslateError(f"numeric wrapper: conversion {src} -> {dst} is not translated")


def generate_num(repo):
    src = strip_comments((Path(repo) / "src" / "String.cpp").read_text(errors="replace"))
    out = ["/- GENERATED by tools/gen_codec.py (numeric wrappers) from the current src/String.cpp -- do not edit. -/\n",
           "import Nstd.Codec.Model\nnamespace Nstd.Generated.CodecNum\nopen Nstd.Codec\n\n"]
    CASTS = {"int": r"int", "uint": r"uint|unsigned(?:\s+int)?", "int64": r"int64|long\s+long|long", "uint64": r"uint64|unsigned\s+long\s+long|unsigned\s+long",
             "double": r"double"}

    def parser_call(name, rty, static):
        """(matched source text, libc function, has (.., 0, 10) arguments, base) of one parser; a member may forward to the static overload
        (one level); `ASSERT(..);` is skipped, `const T v = CALL; return (R)v;` is read as `return (R)CALL;`, a cast to the declared
        return type in front of the call is the conversion the translation applies anyway"""
        what = f"String::{name}({'const char*' if static else ''})"
        hdr = rty + r"\s+String::" + name + (r"\s*\(\s*const\s+char\s*\*\s*(?P<a>\w+)\s*\)\s*\{" if static else r"\s*\(\s*\)\s*const\s*\{")
        ms = list(re.finditer(hdr, src))
        if len(ms) != 1:
            raise TranslateError(f"{what}: {len(ms)} definitions found, expected exactly one")
        arg = re.escape(ms[0].group("a")) if static else r"(?:\(\s*const\s+char\s*\*\s*\)\s*)?\*\s*this"
        body = function_body(src, hdr, what)
        text = re.sub(r"\s+", " ", body).strip()
        norm = re.sub(r"\bASSERT\s*\((?:[^()]|\([^()]*\))*\)\s*;", "", text).strip()
        m = re.fullmatch(r"const\s+[\w\s]+?\b(\w+)\s*=\s*([^;]+);\s*return\s*(\(\s*[\w\s]+\))?\s*\1\s*;", norm)
        if m:
            norm = f"return {m.group(3) or ''}{m.group(2)};"
        cast = r"(?:\(\s*(?:" + CASTS[rty] + r")\s*\)\s*)?"
        if not static:
            fw = re.fullmatch(r"return\s+" + cast + name + r"\s*\(\s*" + arg + r"\s*\)\s*;", norm)
            if fw:
                t2, fn, rest, base = parser_call(name, rty, True)
                return f"{rty} String::{name}() const {{{text}}} -> {t2}", fn, rest, base
        m = re.fullmatch(r"return\s+" + cast + r"(?P<fn>\w+)\s*\(\s*" + arg + r"\s*(?P<rest>,\s*(?:0|NULL|nullptr)\s*(?:,\s*(?P<base>\d+)\s*)?)?\)\s*;", norm)
        if not m:
            raise TranslateError(f"{what}: body {text!r} is not of the form `[ASSERT(..);] return <libc function>(<text>[, 0, 10]);`")
        return f"{rty} String::{name}({'const char* ' + ms[0].group('a') if static else ''}) {{{text}}}", m.group("fn"), bool(m.group("rest")), m.group("base")

    for static in (False, True):
        for name, rty in (("toInt", "int"), ("toUInt", "uint"), ("toInt64", "int64"), ("toUInt64", "uint64"), ("toDouble", "double")):
            what = f"String::{name}({'const char*' if static else ''})"
            stext, fn, rest, base = parser_call(name, rty, static)
            lname = name + ("S" if static else "")
            doc = "/-- `" + stext.replace("-/", "- /") + "` -/\n"
            if rty == "double":
                if not ((fn == "atof" and not rest) or (fn == "strtod" and rest and base is None)):
                    raise TranslateError(f"{what}: call of {fn} is not translated")
                out.append(doc + f"def {lname} (strtod : List Nat → Dbl) (s : List Nat) : Dbl := strtod (cstr s)\n")
                continue
            if fn not in LIBC_PARSE:
                raise TranslateError(f"{what}: call of {fn} is not translated")
            lean_fn, fty, takes_base = LIBC_PARSE[fn]
            if takes_base != rest or (takes_base and base != "10"):
                raise TranslateError(f"{what}: arguments of {fn} must be (text{', 0, 10' if takes_base else ''})")
            dst = CRET[rty]
            out.append(doc + f"def {lname} (s : List Nat) : {'Int' if dst[0] == 's' else 'Nat'} := {num_convert(f'{lean_fn} (cstr s)', fty, dst)}\n")
    FMT = {("%d", "int"): ("fmtSigned v", "Int"), ("%u", "uint"): ("decDigits v", "Nat"), ("%lld", "int64"): ("fmtSigned v", "Int"),
           ("%llu", "uint64"): ("decDigits v", "Nat"), ("%f", "double"): ("fmtF v", "Dbl")}
    for name, cty in (("fromInt", "int"), ("fromUInt", "uint"), ("fromInt64", "int64"), ("fromUInt64", "uint64"), ("fromDouble", "double")):
        vcast = r"(?:\(\s*(?:" + CASTS[cty] + r")\s*\)\s*)?"
        call = r"(?P=r)\s*\.\s*printf\s*\(\s*\"(?P<fmt>%\w+)\"\s*,\s*" + vcast + r"(?P=v)\s*\)"
        rx = (r"String\s+String::" + name + r"\s*\(\s*" + cty + r"\s+(?P<v>\w+)\s*\)\s*\{\s*String\s+(?P<r>\w+)\s*;\s*"
              r"(?:" + call + r"|VERIFY\s*\(\s*" + call.replace("<fmt>", "<fmt2>") + r"\s*>=?\s*0\s*\))\s*;\s*return\s+(?P=r)\s*;\s*\}")
        ms = list(re.finditer(rx, src))
        if len(ms) != 1:
            raise TranslateError(f"String::{name}({cty}): expected `{{String r; r.printf(\"<conversion>\", value); return r;}}`, found {len(ms)} such definitions")
        key = (ms[0].group("fmt") or ms[0].group("fmt2"), cty)
        if key not in FMT:
            raise TranslateError(f"String::{name}: conversion {key[0]} for a value of type {cty} is not translated")
        text, lty = FMT[key]
        out.append(f"/-- `String r; r.printf(\"{key[0]}\", value); return r;` on the fresh String (capacity `printfCap`) -/\n"
                   f"def {name} (v : {lty}) : List Nat := printf printfCap ({text})\n")
    CTYPE = {"isalnum": "cIsAlnum", "isalpha": "cIsAlpha", "isdigit": "cIsDigit", "islower": "cIsLower", "isprint": "cIsPrint",
             "ispunct": "cIsPunct", "isupper": "cIsUpper", "isxdigit": "cIsXDigit"}
    out.append("\n/-! the `<cctype>` wrappers: `bool String::isX(char c) { return isx((uchar&)c) != 0; }` (the byte value is handed to libc) -/\n")
    for name in ("isAlphanumeric", "isAlpha", "isDigit", "isLowerCase", "isPrint", "isPunct", "isUpperCase", "isHexDigit"):
        rx = (r"bool\s+String::" + name + r"\s*\(\s*char\s+(?P<c>\w+)\s*\)\s*\{\s*return\s+(?P<fn>\w+)\s*\(\s*"
              r"(?:\(\s*(?:uchar|unsigned\s+char)\s*&?\s*\)\s*(?P=c))\s*\)\s*!=\s*0\s*;\s*\}")
        ms = list(re.finditer(rx, src))
        if len(ms) != 1:
            raise TranslateError(f"String::{name}(char): expected `{{ return <cctype function>((uchar&)c) != 0; }}`, found {len(ms)} such definitions")
        fn = ms[0].group("fn")
        if fn not in CTYPE:
            raise TranslateError(f"String::{name}: call of {fn} is not translated")
        out.append("/-- `" + re.sub(r"\s+", " ", ms[0].group(0)) + "` -/\n" + f"def {name} (b : Nat) : Bool := {CTYPE[fn]} b\n")
    out.append("\nend Nstd.Generated.CodecNum\n")
    return "".join(out)



def generate(repo):
    _PROBE_CACHE.clear()
    out = ["/- GENERATED by tools/gen_codec.py from the current sources of the repo -- do not edit. -/\n",
           "import Nstd.Codec.Mem\nnamespace Nstd.Generated.Codec\nopen Nstd.Codec\n\n"]
    translate_string(repo, out)
    translate_unicode(repo, out)
    out.append("\nend Nstd.Generated.Codec\n")
    return "".join(out)


def gen(ctx=None, repo=None):
    """translator entry used by the check: returns (ok, message)"""
    if repo is None:
        repo = Path(os.environ.get("NSTD_REPO", "/repo"))
    try:
        text = generate(Path(repo))
        btext = generate_body(Path(repo))
        ntext = generate_num(Path(repo))
    except (TranslateError, OSError, RecursionError) as ex:
        return False, f"gen_codec: {ex}"
    OUT.parent.mkdir(parents=True, exist_ok=True)
    for path, t in ((OUT, text), (BODY_OUT, btext), (NUM_OUT, ntext)):
        if not path.exists() or path.read_text() != t:
            path.write_text(t)
    return True, str(OUT)


if __name__ == "__main__":
    ok, msg = gen()
    print(msg)
    sys.exit(0 if ok else 1)
