#!/usr/bin/env python3
"""Translator of the Codec area (property C18).

Regenerates `lean/Nstd/Generated/CodecTables.lean` from the CURRENT sources of the repo
(`NSTD_REPO`, default /repo): everything in the anchored code that is a table, a constant
or a side-effect-free expression:

  src/String.cpp       fromBase64: decode table `base64de`, the length mask, the guard
                       `if (<operand> > '<c>')` with the signedness of its operand, the
                       index expression of the table read, the invalid marker and the pad
                       character;  fromHex: the alphabet and both index expressions
  include/nstd/Unicode.hpp   `utf8Offsets`, `length(char)` (256 values by EXECUTING harness/codec_probe.cpp
                       built from the current sources), the range tests and byte expressions of the
                       UTF-8 branch of `append(uint32, String&)`, the first-byte test of `fromString`
  include/nstd/String.hpp + src/String.cpp   `String::isSpace(char)`, `toLowerCase(char)`, `toUpperCase(char)`
                       (= the case maps): 256 values each, by executing the same probe (which links
                       String.cpp and Memory.cpp of the current sources)

The theorems of Nstd/Codec are stated over these generated definitions, so they are
re-checked against what the code says now.  Anything that cannot be found is a broken tie
(the function returns (False, reason)).  The file is rewritten only when its content changes.
"""
import os
import re
import sys
from pathlib import Path

VERIF = Path(__file__).resolve().parents[1]
OUT = VERIF / "lean" / "Nstd" / "Generated" / "CodecTables.lean"

U64 = 18446744073709551615


class TranslateError(Exception):
    pass


def strip_comments(src):
    src = re.sub(r"/\*.*?\*/", " ", src, flags=re.S)
    src = re.sub(r"//[^\n]*", "", src)
    return src


def need(m, what):
    if not m:
        raise TranslateError("cannot find " + what)
    return m


def function_body(src, header_rx, what):
    """text between the braces of the first function whose header matches"""
    m = need(re.search(header_rx, src), what)
    i = src.index("{", m.end() - 1)
    depth, j = 0, i
    while j < len(src):
        if src[j] == "{":
            depth += 1
        elif src[j] == "}":
            depth -= 1
            if depth == 0:
                return src[i + 1:j]
        j += 1
    raise TranslateError("unbalanced braces in " + what)


# ---- C expression -> Lean (Nat) -------------------------------------------------------------------
def cexpr(e, var_map):
    """Translate a side-effect-free C expression over unsigned operands into a Lean `Nat`
    expression.  Supported: identifiers in var_map, integer / character literals (suffixes
    U, L, UL, ULL), ( ), >> << & | ~ + -, and the value-preserving casts (uint32), (tchar) is
    refused, (char) handled by the caller.  `~x` is the 64-bit complement (operands are
    `unsigned long` after the usual arithmetic conversions on LP64): 2^64-1 - x."""
    toks = re.findall(r"0[xX][0-9a-fA-F]+[uUlL]*|\d+[uUlL]*|'(?:\\.|[^'])'|[A-Za-z_]\w*|>>|<<|[()~&|+\-*]", e)
    if "".join(toks).replace(" ", "") != re.sub(r"\s+", "", e):
        raise TranslateError(f"untranslatable expression: {e!r}")
    pos = [0]

    def peek():
        return toks[pos[0]] if pos[0] < len(toks) else None

    def eat(t=None):
        if pos[0] >= len(toks):
            raise TranslateError(f"unexpected end of expression: {e!r}")
        x = toks[pos[0]]
        if t is not None and x != t:
            raise TranslateError(f"expected {t} got {x} in {e!r}")
        pos[0] += 1
        return x

    def lit(t):
        if t.startswith("'"):
            body = t[1:-1]
            esc = {"\\0": 0, "\\n": 10, "\\t": 9, "\\r": 13, "\\\\": 92, "\\'": 39}
            return str(esc[body] if body in esc else ord(body))
        t = re.sub(r"[uUlL]+$", "", t)
        return str(int(t, 16)) if t.lower().startswith("0x") else str(int(t, 10))

    def prim():
        t = eat()
        if t == "(":
            # cast?
            if peek() in ("uint32", "uint", "usize", "uint64") and toks[pos[0] + 1] == ")":
                eat(); eat(")")
                return unary()
            r = bor()
            eat(")")
            return "(" + r + ")"
        if re.match(r"\d|'", t):
            return lit(t)
        if t in var_map:
            return var_map[t]
        raise TranslateError(f"unknown identifier {t} in {e!r}")

    def unary():
        if peek() == "~":
            eat()
            return f"({U64} - {unary()})"
        if peek() == "*":           # `*src`
            eat()
            t = eat()
            if ("*" + t) in var_map:
                return var_map["*" + t]
            raise TranslateError(f"unknown dereference *{t} in {e!r}")
        return prim()

    def add():
        l = unary()
        while peek() in ("+", "-"):
            o = eat()
            l = f"({l} {o} {unary()})"
        return l

    def shift():
        l = add()
        while peek() in (">>", "<<"):
            o = eat()
            l = f"({l} {'>>>' if o == '>>' else '<<<'} {add()})"
        return l

    def band():
        l = shift()
        while peek() == "&":
            eat()
            l = f"({l} &&& {shift()})"
        return l

    def bor():
        l = band()
        while peek() == "|":
            eat()
            l = f"({l} ||| {band()})"
        return l

    r = bor()
    if pos[0] != len(toks):
        raise TranslateError(f"trailing tokens in {e!r}")
    return r


def char_operand(expr, what):
    """`in[i]` read through `const char*` is a SIGNED char on this target; with the cast
    `(unsigned char)` it is the byte value.  Returns the Lean Int expression over byte `b`."""
    e = re.sub(r"\s+", "", expr)
    if e in ("(unsignedchar)in[i]", "(uchar)in[i]", "(byte)in[i]"):
        return "(b : Int)", "unsigned"
    if e == "in[i]":
        return "(if b < 128 then (b : Int) else (b : Int) - 256)", "signed"
    raise TranslateError(f"{what}: unexpected operand {expr!r}")



def reserve_expr(e):
    """`E` of result.reserve(E): integer arithmetic over `inlen` (+ - * / and literals)"""
    toks = re.findall(r"0[xX][0-9a-fA-F]+[uUlL]*|\d+[uUlL]*|[A-Za-z_]\w*|[()+\-*/]", e)
    if "".join(toks) != re.sub(r"\s+", "", e):
        raise TranslateError(f"fromBase64 reserve: untranslatable expression {e!r}")
    res = []
    for t in toks:
        if re.match(r"\d", t):
            t = re.sub(r"[uUlL]+$", "", t)
            res.append(str(int(t, 0)))
        elif t == "inlen" or t in "()+-*/":
            res.append(t)
        else:
            raise TranslateError(f"fromBase64 reserve: unknown identifier {t} in {e!r}")
    return " ".join(res)


def split_statements(text):
    """statements of a block: ('if', cond, [stmts]) | ('simple', text)"""
    pos = [0]
    n = len(text)

    def ws():
        while pos[0] < n and text[pos[0]].isspace():
            pos[0] += 1

    def balanced(open_, close):
        depth, i = 0, pos[0]
        while i < n:
            if text[i] == open_:
                depth += 1
            elif text[i] == close:
                depth -= 1
                if depth == 0:
                    r = text[pos[0] + 1:i]
                    pos[0] = i + 1
                    return r
            i += 1
        raise TranslateError("fromBase64 loop: unbalanced brackets")

    def stmt():
        ws()
        if text.startswith("{", pos[0]):
            inner = balanced("{", "}")
            return ("block", split_statements(inner))
        m = re.match(r"if\s*\(", text[pos[0]:])
        if m:
            pos[0] += m.end() - 1
            cond = balanced("(", ")")
            body = stmt()
            ws()
            if re.match(r"else\b", text[pos[0]:]):
                raise TranslateError("fromBase64 loop: `else` in the per-byte tests is not translated")
            return ("if", cond.strip(), body[1] if body[0] == "block" else [body])
        k = text.find(";", pos[0])
        if k < 0:
            raise TranslateError(f"fromBase64 loop: statement without `;` near {text[pos[0]:pos[0] + 30]!r}")
        r = text[pos[0]:k].strip()
        pos[0] = k + 1
        return ("simple", r)

    res = []
    while True:
        ws()
        if pos[0] >= n:
            return res
        res.append(stmt())


def b64_preamble(pre, iv):
    """Lean text of `b64Byte`: the statements between the loop head and the switch, interpreted in order.
    Byte operands: `in[i]` (signed char), `(unsigned char)in[i]` (byte value) or a local bound to one of them."""
    byte_rx = r"(?:\(\s*(?:unsigned\s+char|uchar|byte)\s*\)\s*)?in\s*\[\s*" + iv + r"\s*\]"
    env = {}

    def operand(e, what):
        e = e.strip()
        if e in env:
            return env[e]
        if re.fullmatch(byte_rx, e):
            unsigned = e.replace(" ", "").startswith("(")
            return "(b : Int)" if unsigned else "(if b < 128 then (b : Int) else (b : Int) - 256)"
        raise TranslateError(f"fromBase64 {what}: unexpected operand {e!r}")

    def cond(c):
        m = need(re.fullmatch(r"(.+?)\s*(==|!=|>=|<=|>|<)\s*('(?:\\\\.|[^'])'|0[xX][0-9a-fA-F]+|\d+)", c.strip(), re.S), f"fromBase64 per-byte test {c!r}")
        rel = {"==": "=", "!=": "≠", ">=": "≥", "<=": "≤", ">": ">", "<": "<"}[m.group(2)]
        return f"decide ({operand(m.group(1), 'test')} {rel} {cexpr(m.group(3), {})})"

    def seq(stmts, k, ind):
        """Lean term for the statement list followed by continuation text k (None = falls out of the preamble)"""
        if not stmts:
            return k
        st, rest = stmts[0], stmts[1:]
        pad = "  " * ind
        if st[0] == "block":
            return seq(list(st[1]) + rest, k, ind)
        if st[0] == "if":
            thn = seq(list(st[2]), seq(rest, k, ind + 1), ind + 1)
            els = seq(rest, k, ind + 1)
            return f"if {cond(st[1])} then\n{pad}  {thn}\n{pad}else\n{pad}  {els}"
        t = st[1]
        if t == "break":
            return ".ok .stop"
        if re.fullmatch(r"return\s+String\s*\(\s*\)", t):
            return ".ok .reject"
        m = re.fullmatch(r"(?:const\s+)?(?:unsigned\s+char|uchar|char|byte)\s+(\w+)\s*=\s*(.+)", t, re.S)
        tr = re.fullmatch(r"(?:(?:const\s+)?(?:unsigned\s+char|uchar|byte)\s+)?(\w+)\s*=\s*base64de\s*\[(.+)\]", t, re.S)
        if tr:
            name = tr.group(1)
            idx = operand(tr.group(2), "table index")
            env[name] = f"({name} : Int)"
            inner = seq(rest, k, ind + 1)
            return f"(rdTable base64de {idx}).bind fun {name} =>\n{pad}  {inner}"
        if m:
            name, e = m.group(1), m.group(2)
            if re.match(r"unsigned|uchar|byte", t.replace("const", "").strip()):
                # an unsigned local holds the byte value whatever the signedness of the initialiser
                operand(e, "local")
                env[name] = "(b : Int)"
            else:
                env[name] = operand(e, "local")
            return seq(rest, k, ind)
        raise TranslateError(f"fromBase64 loop: statement {t!r} in front of the switch is not translated")

    stmts = split_statements(pre)
    # the symbol value handed to the switch must be the table value `c`
    if not re.search(r"\bc\s*=\s*base64de\s*\[", pre):
        raise TranslateError("fromBase64 loop: no table read `c = base64de[..]` in front of the switch")
    return "  " + seq(stmts, ".ok (.val c)", 1)


# ---- String.cpp -------------------------------------------------------------------------------------
def translate_string(repo, out):
    src = (repo / "src" / "String.cpp").read_text(errors="replace")
    body = function_body(src, r"String\s+String::fromBase64\s*\([^)]*\)\s*\{", "String::fromBase64")
    tbl = need(re.search(r"base64de\s*\[\s*\]\s*=\s*\{(.*?)\}\s*;", body, re.S), "base64de table").group(1)
    vals = [int(x) for x in re.findall(r"\b\d+\b", strip_comments(tbl))]
    if not vals:
        raise TranslateError("base64de table is empty")
    code = strip_comments(body)
    out.append("/-! src/String.cpp : String::fromBase64 -/\n")
    out.append(f"/-- `base64de[]` ({len(vals)} entries) -/\ndef base64de : List Nat :=\n  {vals}\n")

    # length test: `if (inlen & M) return String();`  or  `if (inlen % K) ...` / `if (inlen % K != 0) ...`
    lt = need(re.search(r"if\s*\(\s*\(?\s*inlen\s*(&|%)\s*(0x[0-9a-fA-F]+|\d+)\s*\)?\s*(?:!=\s*0\s*)?\)\s*return\s+String\(\)", code),
              "fromBase64 length test `if (inlen & m) return String()`")
    lop = "&&&" if lt.group(1) == "&" else "%"
    out.append(f"/-- `if (inlen {lt.group(1)} {lt.group(2)}) return String();` -/\n"
               f"def b64LenRejects (inlen : Nat) : Bool := decide (inlen {lop} {cexpr(lt.group(2), {})} ≠ 0)\n")

    # capacity request for the result: `result.reserve(E)` with E over inlen / data.length()
    rv = need(re.search(r"result\s*\.\s*reserve\s*\(((?:[^()]|\([^()]*\))*)\)\s*;", code), "fromBase64 `result.reserve(E)`").group(1)
    rv = re.sub(r"data\s*\.\s*length\s*\(\s*\)", "inlen", rv)
    out.append(f"/-- `result.reserve(E)`: number of bytes the output buffer is guaranteed to hold -/\n"
               f"def b64Reserve (inlen : Nat) : Nat := {reserve_expr(rv)}\n")

    # the loop: index variable, preamble (per-byte tests in SOURCE ORDER), switch
    fo = need(re.search(r"for\s*\(([^;]*);\s*(\w+)\s*<\s*inlen\s*;\s*\+\+\s*(\w+)\s*\)\s*\{", code), "fromBase64 loop `for (..; i < inlen; ++i)`")
    iv = fo.group(2)
    if fo.group(3) != iv:
        raise TranslateError("fromBase64 loop: compared and incremented variables differ")
    swm = need(re.search(r"switch\s*\(\s*" + iv + r"\s*&\s*(0x[0-9a-fA-F]+|\d+)\s*\)\s*\{(.*?)\}\s*\}", code[fo.end():], re.S),
               f"fromBase64 `switch ({iv} & m)`")
    pre = code[fo.end():fo.end() + swm.start()]
    out.append("/-- the per-byte tests in front of the switch, in source order: `break` = stop, `return String()` = reject,\n"
               "    reaching the switch = val c; the table read is a checked read with the C index (an `Int`) -/\n"
               "def b64Byte (b : Nat) : Res B64Sym :=\n" + b64_preamble(pre, iv) + "\n")

    out.append(f"/-- selector of `switch ({iv} & m)` -/\ndef b64Phase (i : Nat) : Nat := i &&& {cexpr(swm.group(1), {})}\n")
    cases = re.findall(r"case\s+(\d+)\s*:(.*?)break\s*;", swm.group(2), re.S)
    shape = {"0": ["set"], "1": ["or++", "set"], "2": ["or++", "set"], "3": ["or++"]}
    if [c for c, _ in cases] != ["0", "1", "2", "3"]:
        raise TranslateError(f"fromBase64 switch: expected cases 0,1,2,3, found {[c for c, _ in cases]}")
    jv = None
    for c, cbody in cases:
        stmts = [x.strip() for x in cbody.split(";") if x.strip()]
        got = []
        for st in stmts:
            m1 = re.match(r"out\s*\[\s*(\w+)\s*\]\s*=\s*(.*)$", st, re.S)
            m2 = re.match(r"out\s*\[\s*(\w+)\s*\+\+\s*\]\s*\|=\s*(.*)$", st, re.S)
            m = m1 or m2
            if not m:
                raise TranslateError(f"fromBase64 switch case {c}: unexpected statement {st!r}")
            if jv is None:
                jv = m.group(1)
            if m.group(1) != jv:
                raise TranslateError(f"fromBase64 switch: two different output indices {jv}, {m.group(1)}")
            got.append(("set" if m1 else "or++", m.group(2)))
        if [k for k, _ in got] != shape[c]:
            raise TranslateError(f"fromBase64 switch case {c}: expected statements {shape[c]}, found {[k for k, _ in got]}")
        for k, e in got:
            name = f"b64Or{c}" if k == "or++" else f"b64Set{c}"
            what = f"`out[j++] |= E;` of case {c}" if k == "or++" else f"`out[j] = E;` of case {c}"
            out.append(f"/-- {what}, for the symbol value `c` -/\ndef {name} (c : Nat) : Nat := {cexpr(e, {'c': 'c'})}\n")
    need(re.search(r"result\s*\.\s*resize\s*\(\s*" + (jv or "j") + r"\s*\)\s*;", code), f"fromBase64 `result.resize({jv})`")

    hbody = strip_comments(function_body(src, r"String\s+String::fromHex\s*\([^)]*\)\s*\{", "String::fromHex"))
    alpha = need(re.search(r'const\s+char\s*\*\s*hex\s*=\s*"([^"\\]*)"\s*;', hbody), "fromHex alphabet").group(1)
    hi = need(re.search(r"dest\s*\[\s*0\s*\]\s*=\s*hex\s*\[(.*?)\]\s*;", hbody), "fromHex dest[0]").group(1)
    lo = need(re.search(r"dest\s*\[\s*1\s*\]\s*=\s*hex\s*\[(.*?)\]\s*;", hbody), "fromHex dest[1]").group(1)
    need(re.search(r"result\s*\.\s*resize\s*\(\s*size\s*\*\s*2\s*\)", hbody), "fromHex result.resize(size * 2)")
    out.append("\n/-! src/String.cpp : String::fromHex -/\n")
    out.append(f"def hexAlphabet : List Nat := {[ord(c) for c in alpha]}  -- \"{alpha}\"\n")
    out.append(f"/-- index of `dest[0] = hex[..]` for the source byte `b` -/\ndef hexHi (b : Nat) : Nat := {cexpr(hi, {'*src': 'b'})}\n")
    out.append(f"/-- index of `dest[1] = hex[..]` for the source byte `b` -/\ndef hexLo (b : Nat) : Nat := {cexpr(lo, {'*src': 'b'})}\n")


# ---- Unicode.hpp --------------------------------------------------------------------------------------
def translate_unicode(repo, out):
    src = (repo / "include" / "nstd" / "Unicode.hpp").read_text(errors="replace")
    out.append("\n/-! include/nstd/Unicode.hpp -/\n")
    offs = need(re.search(r"utf8Offsets\s*\[\s*\]\s*=\s*\{(.*?)\}", src, re.S), "utf8Offsets").group(1)
    ovals = [cexpr(x.strip(), {}) for x in strip_comments(offs).split(",") if x.strip()]
    out.append(f"def utf8Offsets : List Nat := [{', '.join(ovals)}]\n")

    # length(char ch): a pure function of one byte -> its 256 values, obtained by EXECUTING the current source
    probe = run_probe(repo)
    table = probe["length"]
    out.append("/-- `Unicode::length((char)b)` for b = 0..255, printed by harness/codec_probe.cpp built from the current sources -/\n"
               f"def utf8LengthTable : List Nat :=\n  {table}\n")
    out.append("/-- `Unicode::length(char ch)`; a byte is its value modulo 256, the table has 256 entries -/\n"
               "def utf8Length (b : Nat) : Nat := utf8LengthTable.getD (b % 256) 0\n")
    out.append("\n/-! include/nstd/String.hpp + the case maps of src/String.cpp, by execution of the probe -/\n"
               "/-- `String::isSpace((char)b)` for b = 0..255 (1 = true) -/\n"
               f"def strIsSpaceTable : List Nat :=\n  {probe['isspace']}\n"
               "/-- `(uchar)String::toLowerCase((char)b)` = `lowerCaseMap[(uchar&)c]` for b = 0..255 -/\n"
               f"def lowerCaseMap : List Nat :=\n  {probe['lower']}\n"
               "/-- `(uchar)String::toUpperCase((char)b)` = `upperCaseMap[(uchar&)c]` for b = 0..255 -/\n"
               f"def upperCaseMap : List Nat :=\n  {probe['upper']}\n")

    # fromString first-byte test: `(*(const uchar*)ch & M) == 0`  or  `*(const uchar*)ch < P`
    fbody = strip_comments(function_body(src, r"static\s+uint32\s+fromString\s*\(\s*const\s+char\s*\*\s*ch\s*,\s*usize\s+len\s*\)\s*\{", "Unicode::fromString(const char*, usize)"))
    fb = r"\*\s*\(\s*const\s+uchar\s*\*\s*\)\s*ch"
    m1 = re.search(r"if\s*\(\s*\(\s*" + fb + r"\s*&\s*(0x[0-9a-fA-F]+|\d+)\s*\)\s*==\s*0\s*\)\s*return\s+" + fb, fbody)
    m2 = re.search(r"if\s*\(\s*" + fb + r"\s*(<=|<)\s*(0x[0-9a-fA-F]+|\d+)\s*\)\s*return\s+" + fb, fbody)
    if m1:
        test = f"decide (b &&& {int(m1.group(1), 0)} = 0)"
    elif m2:
        test = f"decide (b {'≤' if m2.group(1) == '<=' else '<'} {int(m2.group(2), 0)})"
    else:
        raise TranslateError("cannot find fromString: `if(<first byte test>) return *(const uchar*)ch;`")
    out.append(f"/-- `fromString`: the test of the single-byte fast path on the first byte `b` (read as uchar) -/\ndef utf8IsAscii (b : Nat) : Bool := {test}\n")

    # isValid(const char* ch, usize len): the continuation-byte tests of the switch(minLen)
    vbody = strip_comments(function_body(src, r"static\s+bool\s+isValid\s*\(\s*const\s+char\s*\*\s*ch\s*,\s*usize\s+len\s*\)\s*\{", "Unicode::isValid(const char*, usize)"))
    vcases = re.findall(r"case\s+(\d+)\s*:(.*?)break\s*;", vbody, re.S)
    want = {"4": 3, "3": 2, "2": 1}
    seen = {}
    for c, body in vcases:
        if c == "1":
            if body.strip():
                raise TranslateError("Unicode::isValid: case 1 is expected to be empty")
            continue
        m = need(re.match(r"\s*if\s*\((.*)\)\s*return\s+false\s*;\s*$", body, re.S), f"Unicode::isValid case {c}: `if(<test>) return false;`")
        e = m.group(1)
        e = re.sub(r"\(\s*\(\s*const\s+uchar\s*\*\s*\)\s*ch\s*\)\s*\[\s*(\d)\s*\]", r"b\1", e)
        e = re.sub(r"\bch\s*\[\s*(\d)\s*\]", r"b\1", e)       # `ch[1] & M` with M <= 0xff: byte value
        mm = need(re.match(r"^(.*)!=\s*(0x[0-9a-fA-F]+[uUlL]*|\d+[uUlL]*)\s*$", e.strip(), re.S), f"Unicode::isValid case {c}: `<expr> != <literal>`")
        n = want.get(c)
        if n is None:
            raise TranslateError(f"Unicode::isValid: unexpected case {c}")
        vm = {f"b{k}": f"b{k}" for k in range(1, n + 1)}
        lhs = cexpr(mm.group(1).strip(), vm)
        for k in range(1, n + 1):
            if not re.search(rf"\bb{k}\b", lhs):
                raise TranslateError(f"Unicode::isValid case {c}: byte {k} is not tested")
        seen[c] = f"def validBad{c} ({' '.join(f'b{k}' for k in range(1, n + 1))} : Nat) : Bool := decide ({lhs} ≠ {cexpr(mm.group(2), {})})\n"
    if sorted(seen) != ["2", "3", "4"]:
        raise TranslateError(f"Unicode::isValid: expected tests for cases 2,3,4, found {sorted(seen)}")
    need(re.search(r"default\s*:\s*return\s+false\s*;", vbody), "Unicode::isValid: `default: return false;`")
    out.append("/-! `Unicode::isValid`: the test `if(<test>) return false;` of case 2 / 3 / 4 over the bytes ch[1..] -/\n")
    for c in ("2", "3", "4"):
        out.append(seen[c])

    # append(uint32 ch, String& str): the #else (UTF-8) branch
    abody = function_body(src, r"static\s+bool\s+append\s*\(\s*uint32\s+ch\s*,\s*String\s*&\s*str\s*\)\s*\{", "Unicode::append(uint32, String&)")
    m = need(re.search(r"#else(.*?)#endif", abody, re.S), "Unicode::append: UTF-8 branch (#else ... #endif)")
    code = strip_comments(m.group(1))
    tail = strip_comments(abody[m.end():])
    need(re.match(r"\s*return\s+false\s*;\s*$", tail), "Unicode::append: final `return false;`")
    branches = []
    rest = code
    while rest.strip():
        m = re.match(r"\s*if\s*\((.*?)\)\s*\{(.*?)return\s+true\s*;\s*\}", rest, re.S)
        need(m, "Unicode::append: `if(cond) { str.append(..); ... return true; }` branch near " + repr(rest.strip()[:40]))
        cond, stmts = m.group(1).strip(), m.group(2)
        bytes_ = []
        for st in [x.strip() for x in stmts.split(";") if x.strip()]:
            a = need(re.match(r"str\s*\.\s*append\s*\((.*)\)\s*$", st, re.S), f"Unicode::append: statement {st!r}").group(1).strip()
            a = re.sub(r"^\(\s*char\s*\)\s*", "", a)
            bytes_.append(cexpr(a, {"ch": "ch"}))
        c = re.match(r"^\((.*)\)\s*==\s*0$", cond, re.S)
        if c:
            lc = f"decide ({cexpr(c.group(1), {'ch': 'ch'})} = 0)"
        else:
            c = need(re.match(r"^ch\s*<\s*(\S+)$", cond), f"Unicode::append: condition {cond!r}")
            lc = f"decide (ch < {cexpr(c.group(1), {})})"
        branches.append((lc, bytes_))
        rest = rest[m.end():]
    if len(branches) != 4 or [len(b) for _, b in branches] != [1, 2, 3, 4]:
        raise TranslateError(f"Unicode::append: expected 4 branches appending 1,2,3,4 bytes, found {[len(b) for _, b in branches]}")
    out.append("/-! `Unicode::append(uint32 ch, String& str)`, UTF-8 branch: range tests in source order and the\n"
               "    appended expressions (each converted to `char`, i.e. taken modulo 256) -/\n")
    for k, (lc, bs) in enumerate(branches, 1):
        out.append(f"def encCond{k} (ch : Nat) : Bool := {lc}\n")
        out.append(f"def encBytes{k} (ch : Nat) : List Nat := [{', '.join(b + ' % 256' for b in bs)}]\n")


def run_probe(repo):
    """build harness/codec_probe.cpp against the current sources and run it; returns the 256 values of Unicode::length"""
    import subprocess
    import tempfile
    cxx = os.environ.get("CXX", "g++")
    with tempfile.TemporaryDirectory(prefix="codec-probe-", dir=os.environ.get("TMPDIR", "/tmp")) as d:
        exe = Path(d) / "probe"
        p = subprocess.run([cxx, "-std=gnu++11", "-O0", f"-I{repo}/include", str(VERIF / "harness" / "codec_probe.cpp"),
                            f"{repo}/src/String.cpp", f"{repo}/src/Memory.cpp", "-o", str(exe)],
                           stdout=subprocess.PIPE, stderr=subprocess.STDOUT, text=True, errors="replace", timeout=300)
        if p.returncode != 0:
            raise TranslateError("probe harness/codec_probe.cpp does not compile against the current sources: " + p.stdout[-600:])
        r = subprocess.run([str(exe)], stdout=subprocess.PIPE, stderr=subprocess.STDOUT, text=True, errors="replace", timeout=60)
        if r.returncode != 0:
            raise TranslateError("probe failed: " + r.stdout[-300:])
    tables = {}
    for line in r.stdout.splitlines():
        t = line.split()
        if t and t[0] in ("length", "isspace", "lower", "upper"):
            vals = [int(x) for x in t[1:]]
            if len(vals) != 256:
                raise TranslateError(f"probe: expected 256 values in line `{t[0]}`")
            tables[t[0]] = vals
    for k in ("length", "isspace", "lower", "upper"):
        if k not in tables:
            raise TranslateError(f"probe printed no `{k}` line")
    return tables


def generate(repo):
    out = ["/- GENERATED by tools/gen_codec.py from the current sources of the repo -- do not edit. -/\n",
           "import Nstd.Codec.Mem\nnamespace Nstd.Generated.Codec\nopen Nstd.Codec\n\n"]
    translate_string(repo, out)
    translate_unicode(repo, out)
    out.append("\nend Nstd.Generated.Codec\n")
    return "".join(out)


def gen(ctx=None, repo=None):
    """translator entry used by the check: returns (ok, message)"""
    if repo is None:
        repo = Path(os.environ.get("NSTD_REPO", "/repo"))
    try:
        text = generate(Path(repo))
    except (TranslateError, OSError) as ex:
        return False, f"gen_codec: {ex}"
    OUT.parent.mkdir(parents=True, exist_ok=True)
    if not OUT.exists() or OUT.read_text() != text:
        OUT.write_text(text)
    return True, str(OUT)


if __name__ == "__main__":
    ok, msg = gen()
    print(msg)
    sys.exit(0 if ok else 1)
