#!/usr/bin/env python3
"""Translator of the Args area (property C20): C++ subset -> Lean.

Reads the CURRENT sources of the repo (`NSTD_REPO`, default /repo)

    src/Process.cpp           bool Process::Arguments::nextChar()
                              bool Process::Arguments::read(int& character, String& argument)
                              static void splitCommandLine(const String& commandLine, List<String>& command)   (POSIX branch)
    include/nstd/Process.hpp  the data members and the constructor of `class Arguments`, `enum OptionFlags`

(tokenizer that knows comments, character and string literals and `#ifdef _WIN32`; recursive-descent parser of the C++
subset these bodies are written in; type checker over the handful of types that occur) and writes the bodies, statement by
statement, as Lean functions over the primitives of lean/Nstd/Args/CSem.lean into lean/Nstd/Generated/ArgsCode.lean.
lean/Nstd/Args/PropsCode*.lean prove that the generated functions are the model's `nextChar` / `read` / `splitCommandLine`
(lean/Nstd/Args/Model.lean) on every state that represents a model state.

Second output, lean/Nstd/Generated/ArgsProc.lean: the Process object -- `Process::Process()`, `~Process()`, `isRunning()`, `kill()`,
`join(uint32&)`, `join()`, `close(uint)` (POSIX branches) over the members `fdStdOutRead`, `fdStdErrRead`, `fdStdInWrite`, `pid`,
`enum Stream`; system calls go to the kernel ghost of lean/Nstd/Args/CSemProc.lean (`::close(fd)`, `::kill((pid_t)pid, SIGKILL)` append to
the call trace; `waitpid(pid, &status, 0) != (pid_t)pid` is ONE condition answered by an oracle; `WEXITSTATUS`, `errno = EINVAL`).
lean/Nstd/Args/PropsProc.lean proves them equal to `Proc.step` and to the action list `Kernel.joinProgram`; also `Process::exit`, the
2-argument `read`, `write`, `setEnvironmentVariable`.

Third output, lean/Nstd/Generated/ArgsSel.lean: `Process::read(void* buffer, usize length, uint& streams)` (POSIX branch): `fd_set` = list of
descriptor numbers (`FD_ZERO` / `FD_SET` / `FD_ISSET`), `timeval tv = {s, 0}`, `for(;;)` over fuel, `select(maxFd + 1, &fdr, 0, 0, &tv)` and
`::read(fd, buffer, length)` answered by the assumed kernel of lean/Nstd/Args/CSemSel.lean (= the kernel of ReadSel.lean with its `select`
oracle); a call that never returns ends the function with a result code < -1.  lean/Nstd/Args/PropsSel.lean proves it equal to `ReadSel.read3`.

Fourth output, lean/Nstd/Generated/ArgsStr.lean: `String::length(const char*)`, `String::find(const char*, char)`, `String::compare(const char*,
const char*, usize)` of include/nstd/String.hpp (`while`, comma in a `for` step, pointer `<`, `(const uchar*)` reads); lean/Nstd/Args/PropsStr.lean
proves them equal to `strlenL`, `findL`, `cmpN` -- the functions the primitives `Env.strlen / strfind / cmpEq` of the translated `read` are.

Fifth output, lean/Nstd/Generated/ArgsDmn.lean: `Process::daemonize(const String& logFile)` over the descriptor table of KernelFail.lean
(`::open(logFile, O_CREAT | O_WRONLY | .., ..)` and `fork()` answered by oracles, `VERIFY(dup2(fd, STDOUT_FILENO) != -1)`, `VERIFY(setsid() != -1)`,
`exit(0)`; lean/Nstd/Args/CSemDmn.lean); lean/Nstd/Args/PropsDmn.lean proves it equal to `Kernel.daemonizeFds`.

Sixth output, lean/Nstd/Generated/ArgsVec.lean: a FRAGMENT translation -- the statement behind `const char** args;` ("prepare argv of child") in
`Process::start(program, argc, argv, environment)` and in `Process::open(executable, argc, argv, streams, environment)` (pointer vectors of
lean/Nstd/Args/CSemVec.lean: `argv[i]`, `args[i] = ..`, `(const char**)alloca(sizeof(const char*) * n)`); lean/Nstd/Args/PropsVec.lean proves
both equal to `prepareArgv`.

Seventh output, lean/Nstd/Generated/ArgsFds.lean: three more FRAGMENTS of `open(executable, argc, argv, streams, environment)`: the parent branch
`else if (r != 0) { .. }` behind `vfork()`, the child branch up to `if (execvpe(`, the statements behind the label `error:` (the `int ..Fds[2]` arrays
are two fields each; `::close` / `dup2` act on the descriptor table of Kernel.lean, lean/Nstd/Args/CSemFds.lean); lean/Nstd/Args/PropsOpen.lean proves
them equal to the components of `Kernel.openFds` / `Kernel.openFdsFailed`; and the three statements `if (streams & ..) { if (pipe(..) != 0) goto error; }`
(`goto error` = the translated error path) = `Kernel.pipesUntilFailure` / `errorPath`.  Not translated: the
environment preparation, `vfork()` / `execvpe` themselves, and the whole of `start(commandLine)`, `wait`, `interrupt`.

Anything outside the understood subset is REFUSED (exception -> the check reports a broken tie).

Translation scheme (assumptions, listed in the MANIFEST note):
  * all variables of a function (data members, parameters, locals; one name = one type) are the fields of ONE record; a
    statement is a state transformer written in continuation-passing style; the join point behind an `if` / `switch` / loop
    and the branches of a short-circuit condition that are needed twice become numbered block functions (`read_b7`);
  * a loop is a recursive function over a fuel argument, its body a block returning `Ctl` (`next` / `brk` / `ret` / `fuel`);
  * `&&`, `||`, `!`, `?:` (only as the whole right-hand side of an assignment / initialisation) are control flow, so side effects
    and faults inside conditions (`nextChar()`, `*arg`) happen exactly where C++ sequences them; other operands are evaluated left to
    right, and an expression that reads a variable inline and modifies it later without a sequence point is refused;
  * types: `const char*` -> Ptr (null | block, offset), `char**` / `const Option*` -> index, `usize` -> Nat, `int` -> Int,
    `char` -> Nat (the byte; `int <- char` is `sext`, `(char)int` is `toChar`), `bool` -> Bool, `String` -> List Nat,
    `List<String>` -> List (List Nat); comparisons of two `char` values compare the bytes;
  * `String::length / find / compare(...) == 0`, `String::attach / clear / append / isEmpty`, `List::append` are primitives of CSem.lean.
  * normalisations that keep harmless rewrites from changing the generated code: locals get canonical names (declaration order);
    `const T x = <variable | cast of a variable | literal>;` is propagated when the variable is not assigned before the last use of `x`
    (never `errno`); `static void helper(T& a, ..)` without `return` is inlined at `Private::helper(x, ..)`; `ASSERT(<pure expression>)` is skipped.
"""
import hashlib
import re
import sys
from pathlib import Path

VERIF = Path(__file__).resolve().parents[1]
OUT = VERIF / "lean" / "Nstd" / "Generated" / "ArgsCode.lean"
OUT_PROC = VERIF / "lean" / "Nstd" / "Generated" / "ArgsProc.lean"
OUT_SEL = VERIF / "lean" / "Nstd" / "Generated" / "ArgsSel.lean"
OUT_STR = VERIF / "lean" / "Nstd" / "Generated" / "ArgsStr.lean"
OUT_DMN = VERIF / "lean" / "Nstd" / "Generated" / "ArgsDmn.lean"
OUT_VEC = VERIF / "lean" / "Nstd" / "Generated" / "ArgsVec.lean"
OUT_FDS = VERIF / "lean" / "Nstd" / "Generated" / "ArgsFds.lean"


class Refuse(Exception):
    pass


# ---- tokenizer -------------------------------------------------------------------------------------------------------
OPS3 = ["<<=", ">>=", "..."]
OPS2 = ["->", "::", "++", "--", "+=", "-=", "*=", "/=", "|=", "&=", "^=", "==", "!=", "<=", ">=", "&&", "||", "<<", ">>"]
ESC = {"n": 10, "t": 9, "r": 13, "0": 0, "\\": 92, '"': 34, "'": 39, "a": 7, "b": 8, "f": 12, "v": 11}


def scan(src):
    """tokens: ('id', s) ('num', n) ('chr', n) ('str', bytes) ('op', s) ('pp', directive text)"""
    toks, i, n = [], 0, len(src)
    bol = True
    while i < n:
        c = src[i]
        if c == "\n":
            bol = True
            i += 1
            continue
        if c in " \t\r\f\v":
            i += 1
            continue
        if c == "/" and src.startswith("//", i):
            j = src.find("\n", i)
            i = n if j < 0 else j
            continue
        if c == "/" and src.startswith("/*", i):
            j = src.find("*/", i + 2)
            if j < 0:
                raise Refuse("unterminated comment")
            i = j + 2
            continue
        if c == "#" and bol:
            j = i
            while True:
                k = src.find("\n", j)
                if k < 0:
                    k = n
                if src[k - 1:k] == "\\":
                    j = k + 1
                    continue
                break
            toks.append(("pp", " ".join(src[i + 1:k].split())))
            i = k
            continue
        bol = False
        if c.isalpha() or c == "_":
            j = i + 1
            while j < n and (src[j].isalnum() or src[j] == "_"):
                j += 1
            toks.append(("id", src[i:j]))
            i = j
            continue
        if c.isdigit():
            m = re.match(r"0[xX][0-9a-fA-F]+|\d+", src[i:])
            j = i + m.end()
            if j < n and (src[j].isalpha() or src[j] in "._"):
                toks.append(("op", src[i:j + 1]))          # suffixes / floats: not understood, refused when parsed
                i = j + 1
                continue
            toks.append(("num", int(m.group(0), 0)))
            i = j
            continue
        if c == "'":
            if src[i + 1] == "\\":
                e = src[i + 2]
                if e not in ESC or src[i + 3] != "'":
                    raise Refuse(f"character literal {src[i:i + 6]!r}")
                toks.append(("chr", ESC[e]))
                i += 4
            else:
                if src[i + 2] != "'" or ord(src[i + 1]) > 127:
                    raise Refuse(f"character literal {src[i:i + 6]!r}")
                toks.append(("chr", ord(src[i + 1])))
                i += 3
            continue
        if c == '"':
            j, out = i + 1, []
            while j < n and src[j] != '"':
                if src[j] == "\\":
                    out.append(src[j:j + 2])
                    j += 2
                else:
                    out.append(src[j])
                    j += 1
            toks.append(("str", "".join(out)))
            i = j + 1
            continue
        for ops in (OPS3, OPS2):
            for o in ops:
                if src.startswith(o, i):
                    toks.append(("op", o))
                    i += len(o)
                    break
            else:
                continue
            break
        else:
            toks.append(("op", c))
            i += 1
    return toks


def posix_branch(toks):
    """resolve `#ifdef _WIN32` / `#ifndef _WIN32` / `#else` / `#endif`; other directives stay in the stream as 'pp' tokens
    (a translated body that contains one is refused)"""
    out, stack = [], []          # stack entries: True/False = resolved & active?, None = unknown conditional
    for t in toks:
        if t[0] == "pp":
            d = t[1]
            if re.fullmatch(r"ifdef _WIN32|if defined ?\( ?_WIN32 ?\)", d):
                stack.append(False)
                continue
            if re.fullmatch(r"ifndef _WIN32|if !defined ?\( ?_WIN32 ?\)", d):
                stack.append(True)
                continue
            if d.startswith("if"):
                stack.append(None)
            elif d.startswith("el"):
                if not stack:
                    raise Refuse("#else without #if")
                if stack[-1] is not None:
                    if d != "else":
                        raise Refuse(f"#{d} in a _WIN32 conditional")
                    stack[-1] = not stack[-1]
                    continue
            elif d.startswith("endif"):
                if not stack:
                    raise Refuse("#endif without #if")
                if stack.pop() is not None:
                    continue
        if all(x is not False for x in stack):
            out.append(t)
    return out


def find_body(toks, sig, what):
    """the tokens between the braces of the one definition whose signature is the token texts `sig`"""
    texts = [t[1] if t[0] in ("id", "op") else str(t[1]) if t[0] == "num" else None for t in toks]
    hits = [i for i in range(len(toks) - len(sig)) if texts[i:i + len(sig)] == sig and texts[i + len(sig)] == "{"]
    if len(hits) != 1:
        raise Refuse(f"{what}: {len(hits)} definitions with the expected signature `{' '.join(sig)}`")
    start = hits[0] + len(sig)
    depth = 0
    for j in range(start, len(toks)):
        if toks[j] == ("op", "{"):
            depth += 1
        elif toks[j] == ("op", "}"):
            depth -= 1
            if depth == 0:
                return toks[start + 1:j]
    raise Refuse(f"{what}: unbalanced braces")


# ---- parser ----------------------------------------------------------------------------------------------------------
TYPES = {
    ("const", "char", "*"): "cptr",
    ("char", "*", "*"): "argvp",
    ("const", "Option", "*"): "optp",
    ("usize",): "usize",
    ("int",): "int",
    ("bool",): "bool",
    ("String",): "string",
    ("uint32",): "usize",
    ("uint",): "usize",
    ("fd_set",): "fdset",
    ("pid_t",): "int",
}
BINPREC = [["||"], ["&&"], ["|"], ["^"], ["&"], ["==", "!="], ["<", ">", "<=", ">="], ["<<", ">>"], ["+", "-"], ["*", "/", "%"]]
ALLOWED_BIN = {"||", "&&", "&", "|", "==", "!=", "<", ">", "+", "-", "*"}


class Parser:
    def __init__(self, toks, fn):
        self.t, self.i, self.fn = toks, 0, fn

    def peek(self, k=0):
        return self.t[self.i + k] if self.i + k < len(self.t) else (None, None)

    def at(self, text, k=0):
        t = self.peek(k)
        return t[0] in ("id", "op") and t[1] == text

    def eat(self, text=None):
        t = self.peek()
        if t[0] is None or (text is not None and not self.at(text)):
            raise Refuse(f"{self.fn}: expected {text!r}, found {t[1]!r} (token {self.i})")
        if t[0] == "pp":
            raise Refuse(f"{self.fn}: preprocessor directive #{t[1]} inside the body")
        self.i += 1
        return t

    def decl_type(self):
        """if a declaration starts here: (ctype, number of tokens before the name, is const) else None"""
        for off in (0, 1):
            if off == 1 and not self.at("const"):
                break
            for pat, ty in TYPES.items():
                if all(self.at(p, off + k) for k, p in enumerate(pat)):
                    n = off + len(pat)
                    const = off == 1
                    if self.at("const", n) and pat[-1] == "*":
                        n += 1
                        const = True
                    if self.peek(n)[0] == "id" and (self.at("=", n + 1) or self.at(";", n + 1)):
                        if off == 1 and pat[0] == "const":
                            continue
                        return ty, n, const
        return None

    def stmts(self):
        out = []
        while self.peek()[0] is not None and not self.at("}"):
            out.append(self.stmt())
        return out

    def stmt(self):
        if self.peek()[0] == "pp":
            raise Refuse(f"{self.fn}: preprocessor directive #{self.peek()[1]} inside the body")
        if self.at("{"):
            self.eat("{")
            b = self.stmts()
            self.eat("}")
            return ("block", b)
        if self.at("if"):
            self.eat("if")
            self.eat("(")
            c = self.expr()
            self.eat(")")
            a = self.stmt()
            b = None
            if self.at("else"):
                self.eat("else")
                b = self.stmt()
            return ("if", c, a, b)
        if self.at("for"):
            self.eat("for")
            self.eat("(")
            init = None
            if not self.at(";"):
                init = self.simple()
            self.eat(";")
            cond = ("bool", True) if self.at(";") else self.expr()
            self.eat(";")
            step = None if self.at(")") else self.expr()
            while step is not None and self.at(","):
                self.eat(",")
                step = ("seq", step, self.expr())
            self.eat(")")
            return ("for", init, cond, step, self.stmt())
        if self.at("while"):
            self.eat("while")
            self.eat("(")
            cond = self.expr()
            self.eat(")")
            return ("for", None, cond, None, self.stmt())
        if self.at("switch"):
            self.eat("switch")
            self.eat("(")
            e = self.expr()
            self.eat(")")
            self.eat("{")
            cases = []
            while not self.at("}"):
                if self.at("case"):
                    self.eat("case")
                    lab = self.eat()
                    if lab[0] not in ("chr", "num"):
                        raise Refuse(f"{self.fn}: case label {lab[1]!r}")
                    self.eat(":")
                    label = lab
                elif self.at("default"):
                    self.eat("default")
                    self.eat(":")
                    label = None
                else:
                    raise Refuse(f"{self.fn}: statement before the first case label")
                body = []
                while not (self.at("case") or self.at("default") or self.at("}")):
                    body.append(self.stmt())
                cases.append((label, body))
            self.eat("}")
            return ("switch", e, cases)
        if self.at("return"):
            self.eat("return")
            e = None if self.at(";") else self.expr()
            self.eat(";")
            return ("return", e)
        if self.at("break"):
            self.eat("break")
            self.eat(";")
            return ("break",)
        if self.at("continue"):
            self.eat("continue")
            self.eat(";")
            return ("continue",)
        if self.at("goto") and self.peek(1)[0] == "id" and self.at(";", 2):
            self.eat()
            lab = self.eat()[1]
            self.eat(";")
            return ("goto", lab)
        for kw in ("while", "do", "goto", "try", "throw", "delete", "new"):
            if self.at(kw):
                raise Refuse(f"{self.fn}: `{kw}` is outside the translated subset")
        s = self.simple()
        self.eat(";")
        return s

    def simple(self):
        if (self.at("timeval") and self.peek(1)[0] == "id" and self.at("=", 2) and self.at("{", 3) and self.peek(4)[0] == "num"
                and self.at(",", 5) and self.peek(6) == ("num", 0) and self.at("}", 7)):
            name, sec = self.peek(1)[1], self.peek(4)[1]
            self.i += 8
            return ("decl", "usize", name, ("num", sec))        # `timeval tv = {sec, 0}`: the seconds
        d = self.decl_type()
        if d:
            ty, k, const = d
            self.i += k
            name = self.eat()[1]
            if const:
                CONST_LOCALS.add(name)
            init = None
            if self.at("="):
                self.eat("=")
                init = self.expr()
            return ("decl", ty, name, init)
        return ("expr", self.expr())

    def expr(self):
        lhs = self.ternary()
        if self.at("=") or self.at("+="):
            op = self.eat()[1]
            return ("assign", op, lhs, self.expr())
        for op in ("-=", "*=", "/=", "|=", "&=", "^=", "<<=", ">>="):
            if self.at(op):
                raise Refuse(f"{self.fn}: operator `{op}`")
        return lhs

    def ternary(self):
        c = self.binary(0)
        if self.at("?"):
            self.eat("?")
            a = self.expr()
            self.eat(":")
            b = self.ternary()
            return ("tern", c, a, b)
        return c

    def binary(self, lvl):
        if lvl == len(BINPREC):
            return self.unary()
        a = self.binary(lvl + 1)
        while any(self.at(o) for o in BINPREC[lvl]):
            op = self.eat()[1]
            if op not in ALLOWED_BIN:
                raise Refuse(f"{self.fn}: operator `{op}`")
            a = ("bin", op, a, self.binary(lvl + 1))
        return a

    def unary(self):
        if self.at("!"):
            self.eat()
            return ("un", "!", self.unary())
        if self.at("*"):
            self.eat()
            return ("un", "*", self.unary())
        if self.at("++"):
            self.eat()
            return ("un", "pre++", self.unary())
        if self.at("(") and self.at(")", 2) and self.peek(1)[0] == "id" and self.peek(1)[1] in ("char", "pid_t", "int", "uint32", "usize"):
            ty = self.peek(1)[1]
            self.i += 3
            return ("cast", ty, self.unary())
        if self.at("(") and self.at("const", 1) and self.at("char", 2) and self.at("*", 3) and self.at("*", 4) and self.at(")", 5):
            self.i += 6
            return ("cast", "vecptr", self.unary())
        if self.at("(") and self.at("const", 1) and self.at("char", 2) and self.at("*", 3) and self.at(")", 4):
            self.i += 5
            return ("cast", "cstr", self.unary())
        if self.at("(") and self.at("const", 1) and self.at("uchar", 2) and self.at("*", 3) and self.at(")", 4):
            self.i += 5
            return ("cast", "ucptr", self.unary())
        if self.at("&") and self.peek(1)[0] == "id":
            self.eat()
            return ("addr", self.eat()[1])
        if self.at("-") and self.peek(1)[0] == "num":
            self.eat()
            return ("num", -self.eat()[1])
        for op in ("--", "-", "~", "&", "+"):
            if self.at(op):
                raise Refuse(f"{self.fn}: unary `{op}`")
        return self.postfix()

    def args(self):
        self.eat("(")
        out = []
        while not self.at(")"):
            out.append(self.expr())
            if not self.at(")"):
                self.eat(",")
        self.eat(")")
        return out

    def postfix(self):
        e = self.primary()
        while True:
            if self.at("++"):
                self.eat()
                e = ("un", "post++", e)
            elif self.at("["):
                self.eat()
                i = self.expr()
                self.eat("]")
                e = ("index", e, i)
            elif self.at("->"):
                self.eat()
                e = ("arrow", e, self.eat()[1])
            elif self.at("."):
                self.eat()
                m = self.eat()[1]
                e = ("mcall", e, m, self.args())
            elif self.at("--"):
                raise Refuse(f"{self.fn}: postfix `--`")
            else:
                return e

    def primary(self):
        t = self.peek()
        if t[0] == "num":
            self.eat()
            return ("num", t[1])
        if t[0] == "chr":
            self.eat()
            return ("chr", t[1])
        if t[0] == "str":
            self.eat()
            return ("str", t[1])
        if self.at("("):
            self.eat()
            e = self.expr()
            self.eat(")")
            return e
        if self.at("sizeof") and self.at("(", 1) and self.at("const", 2) and self.at("char", 3) and self.at("*", 4) and self.at(")", 5):
            self.i += 6
            return ("sizeofptr",)
        if self.at("true") or self.at("false"):
            return ("bool", self.eat()[1] == "true")
        if self.at("this") and self.at("->", 1):
            self.i += 2
            return ("var", self.eat()[1])
        if self.at("::") and self.peek(1)[0] == "id" and self.at("(", 2):
            self.eat()
            name = "::" + self.eat()[1]
            return ("call", name, self.args())
        if t[0] == "id":
            name = self.eat()[1]
            while self.at("::"):
                self.eat()
                name += "::" + self.eat()[1]
            if self.at("("):
                return ("call", name, self.args())
            if "::" in name:
                return ("qual", name)
            return ("var", name)
        raise Refuse(f"{self.fn}: unexpected token {t[1]!r}")


CONST_LOCALS = set()


def _mentions(x, name):
    if isinstance(x, tuple):
        if x and x[0] == "var" and x[1] == name:
            return True
        return any(_mentions(y, name) for y in x)
    if isinstance(x, list):
        return any(_mentions(y, name) for y in x)
    return False


def _assigns(x, name):
    """does the AST assign / increment `name` (any call of a member function counts as an assignment of everything)"""
    if isinstance(x, tuple):
        if x and x[0] == "assign" and x[2] == ("var", name):
            return True
        if x and x[0] == "un" and x[1] in ("pre++", "post++") and x[2] == ("var", name):
            return True
        if x and x[0] == "call" and x[1] in ("nextChar", "join", "kill", "close"):
            return True
        return any(_assigns(y, name) for y in x)
    if isinstance(x, list):
        return any(_assigns(y, name) for y in x)
    return False


def _subst(x, name, repl):
    if isinstance(x, tuple):
        if x == ("var", name):
            return repl
        if x and x[0] in ("chr", "num", "str", "bool", "qual"):
            return x
        return tuple(_subst(y, name, repl) for y in x)
    if isinstance(x, list):
        return [_subst(y, name, repl) for y in x]
    return x


def propagate_consts(stmts):
    """`const T x = <variable, cast of a variable, or literal>;` is a NAME for that value when the variable is not assigned before the
    last use of `x`: the declaration is dropped and `x` replaced (so `const pid_t childPid = (pid_t)pid;` leaves the function unchanged).
    `errno` is never propagated (a system call may change it).  Other `const` locals are ordinary locals."""
    out = []
    i = 0
    stmts = list(stmts)
    while i < len(stmts):
        st = stmts[i]
        if st[0] == "block":
            st = ("block", propagate_consts(st[1]))
        elif st[0] == "if":
            st = ("if", st[1], propagate_consts([st[2]])[0] if st[2][0] != "block" else ("block", propagate_consts(st[2][1])),
                  None if st[3] is None else (propagate_consts([st[3]])[0] if st[3][0] != "block" else ("block", propagate_consts(st[3][1]))))
        if st[0] == "decl" and st[2] in CONST_LOCALS and st[3] is not None:
            _, ty, name, init = st
            core = init[2] if init[0] == "cast" else init
            src = core[1] if core[0] == "var" else None
            rest = stmts[i + 1:]
            uses = [j for j, r in enumerate(rest) if _mentions(r, name)]
            ok = (core[0] == "num" or (core[0] == "var" and src != "errno")) and not any(_assigns(r, name) for r in rest)
            if ok and src is not None and uses:
                ok = not any(_assigns(rest[j], src) for j in range(uses[-1] + 1))
            if ok:
                repl = ("cast", "cstr", init) if (ty == "cptr" and init[0] == "var") else init
                stmts = stmts[:i + 1] + _subst(rest, name, repl)
                i += 1
                continue
        out.append(st)
        i += 1
    return out


def find_helpers(toks):
    """`static void name(params) { body }` with reference parameters (`int& fd`, `int (&fds)[2]`): candidates for inlining"""
    texts = [t[1] if t[0] in ("id", "op") else None for t in toks]
    helpers = {}
    for i in range(len(toks) - 4):
        if texts[i:i + 2] == ["static", "void"] and toks[i + 2][0] == "id" and texts[i + 3] == "(":
            name = toks[i + 2][1]
            j, depth, params, cur = i + 3, 0, [], []
            while True:
                if texts[j] == "(":
                    depth += 1
                    if depth > 1:
                        cur.append(texts[j])
                elif texts[j] == ")":
                    depth -= 1
                    if depth == 0:
                        if cur:
                            params.append(cur)
                        break
                    cur.append(texts[j])
                elif texts[j] == "," and depth == 1:
                    params.append(cur)
                    cur = []
                else:
                    cur.append(texts[j])
                j += 1
            if texts[j + 1] != "{":
                continue
            pnames = []
            for pr in params:
                ids = [x for x in pr if x and (x[0].isalpha() or x[0] == "_") and x not in ("int", "const", "char", "uint", "usize", "uint32", "bool")]
                if "&" not in pr or len(ids) != 1:
                    pnames = None
                    break
                pnames.append(ids[0])
            if pnames is None:
                continue
            depth, k = 0, j + 1
            while True:
                if texts[k] == "{":
                    depth += 1
                elif texts[k] == "}":
                    depth -= 1
                    if depth == 0:
                        break
                k += 1
            try:
                body = parse_body(list(toks[j + 2:k]), name)
            except Refuse:
                continue
            helpers[name] = (pnames, body)
    return helpers


def rename_locals(body, canon, fn):
    """the locals of a body, in the order of their declarations, are given the names `canon` (the names the equality proofs
    use) when there are as many of them: a renamed local is not a change of the function"""
    order = []

    def decls(s):
        k = s[0]
        if k == "decl" and s[2] not in order:
            order.append(s[2])
        elif k == "block":
            for x in s[1]:
                decls(x)
        elif k == "if":
            decls(s[2])
            if s[3]:
                decls(s[3])
        elif k == "for":
            if s[1]:
                decls(s[1])
            decls(s[4])
        elif k == "switch":
            for _, b in s[2]:
                for x in b:
                    decls(x)
    for st in body:
        decls(st)
    if len(order) != len(canon) or order == list(canon):
        return body
    if set(order) & (set(canon) - set(order)) or len(set(order)) != len(order):
        return body
    m = dict(zip(order, canon))
    if any(m[a] != a and m[a] in order for a in order):      # a permutation of the canonical names: leave it alone
        return body

    def ren(x):
        if isinstance(x, tuple):
            if x and x[0] == "var":
                return ("var", m.get(x[1], x[1]))
            if x and x[0] == "decl":
                return ("decl", x[1], m.get(x[2], x[2]), ren(x[3]))
            if x and x[0] == "addr":
                return ("addr", m.get(x[1], x[1]))
            if x and x[0] in ("chr", "num", "str", "bool", "qual"):
                return x
            return tuple(ren(y) for y in x)
        if isinstance(x, list):
            return [ren(y) for y in x]
        return x
    return ren(body)


def parse_body(toks, fn):
    p = Parser(toks, fn)
    b = p.stmts()
    if p.peek()[0] is not None:
        raise Refuse(f"{fn}: trailing tokens")
    return propagate_consts(b)


# ---- Lean emission ----------------------------------------------------------------------------------------------------
LEAN_KEYWORDS = {"end", "at", "from", "fun", "in", "do", "then", "else", "if", "match", "with", "let", "have", "show", "open",
                 "where", "by", "def", "instance", "structure", "class", "variable", "local", "private", "mutual", "section",
                 "namespace", "import", "theorem", "example", "calc", "for", "return", "unless", "try", "catch", "finally", "mut",
                 "nomatch", "using", "prefix", "infix", "notation", "macro", "syntax", "deriving", "extends", "universe", "set_option"}
LEAN_TYPE = {"fresh": "Kernel.Fresh", "vec": "Vec", "cstrn": "Option (List Nat)", "fdtable": "Kernel.FdTable", "optnat": "Option Nat", "char": "Nat", "fd": "Nat", "fdset": "List Nat", "rsel": "ReadSel.RS", "evs": "List ReadSel.Ev", "penv": "PEnv", "kern": "K", "cptr": "Ptr", "argvp": "Nat", "optp": "Nat", "usize": "Nat", "int": "Int", "bool": "Bool", "string": "List Nat",
             "strlist": "List (List Nat)"}
LEAN_DEFAULT = {"fresh": "⟨0, 0, 0, 0, 0, 0⟩", "vec": "[]", "cstrn": "none", "fdtable": "(fun _ => none)", "optnat": "none", "char": "0", "fd": "0", "fdset": "[]", "rsel": "⟨0, 0, [], [], false, false⟩", "evs": "[]", "penv": "[]", "kern": "⟨[], []⟩", "cptr": "Ptr.null", "argvp": "0", "optp": "0", "usize": "0", "int": "0", "bool": "false", "string": "[]", "strlist": "[]"}


def fld(name):
    return name + "_" if name in LEAN_KEYWORDS else name


def ind(text, n=2):
    pad = " " * n
    return "\n".join(pad + l if l else l for l in text.split("\n"))


class K:
    """a continuation: Lean text that goes on from the state `s` in scope"""

    def __init__(self, text):
        self.text = text

    def small(self):
        return "\n" not in self.text and len(self.text) <= 60


class Fn:
    def __init__(self, name, rec, ret, vars_, consts, flags, fuel, members=()):
        self.name, self.rec, self.ret = name, rec, ret         # ret: 'bool' | 'void'
        self.vars = dict(vars_)                                # name -> ctype (fields of the record)
        self.consts = dict(consts)                             # name -> (ctype, Lean term): parameters that are not fields
        self.flags = flags
        self.fuel = fuel
        self.members = set(members)
        self.proc = False                                      # the Process-object functions: syscalls, casts, errno
        self.sel = False                                       # read(buffer, length, streams): fd_set, select, ::read on a pipe
        self.helpers = {}                                      # static void helpers with reference parameters: inlined at the call
        self.labels = {}                                       # label -> Lean text of the jump (fragment translation of open())
        self.fall = None                                       # what falling off the end of a fragment is
        self.fdsmode = False                                   # fragments of open(): descriptor table ghost, int fds[2] arrays as two fields
        self.vecmode = False                                   # the "prepare argv of child" block: pointer vectors
        self.envfn = False                                     # getEnvironmentVariable: `const char*` = null | the value of a variable
        self.dmn = False                                       # daemonize: descriptor table ghost, ::open, dup2, fork, setsid, exit
        self.callees = {}                                      # member functions that may be called: C++ name -> (Lean name, parameter names)
        self.blocks = []                                       # Lean definitions in dependency order
        self.nblk = self.ntmp = self.nloop = 0
        self.reads = set()

    # -- helpers
    def rho(self):
        return {"bool": "Bool", "int": "Int", "usize": "Nat", "cptr": "Ptr", "string": "(List Nat)"}.get(self.ret, "Unit")

    def sig(self):
        return f"(E : Env) (f : Nat) (s : {self.rec})" if self.fuel else f"(E : Env) (s : {self.rec})"

    def callargs(self):
        return "E f s" if self.fuel else "E s"

    def tmp(self):
        self.ntmp += 1
        return f"t{self.ntmp}"

    def lift(self, k):
        if k.small():
            return k
        self.nblk += 1
        nm = f"{self.name}_b{self.nblk}"
        self.blocks.append(f"def {nm} {self.sig()} : Option (Ctl {self.rec} {self.rho()}) :=\n{ind(k.text)}")
        return K(f"{nm} {self.callargs()}")

    def declare(self, body):
        """pre-pass: the local declarations of the body become fields"""
        def walk(s):
            k = s[0]
            if k == "decl":
                _, ty, name, _ = s
                if self.envfn and ty == "cptr":
                    ty = "cstrn"
                if name in self.consts:
                    raise Refuse(f"{self.name}: local `{name}` shadows a parameter")
                if self.vars.get(name, ty) != ty:
                    raise Refuse(f"{self.name}: `{name}` is declared with two different types")
                self.vars[name] = ty
            elif k == "block":
                for x in s[1]:
                    walk(x)
            elif k == "if":
                walk(s[2])
                if s[3]:
                    walk(s[3])
            elif k == "for":
                if s[1]:
                    walk(s[1])
                walk(s[4])
            elif k == "switch":
                for _, b in s[2]:
                    for x in b:
                        walk(x)
        for s in body:
            walk(s)

    def touch(self, name):
        """`name` is about to be modified"""
        if name in self.reads:
            raise Refuse(f"{self.name}: `{name}` is read and modified in one expression without a sequence point")

    def seqpoint(self):
        self.reads = set()

    def update(self, name, term, k):
        return f"let s := {{ s with {fld(name)} := {term} }}\n{k()}"

    def bind(self, call, k, ty):
        """a primitive that may fault: `match call with | none => none | some t => k`"""
        t = self.tmp()
        return f"match {call} with\n| none => none\n| some {t} =>\n{ind(k(ty, t))}"

    # -- expressions (value context); k : (ctype, Lean term) -> text
    def cexpr(self, e, k):
        kind = e[0]
        if kind == "num":
            return k("intlit", str(e[1]))
        if kind == "chr":
            return k("charlit", str(e[1]))
        if kind == "bool":
            return k("bool", "true" if e[1] else "false")
        if kind == "str":
            if e[1] != "":
                raise Refuse(f"{self.name}: string literal other than \"\"")
            return k("cptr", "(Ptr.mk Blk.lit 0)")
        if kind == "var":
            name = e[1]
            if name in self.consts:
                ty, term = self.consts[name]
                return k(ty, term)
            if name not in self.vars:
                if self.proc and name in self.flags:
                    return k("intlit", str(self.flags[name]))
                raise Refuse(f"{self.name}: unknown identifier `{name}`")
            self.reads.add(name)
            return k(self.vars[name], f"s.{fld(name)}")
        if kind == "qual":
            if e[1].startswith("Process::") and e[1][9:] in self.flags:
                return k("intlit", str(self.flags[e[1][9:]]))
            raise Refuse(f"{self.name}: unknown constant `{e[1]}`")
        if (kind == "cast" and e[1] == "vecptr" and self.vecmode and e[2][0] == "call" and e[2][1] == "alloca" and len(e[2][2]) == 1
                and e[2][2][0][0] == "bin" and e[2][2][0][1] == "*" and e[2][2][0][2] == ("sizeofptr",)):
            def ka(ty, term):
                if ty != "int":
                    raise Refuse(f"{self.name}: alloca(sizeof(const char*) * {ty})")
                return k("vec", f"(vecAlloc {term})")
            return self.cexpr(e[2][2][0][3], ka)
        if kind == "cast":
            def kk(ty, term):
                if e[1] == "char" and ty == "int":
                    return k("char", f"(toChar {term})")
                if e[1] in ("usize", "uint32") and ty == "usize":
                    return k("usize", term)
                if e[1] == "vecptr" and ty == "vec":
                    return k("vec", term)
                if e[1] == "ucptr" and ty == "cptr":
                    return k("ucptr", term)                 # the same address, read as unsigned char
                if e[1] == "int" and ty == "uchar":
                    return k("int", f"({term} : Int)")
                if e[1] == "pid_t" and ty == "usize" and self.proc:
                    return k("usize", term)                 # a pid is a pid
                if e[1] == "int" and ty == "usize" and self.proc:
                    return k("int", f"(toInt32 {term})")
                if e[1] == "cstr" and ty == "string" and self.proc:
                    return k("cstring", term)               # `operator const char*()` of a String: its (NUL-free) bytes
                raise Refuse(f"{self.name}: ({e[1]}) of a {ty}")
            return self.cexpr(e[2], kk)
        if kind == "un":
            op, x = e[1], e[2]
            if op == "*":
                def kk(ty, term):
                    if ty == "cptr":
                        return self.bind(f"E.load {term}", k, "char")
                    if ty == "ucptr":
                        return self.bind(f"E.load {term}", k, "uchar")
                    if ty == "argvp":
                        return self.bind(f"E.argvAt {term}", k, "cptr")
                    raise Refuse(f"{self.name}: dereference of a {ty}")
                return self.cexpr(x, kk)
            if op in ("pre++", "post++"):
                if x[0] != "var" or x[1] not in self.vars:
                    raise Refuse(f"{self.name}: ++ of something that is not a variable")
                name, ty = x[1], self.vars[x[1]]
                self.touch(name)
                if op == "post++":
                    old = self.tmp()
                    return f"let {old} := s.{fld(name)}\n" + self.incr(name, ty, "1", lambda: k(ty, old))
                def after():
                    self.reads.add(name)
                    return k(ty, f"s.{fld(name)}")
                return self.incr(name, ty, "1", after)
            raise Refuse(f"{self.name}: `{op}` in a value context")
        if kind == "bin":
            op, a, b = e[1], e[2], e[3]
            if op in ("&&", "||", "==", "!=", "<", ">"):
                raise Refuse(f"{self.name}: `{op}` in a value context")
            def ka(ta, xa):
                def kb(tb, xb):
                    nat = ("usize", "intlit")
                    if op == "+":
                        if ta == "cptr" and tb in nat:
                            return self.bind(f"Ptr.add {xa} {xb}", k, "cptr")
                        if ta in nat and tb in nat:
                            return k("usize", f"({xa} + {xb})")
                        if ta in ("argvp", "optp") and tb in nat:
                            return k(ta, f"({xa} + {xb})")
                        if ta == "int" and tb == "intlit" and self.proc:
                            return k("int", f"({xa} + {xb})")
                    if op == "-":
                        if ta == "cptr" and tb in nat:
                            return self.bind(f"Ptr.sub {xa} {xb}", k, "cptr")
                        if ta == "cptr" and tb == "cptr":
                            return self.bind(f"Ptr.diff {xa} {xb}", k, "usize")
                        if ta == "int" and tb == "intlit" and self.vecmode:
                            return k("int", f"({xa} - {xb})")
                        if ta == "int" and tb in ("int", "uchar"):
                            return k("int", f"({xa} - {self.convert('int', 'fd' if tb == 'uchar' else 'int', xb)})")
                    if op == "&":
                        if ta in nat and tb in nat:
                            return k("usize", f"({xa} &&& {xb})")
                    raise Refuse(f"{self.name}: `{ta} {op} {tb}`")
                return self.cexpr(b, kb)
            return self.cexpr(a, ka)
        if (kind == "index" and self.fdsmode and e[1][0] == "var" and e[2][0] == "num" and e[2][1] in (0, 1)
                and f"{e[1][1]}{e[2][1]}" in self.vars):
            nm = f"{e[1][1]}{e[2][1]}"
            self.reads.add(nm)
            return k(self.vars[nm], f"s.{fld(nm)}")
        if kind == "index" and self.vecmode and e[1][0] == "var" and self.vars.get(e[1][1]) == "vec":
            def ki(ti, xi):
                if ti not in ("int", "intlit"):
                    raise Refuse(f"{self.name}: vector index of type {ti}")
                self.reads.add(e[1][1])
                return self.bind(f"vecGet s.{fld(e[1][1])} {self.convert('int', ti, xi)}", k, "cstrn")
            return self.cexpr(e[2], ki)
        if kind == "index":
            return self.cexpr(("un", "*", ("bin", "+", e[1], e[2])), k)
        if kind == "arrow":
            def kk(ty, term):
                if ty != "optp":
                    raise Refuse(f"{self.name}: `->{e[2]}` of a {ty}")
                if e[2] == "name":
                    return self.bind(f"E.optName {term}", k, "cptr")
                if e[2] == "character":
                    return self.bind(f"E.optChar {term}", k, "int")
                if e[2] == "flags":
                    return self.bind(f"E.optFlags {term}", k, "usize")
                raise Refuse(f"{self.name}: unknown member `{e[2]}` of Option")
            return self.cexpr(e[1], kk)
        if kind == "call":
            name, args = e[1], e[2]
            if name == "nextChar" and not args and "arg" in self.members:
                for m in self.members:
                    self.touch(m)
                t = self.tmp()
                return (f"match nextChar E s with\n| some (.ret {t} s) =>\n{ind(k('bool', t))}\n| _ => none")
            if self.proc and name in self.callees:
                lean, params = self.callees[name][len(args)] if len(args) in self.callees[name] else (None, None)
                if lean is None or [a for a in args] != [("var", q) for q in params]:
                    raise Refuse(f"{self.name}: call of `{name}`: the arguments must be the variables named like the parameters")
                for m in self.vars:
                    self.touch(m)
                t = self.tmp()
                return (f"match {lean} E s with\n| some (.ret {t} s) =>\n{ind(k('bool', t))}\n| _ => none")
            if self.envfn and name == "getenv" and len(args) == 1:
                def k1(t1, x1):
                    if t1 != "cstring":
                        raise Refuse(f"{self.name}: getenv({t1})")
                    return k("cstrn", f"(envGet s.env {x1})")
                return self.cexpr(args[0], k1)
            if (self.envfn and name == "String" and len(args) == 2 and args[0][0] == "var" and self.vars.get(args[0][1]) == "cstrn"
                    and args[1] == ("call", "String::length", [args[0]])):
                t = self.tmp()
                self.reads.add(args[0][1])
                return (f"match s.{fld(args[0][1])} with\n| none => none\n| some {t} =>\n" + ind(k("string", t)))
            if self.dmn and name == "::open" and len(args) == 3 and args[0] == ("var", "logFile"):
                ids = set()
                def collect(x):
                    if isinstance(x, tuple):
                        if x and x[0] == "var":
                            ids.add(x[1])
                        else:
                            for y in x:
                                collect(y)
                collect(args[1])
                if not {"O_CREAT", "O_WRONLY"} <= ids:
                    raise Refuse(f"{self.name}: ::open without O_CREAT | O_WRONLY")
                t = self.tmp()
                return f"let {t} := sysOpen s.openRes s.tag s.tbl\n" + self.update("tbl", f"{t}.2", lambda: k("int", f"{t}.1"))
            if self.dmn and name == "fork" and not args:
                return k("int", "s.forkRes")
            if self.sel and name == "FD_ISSET" and len(args) == 2 and args[1][0] == "addr" and self.vars.get(args[1][1]) == "fdset":
                st = args[1][1]
                def k1(t1, x1):
                    if t1 != "fd":
                        raise Refuse(f"{self.name}: FD_ISSET({t1}, ..)")
                    self.reads.add(st)
                    return k("bool", f"(s.{fld(st)}.contains {x1})")
                return self.cexpr(args[0], k1)
            if (self.sel and name == "select" and len(args) == 5 and args[1][0] == "addr" and self.vars.get(args[1][1]) == "fdset"
                    and args[2] == ("num", 0) and args[3] == ("num", 0) and args[4][0] == "addr" and self.vars.get(args[4][1]) == "usize"):
                st = args[1][1]
                def k1(t1, x1):
                    if t1 != "int":
                        raise Refuse(f"{self.name}: select({t1}, ..)")
                    for m in ("kr", "evs", "errno", st):
                        self.touch(m)
                    ti, ts, te, tv = self.tmp(), self.tmp(), self.tmp(), self.tmp()
                    return (f"match sysSelect s.kr s.evs {x1} s.{fld(st)} with\n| .blocked => some (.ret blockedCode s)\n"
                            f"| .ret {ti} {ts} {te} {tv} =>\n  let s := {{ s with {fld(st)} := {ts}, evs := {tv}, errno := {te}.getD s.errno }}\n"
                            + ind(k("int", ti)))
                return self.cexpr(args[0], k1)
            if self.sel and name == "::read" and len(args) == 3 and args[1] == ("var", "buffer"):
                def k1(t1, x1):
                    def k3(t3, x3):
                        if t1 != "fd" or t3 != "usize":
                            raise Refuse(f"{self.name}: ::read({t1}, buffer, {t3})")
                        tb, tk = self.tmp(), self.tmp()
                        return (f"match sysReadPipe s.kr {x1} {x3} with\n| .bad => none\n| .hang => some (.ret hangCode s)\n"
                                f"| .got {tb} {tk} =>\n  let s := {{ s with kr := {tk}, buffer := {tb} }}\n"
                                + ind(k("int", f"({tb}.length : Int)")))
                    return self.cexpr(args[2], k3)
                return self.cexpr(args[0], k1)
            if self.proc and name in ("::read", "::write") and len(args) == 3 and args[1] == ("var", "buffer"):
                def k1(t1, x1):
                    def k3(t3, x3):
                        if t1 != "int" or t3 != "usize":
                            raise Refuse(f"{self.name}: {name}({t1}, buffer, {t3})")
                        t = self.tmp()
                        prim = "K.sysRead" if name == "::read" else "K.sysWrite"
                        return f"let {t} := {prim} s.k {x1} {x3}\n" + self.update("k", f"{t}.2", lambda: k("int", f"{t}.1"))
                    return self.cexpr(args[2], k3)
                return self.cexpr(args[0], k1)
            if self.proc and name == "WEXITSTATUS" and len(args) == 1:
                def kk(ty, term):
                    if ty != "int":
                        raise Refuse(f"{self.name}: WEXITSTATUS of a {ty}")
                    return k("usize", f"(wexitstatus {term})")
                return self.cexpr(args[0], kk)
            if name == "String::length" and len(args) == 1:
                def kk(ty, term):
                    if ty != "cptr":
                        raise Refuse(f"{self.name}: String::length of a {ty}")
                    return self.bind(f"E.strlen {term}", k, "usize")
                return self.cexpr(args[0], kk)
            if name == "String::find" and len(args) == 2 and args[1][0] == "chr":
                def kk(ty, term):
                    if ty != "cptr":
                        raise Refuse(f"{self.name}: String::find in a {ty}")
                    return self.bind(f"E.strfind {term} {args[1][1]}", k, "cptr")
                return self.cexpr(args[0], kk)
            raise Refuse(f"{self.name}: call of `{name}` with {len(args)} argument(s)")
        if kind == "mcall":
            obj, m, args = e[1], e[2], e[3]
            if m == "isEmpty" and not args and obj[0] == "var" and self.vars.get(obj[1]) == "string":
                self.reads.add(obj[1])
                return k("bool", f"s.{fld(obj[1])}.isEmpty")
            raise Refuse(f"{self.name}: method `{m}` in a value context")
        raise Refuse(f"{self.name}: `{kind}` in a value context")

    def incr(self, name, ty, amount, k):
        """name += amount"""
        if ty == "cptr":
            t = self.tmp()
            return (f"match Ptr.add s.{fld(name)} {amount} with\n| none => none\n| some {t} =>\n"
                    + ind(self.update(name, t, k)))
        if ty in ("usize", "argvp", "optp") or (ty == "int" and self.vecmode):
            return self.update(name, f"s.{fld(name)} + {amount}", k)
        raise Refuse(f"{self.name}: increment of a {ty}")

    def convert(self, target, ty, term):
        if target == "int":
            if ty == "char":
                return f"sext {term}"
            if ty in ("charlit", "intlit", "fd"):
                return f"({term} : Int)"
            if ty == "int":
                return term
        elif target in ("usize", "fd") and ty in ("usize", "intlit") and (target == "usize" or ty == "intlit"):
            return term
        elif target == ty and target in ("cptr", "optp", "argvp", "bool", "string", "fd", "cstrn", "vec"):
            return term
        raise Refuse(f"{self.name}: a {ty} is stored into a {target}")

    # -- conditions: kt / kf are K
    def ccond(self, e, kt, kf):
        kind = e[0]
        if kind == "un" and e[1] == "!":
            return self.ccond(e[2], kf, kt)
        if kind == "bin" and e[1] == "&&":
            kf = self.lift(kf)
            self.seqpoint()
            inner = self.ccond(e[3], kt, kf)
            self.seqpoint()
            return self.ccond(e[2], K(inner), kf)
        if kind == "bin" and e[1] == "||":
            kt = self.lift(kt)
            self.seqpoint()
            inner = self.ccond(e[3], kt, kf)
            self.seqpoint()
            return self.ccond(e[2], kt, K(inner))
        if kind == "bool":
            return (kt if e[1] else kf).text
        ite = lambda c: f"if {c} then\n{ind(kt.text)}\nelse\n{ind(kf.text)}"
        if (self.fdsmode and kind == "bin" and e[1] == "!=" and e[3] == ("num", 0) and e[2][0] == "call" and e[2][1] == "pipe"
                and len(e[2][2]) == 1 and e[2][2][0][0] == "var" and e[2][2][0][1] in ("stdoutFds", "stderrFds", "stdinFds")):
            arr = e[2][2][0][1]
            num, rd, wr = {"stdoutFds": (0, "outR", "outW"), "stderrFds": (1, "errR", "errW"), "stdinFds": (2, "inR", "inW")}[arr]
            return (f"if s.calls + 1 = s.failK then\n{ind(kt.text)}\nelse\n"
                    f"  let s := {{ s with calls := s.calls + 1, tbl := Kernel.mkPipe {num} s.fresh.{rd} s.fresh.{wr} s.tbl, "
                    f"{arr}0 := s.fresh.{rd}, {arr}1 := s.fresh.{wr} }}\n{ind(kf.text)}")
        if (self.proc and kind == "bin" and e[1] == "==" and e[3] == ("num", 0) and e[2][0] == "call" and e[2][1] in ("unsetenv", "setenv")):
            name, args = e[2][1], e[2][2]
            if (name == "unsetenv" and len(args) != 1) or (name == "setenv" and (len(args) != 3 or args[2] != ("num", 1))):
                raise Refuse(f"{self.name}: {name} is not called as `unsetenv(name)` / `setenv(name, value, 1)`")
            terms = []
            for a in args[:2 if name == "setenv" else 1]:
                box = []
                self.cexpr(a, lambda ty, term: box.append((ty, term)) or "")
                if len(box) != 1 or box[0][0] != "cstring":
                    raise Refuse(f"{self.name}: argument of {name} is not `(const char*)<String>`")
                terms.append(box[0][1])
            t = self.tmp()
            prim = "envUnset" if name == "unsetenv" else "envSet"
            return (f"let {t} := {prim} s.env {' '.join(terms)}\nlet s := {{ s with env := {t}.2 }}\n"
                    f"if {t}.1 = true then\n{ind(kt.text)}\nelse\n{ind(kf.text)}")
        if (self.proc and kind == "bin" and e[1] == "!=" and e[2][0] == "call" and e[2][1] == "waitpid"):
            args, rhs = e[2][2], e[3]
            pidarg = args[0][2] if args and args[0][0] == "cast" else (args[0] if args else None)
            if (len(args) != 3 or pidarg != ("var", "pid") or args[1][0] != "addr" or self.vars.get(args[1][1]) != "int"
                    or args[2] != ("num", 0) or rhs != ("cast", "pid_t", ("var", "pid"))):
                raise Refuse(f"{self.name}: waitpid is not called as `waitpid(pid, &status, 0) != (pid_t)pid`")
            st = args[1][1]
            t = self.tmp()
            return (f"match K.waitpid s.k s.pid with\n| (none, k') =>\n  let s := {{ s with k := k' }}\n{ind(kt.text)}\n"
                    f"| (some {t}, k') =>\n  let s := {{ s with k := k', {fld(st)} := ({t} : Int) }}\n{ind(kf.text)}")
        if kind == "bin" and e[1] == ">":
            return self.ccond(("bin", "<", e[3], e[2]), kt, kf)
        if kind == "bin" and e[1] in ("==", "!=", "<"):
            op, a, b = e[1], e[2], e[3]
            if op != "<" and a[0] == "call" and a[1] == "String::compare" and len(a[2]) == 3 and b == ("num", 0):
                x, y, z = a[2]
                def k1(t1, p1):
                    def k2(t2, p2):
                        def k3(t3, p3):
                            if (t1, t2) != ("cptr", "cptr") or t3 not in ("usize", "intlit"):
                                raise Refuse(f"{self.name}: String::compare({t1}, {t2}, {t3})")
                            t = self.tmp()
                            yes, no = (kt, kf) if op == "==" else (kf, kt)
                            return (f"match E.cmpEq {p1} {p2} {p3} with\n| none => none\n| some {t} =>\n"
                                    + ind(f"if {t} = true then\n{ind(yes.text)}\nelse\n{ind(no.text)}"))
                        return self.cexpr(z, k3)
                    return self.cexpr(y, k2)
                return self.cexpr(x, k1)
            def ka(ta, xa):
                def kb(tb, xb):
                    if ta == "cptr" and tb == "cptr" and op == "<":
                        t = self.tmp()
                        return (f"match Ptr.lt {xa} {xb} with\n| none => none\n| some {t} =>\n"
                                + ind(f"if {t} = true then\n{ind(kt.text)}\nelse\n{ind(kf.text)}"))
                    chars, ints, nats = ("char", "charlit"), ("int", "charlit", "intlit", "fd"), ("usize", "intlit")
                    ok = ((ta in chars and tb in chars) or (ta in nats and tb in nats) or (ta == tb and ta in ("optp", "argvp"))
                          or (ta in ints and tb in ints and "int" in (ta, tb)))
                    if not ok or (op == "<" and (ta in chars or (ta == "int" and not (self.sel or self.vecmode)))):
                        raise Refuse(f"{self.name}: comparison `{ta} {op} {tb}`")
                    if "int" in (ta, tb):
                        xa2, xb2 = self.convert("int", ta, xa), self.convert("int", tb, xb)
                    else:
                        xa2, xb2 = xa, xb
                    if op == "<":
                        return ite(f"{xa2} < {xb2}")
                    yes, no = (kt, kf) if op == "==" else (kf, kt)
                    return f"if {xa2} = {xb2} then\n{ind(yes.text)}\nelse\n{ind(no.text)}"
                return self.cexpr(b, kb)
            return self.cexpr(a, ka)
        # truth value of an expression
        def kv(ty, term):
            if ty == "bool":
                return ite(f"{term} = true")
            if ty in ("char", "usize", "fd") or (ty == "int" and self.proc):
                return f"if {term} = 0 then\n{ind(kf.text)}\nelse\n{ind(kt.text)}"
            if ty == "cptr":
                return f"if {term} = Ptr.null then\n{ind(kf.text)}\nelse\n{ind(kt.text)}"
            if ty == "cstrn":
                return f"if {term} = none then\n{ind(kf.text)}\nelse\n{ind(kt.text)}"
            raise Refuse(f"{self.name}: a {ty} used as a condition")
        return self.cexpr(e, kv)

    # -- statements; k : K (what follows), ctx = (break target, continue target) as K or None
    def cstmts(self, stmts, k, ctx):
        if not stmts:
            return k.text
        if len(stmts) == 1:
            return self.cstmt(stmts[0], k, ctx)
        rest = K(self.cstmts(stmts[1:], k, ctx))
        return self.cstmt(stmts[0], rest, ctx)

    def cstmt(self, s, k, ctx):
        self.seqpoint()
        kind = s[0]
        if kind == "block":
            return self.cstmts(s[1], k, ctx)
        if kind == "if":
            k = self.lift(k)
            ta = self.cstmt(s[2], k, ctx)
            tb = self.cstmt(s[3], k, ctx) if s[3] else k.text
            self.seqpoint()
            return self.ccond(s[1], K(ta), K(tb))
        if kind == "return":
            if self.ret == "void":
                if s[1] is not None:
                    raise Refuse(f"{self.name}: return with a value")
                return self.ret_("()")
            if s[1] is None:
                raise Refuse(f"{self.name}: return without a value")
            if self.ret in ("usize", "cptr", "string"):
                def kr2(ty, term):
                    if self.ret == "cptr" and ty == "intlit" and term == "0":
                        return self.ret_("Ptr.null")
                    if ty != self.ret:
                        raise Refuse(f"{self.name}: return of a {ty}")
                    return self.ret_(term)
                return self.cexpr(s[1], kr2)
            if self.ret == "int":
                def kr(ty, term):
                    if ty not in ("int", "intlit"):
                        raise Refuse(f"{self.name}: return of a {ty}")
                    return self.ret_(self.convert("int", ty, term))
                return self.cexpr(s[1], kr)
            return self.ccond(s[1], K(self.ret_("true")), K(self.ret_("false")))
        if kind == "goto":
            if s[1] not in self.labels:
                raise Refuse(f"{self.name}: goto {s[1]}")
            return self.labels[s[1]]
        if kind == "break":
            if ctx[0] is None:
                raise Refuse(f"{self.name}: break outside loop/switch")
            return ctx[0].text
        if kind == "continue":
            if ctx[1] is None:
                raise Refuse(f"{self.name}: continue outside a loop")
            return ctx[1].text
        if kind == "decl":
            _, ty, name, init = s
            if self.envfn and ty == "cptr":
                ty = "cstrn"
            if init is None:
                if ty in ("int", "usize", "fdset") and self.proc:
                    return k.text                      # `int status;`: no value yet, the field keeps what it holds
                if ty != "string":
                    raise Refuse(f"{self.name}: `{name}` is declared without initialiser")
                return self.update(name, "[]", lambda: k.text)
            return self.cstmt(("expr", ("assign", "=", ("var", name), init)), k, ctx)
        if kind == "switch":
            return self.cswitch(s, k, ctx)
        if kind == "for":
            return self.cfor(s, k, ctx)
        if kind == "expr":
            return self.cexprstmt(s[1], k, ctx)
        raise Refuse(f"{self.name}: statement `{kind}`")

    def ret_(self, v):
        return f"some (.ret {v} s)"

    def cexprstmt(self, e, k, ctx):
        kind = e[0]
        if kind == "call" and e[1] == "ASSERT" and len(e[2]) == 1 and not _assigns(e[2], "\0"):
            return k.text                              # debug-only check of a side-effect-free expression
        if kind == "call" and e[1].split("::")[-1] in self.helpers and e[1].split("::")[0] in (e[1], "Private"):
            pnames, hbody = self.helpers[e[1].split("::")[-1]]
            if len(pnames) != len(e[2]) or any(a[0] != "var" for a in e[2]):
                raise Refuse(f"{self.name}: call of the helper `{e[1]}`: the arguments must be variables")
            def has_return(x):
                if isinstance(x, tuple):
                    return (x and x[0] == "return") or any(has_return(y) for y in x)
                if isinstance(x, list):
                    return any(has_return(y) for y in x)
                return False
            if has_return(hbody):
                raise Refuse(f"{self.name}: helper `{e[1]}` with a return statement")
            body = hbody
            for pn, a in zip(pnames, e[2]):
                body = _subst(body, pn, a)
            return self.cstmt(("block", body), k, ctx)
        if kind == "assign":
            op, lhs, rhs = e[1], e[2], e[3]
            if (self.fdsmode and lhs[0] == "index" and lhs[1][0] == "var" and lhs[2][0] == "num"
                    and f"{lhs[1][1]}{lhs[2][1]}" in self.vars):
                lhs = ("var", f"{lhs[1][1]}{lhs[2][1]}")
            if op == "=" and rhs[0] == "assign" and rhs[1] == "=":
                inner_lhs = rhs[2]
                return self.cexprstmt(rhs, K(self.cexprstmt(("assign", "=", lhs, inner_lhs), k, ctx)), ctx)
            if (self.vecmode and op == "=" and lhs[0] == "index" and lhs[1][0] == "var" and self.vars.get(lhs[1][1]) == "vec"):
                vname = lhs[1][1]
                def kr(tr, xr):
                    val = "none" if (tr, xr) == ("intlit", "0") else xr if tr == "cstrn" else f"(some {xr})" if tr == "string" else None
                    if val is None:
                        raise Refuse(f"{self.name}: a {tr} is stored into a vector element")
                    def ki(ti, xi):
                        if ti not in ("int", "intlit"):
                            raise Refuse(f"{self.name}: vector index of type {ti}")
                        t = self.tmp()
                        return (f"match vecSet s.{fld(vname)} {self.convert('int', ti, xi)} {val} with\n| none => none\n| some {t} =>\n"
                                + ind(self.update(vname, t, lambda: k.text)))
                    return self.cexpr(lhs[2], ki)
                return self.cexpr(rhs, kr)
            if lhs[0] != "var" or lhs[1] not in self.vars:
                raise Refuse(f"{self.name}: assignment to something that is not a variable")
            name, ty = lhs[1], self.vars[lhs[1]]
            if rhs[0] == "tern":
                return self.cstmt(("if", rhs[1], ("expr", ("assign", op, lhs, rhs[2])), ("expr", ("assign", op, lhs, rhs[3]))), k, ctx)
            if op == "=":
                return self.cexpr(rhs, lambda t, x: self.update(name, self.convert(ty, t, x), lambda: k.text))
            def kplus(t, x):
                if t not in ("usize", "intlit"):
                    raise Refuse(f"{self.name}: `{ty} += {t}`")
                return self.incr(name, ty, x, lambda: k.text)
            return self.cexpr(rhs, kplus)
        if kind == "un" and e[1] in ("pre++", "post++"):
            x = e[2]
            if x[0] != "var" or x[1] not in self.vars:
                raise Refuse(f"{self.name}: ++ of something that is not a variable")
            return self.incr(x[1], self.vars[x[1]], "1", lambda: k.text)
        if kind == "mcall":
            obj, m, args = e[1], e[2], e[3]
            if obj[0] != "var" or obj[1] not in self.vars:
                raise Refuse(f"{self.name}: method call on something that is not a variable")
            name, ty = obj[1], self.vars[obj[1]]
            if ty == "string" and m == "clear" and not args:
                return self.update(name, "[]", lambda: k.text)
            if ty == "string" and m == "attach" and len(args) == 2:
                def k1(t1, p1):
                    def k2(t2, p2):
                        if t1 != "cptr" or t2 not in ("usize", "intlit"):
                            raise Refuse(f"{self.name}: attach({t1}, {t2})")
                        return self.bind(f"E.attach {p1} {p2}", lambda _, t: self.update(name, t, lambda: k.text), "string")
                    return self.cexpr(args[1], k2)
                return self.cexpr(args[0], k1)
            if ty == "string" and m == "append" and len(args) == 1:
                def k1(t1, x1):
                    if t1 not in ("char", "charlit"):
                        raise Refuse(f"{self.name}: String::append({t1})")
                    return self.update(name, f"s.{fld(name)} ++ [{x1}]", lambda: k.text)
                return self.cexpr(args[0], k1)
            if ty == "strlist" and m == "append" and len(args) == 1:
                def k1(t1, x1):
                    if t1 != "string":
                        raise Refuse(f"{self.name}: List::append({t1})")
                    return self.update(name, f"s.{fld(name)} ++ [{x1}]", lambda: k.text)
                return self.cexpr(args[0], k1)
            raise Refuse(f"{self.name}: method `{m}` of a {ty}")
        if kind == "call" and self.proc:
            name, args = e[1], e[2]
            if name == "::close" and len(args) == 1 and not self.dmn and not self.fdsmode:
                def k1(t1, x1):
                    if t1 != "int":
                        raise Refuse(f"{self.name}: ::close({t1})")
                    return self.update("k", f"K.close s.k {x1}", lambda: k.text)
                return self.cexpr(args[0], k1)
            if name == "::kill" and len(args) == 2 and args[1] == ("var", "SIGKILL"):
                def k1(t1, x1):
                    if t1 != "usize":
                        raise Refuse(f"{self.name}: ::kill({t1}, SIGKILL)")
                    return self.update("k", f"K.kill s.k {x1} SIGKILL", lambda: k.text)
                return self.cexpr(args[0], k1)
            if self.dmn and name == "VERIFY" and len(args) == 1 and args[0][0] == "bin" and args[0][1] == "!=" and args[0][3] == ("num", -1) \
                    and args[0][2][0] == "call":
                cname, cargs = args[0][2][1], args[0][2][2]
                if cname == "dup2" and len(cargs) == 2 and cargs[1][0] == "var" and cargs[1][1] in ("STDOUT_FILENO", "STDERR_FILENO"):
                    def k1(t1, x1):
                        if t1 != "int":
                            raise Refuse(f"{self.name}: dup2({t1}, ..)")
                        return self.update("tbl", f"sysDup2 {x1} {cargs[1][1]} s.tbl", lambda: k.text)
                    return self.cexpr(cargs[0], k1)
                if cname == "setsid" and not cargs:
                    return self.update("sid", "true", lambda: k.text)
                raise Refuse(f"{self.name}: VERIFY({cname}(..) != -1)")
            if self.fdsmode and name == "::close" and len(args) == 1:
                def k1(t1, x1):
                    if t1 != "fd":
                        raise Refuse(f"{self.name}: ::close({t1})")
                    return self.update("tbl", f"fdClose {x1} s.tbl", lambda: k.text)
                return self.cexpr(args[0], k1)
            if (self.fdsmode and name == "dup2" and len(args) == 2 and args[1][0] == "var"
                    and args[1][1] in ("STDOUT_FILENO", "STDERR_FILENO", "STDIN_FILENO")):
                def k1(t1, x1):
                    if t1 != "fd":
                        raise Refuse(f"{self.name}: dup2({t1}, ..)")
                    return self.update("tbl", f"fdDup2 {x1} {args[1][1]} s.tbl", lambda: k.text)
                return self.cexpr(args[0], k1)
            if self.dmn and name == "::close" and len(args) == 1:
                def k1(t1, x1):
                    if t1 != "int":
                        raise Refuse(f"{self.name}: ::close({t1})")
                    return self.update("tbl", f"sysClose {x1} s.tbl", lambda: k.text)
                return self.cexpr(args[0], k1)
            if self.dmn and name == "exit" and args == [("num", 0)]:
                return self.update("exited", "some 0", lambda: "some (.ret false s)")       # does not return: what follows is dropped
            if self.sel and name == "FD_ZERO" and len(args) == 1 and args[0][0] == "addr" and self.vars.get(args[0][1]) == "fdset":
                return self.update(args[0][1], "[]", lambda: k.text)
            if self.sel and name == "FD_SET" and len(args) == 2 and args[1][0] == "addr" and self.vars.get(args[1][1]) == "fdset":
                st = args[1][1]
                def k1(t1, x1):
                    if t1 != "fd":
                        raise Refuse(f"{self.name}: FD_SET({t1}, ..)")
                    return self.update(st, f"s.{fld(st)} ++ [{x1}]", lambda: k.text)
                return self.cexpr(args[0], k1)
            if name == "_exit" and len(args) == 1:
                def k1(t1, x1):
                    if t1 != "int":
                        raise Refuse(f"{self.name}: _exit({t1})")
                    return self.update("k", f"K.exit s.k {x1}", lambda: "some (.ret () s)")     # does not return: what follows is dropped
                return self.cexpr(args[0], k1)
            if name in self.callees:
                return self.cexpr(e, lambda ty, term: k.text)
        raise Refuse(f"{self.name}: expression statement `{kind}`")

    def cswitch(self, s, k, ctx):
        _, e, cases = s
        k = self.lift(k)
        labels = [c[0] for c in cases]
        if labels.count(None) != 1 or labels[-1] is not None:
            raise Refuse(f"{self.name}: switch without a final default label")
        if len(set(labels)) != len(labels):
            raise Refuse(f"{self.name}: duplicate case label")
        texts = []
        for i, (lab, body) in enumerate(cases):
            body = list(body)
            if body and body[-1][0] == "break":
                body = body[:-1]
            elif i != len(cases) - 1 and not (body and body[-1][0] in ("continue", "return")):
                raise Refuse(f"{self.name}: case falls through into the next label")
            texts.append(self.cstmts(body, k, (k, ctx[1])))
        self.seqpoint()
        def kk(ty, term):
            if ty != "char":
                raise Refuse(f"{self.name}: switch over a {ty}")
            out = texts[-1]
            for (lab, _), t in reversed(list(zip(cases[:-1], texts[:-1]))):
                if lab[0] != "chr":
                    raise Refuse(f"{self.name}: case label is not a character literal")
                out = f"if {term} = {lab[1]} then\n{ind(t)}\nelse\n{ind(out)}"
            return out
        return self.cexpr(e, kk)

    def cfor(self, s, k, ctx):
        _, init, cond, step, body = s
        if not self.fuel:
            raise Refuse(f"{self.name}: loop in a function translated without fuel")
        self.nloop += 1
        rec, rho = self.rec, self.rho()
        bname, lname = f"{self.name}_body{self.nloop}", f"{self.name}_loop{self.nloop}"
        after = k.text
        nblk = self.nblk
        btext = self.cstmt(body, K("some (.next s)"), (K("some (.brk s)"), K("some (.next s)")))
        self.blocks.append(f"def {bname} (E : Env) (f : Nat) (s : {rec}) : Option (Ctl {rec} {rho}) :=\n{ind(btext)}")
        again = K(f"{lname} E f s")
        def csteps(st, kk):
            if st[0] == "seq":
                return csteps(st[1], K(csteps(st[2], kk)))
            return self.cstmt(("expr", st), kk, (None, None))
        steptext = csteps(step, again) if step else again.text
        iterate = (f"match {bname} E f s with\n| none => none\n| some (.next s) =>\n{ind(steptext)}\n| some (.brk s) => some (.next s)\n"
                   f"| some (.ret r s) => some (.ret r s)\n| some .fuel => some .fuel")
        nb = self.nblk
        self.seqpoint()
        ltext = self.ccond(cond, K(iterate), K("some (.next s)"))
        if self.nblk != nb:
            raise Refuse(f"{self.name}: loop condition with `&&` / `||`")
        self.blocks.append(f"def {lname} (E : Env) : Nat → {rec} → Option (Ctl {rec} {rho})\n  | 0, _ => some .fuel\n  | f + 1, s =>\n{ind(ltext, 4)}")
        use = (f"match {lname} E f s with\n| none => none\n| some (.next s) =>\n{ind(after)}\n| some (.ret r s) => some (.ret r s)\n"
               f"| some .fuel => some .fuel\n| some (.brk _) => none")
        if init is None:
            return use
        return self.cstmt(init, K(use), ctx)

    def function(self, body, doc):
        self.declare(body)
        end = self.fall or ("some (.ret () s)" if self.ret == "void" else "none")
        text = self.cstmts(body, K(end), (None, None))
        self.blocks.append(f"/-- {doc} -/\ndef {self.name} {self.sig()} : Option (Ctl {self.rec} {self.rho()}) :=\n{ind(text)}")
        return self.blocks


# ---- the header ---------------------------------------------------------------------------------------------------------
def class_arguments(toks):
    """members (name -> ctype, in order), constructor (parameter names, init list, body tokens) of `class Arguments`"""
    idx = [i for i in range(len(toks) - 2) if toks[i] == ("id", "class") and toks[i + 1] == ("id", "Arguments") and toks[i + 2] == ("op", "{")]
    if len(idx) != 1:
        raise Refuse("class Arguments not found in Process.hpp")
    i = idx[0] + 2
    depth, j = 0, i
    while True:
        if toks[j] == ("op", "{"):
            depth += 1
        elif toks[j] == ("op", "}"):
            depth -= 1
            if depth == 0:
                break
        j += 1
    body = toks[i + 1:j]
    members, ctor = [], None
    k = 0
    text = lambda t: t[1] if t[0] in ("id", "op") else None
    while k < len(body):
        t = body[k]
        if t[0] == "id" and t[1] in ("public", "private", "protected") and text(body[k + 1]) == ":":
            k += 2
            continue
        if t == ("id", "template"):
            # template<usize N> Arguments(int argc, char* argv[], const Option(&options)[N]) : inits {body}
            sig = ["template", "<", "usize", "N", ">", "Arguments", "(", "int", "argc", ",", "char", "*", "argv", "[", "]", ",",
                   "const", "Option", "(", "&", "options", ")", "[", "N", "]", ")", ":"]
            if [text(x) for x in body[k:k + len(sig)]] != sig:
                raise Refuse("constructor of Arguments: unexpected signature")
            k += len(sig)
            inits = []
            while text(body[k]) != "{":
                name = body[k]
                if name[0] != "id" or text(body[k + 1]) != "(":
                    raise Refuse("constructor of Arguments: initialiser list")
                d, m = 0, k + 1
                while True:
                    if text(body[m]) == "(":
                        d += 1
                    elif text(body[m]) == ")":
                        d -= 1
                        if d == 0:
                            break
                    m += 1
                inits.append((name[1], body[k + 2:m]))
                k = m + 1
                if text(body[k]) == ",":
                    k += 1
            d, m = 0, k
            while True:
                if text(body[m]) == "{":
                    d += 1
                elif text(body[m]) == "}":
                    d -= 1
                    if d == 0:
                        break
                m += 1
            ctor = (inits, body[k + 1:m])
            k = m + 1
            continue
        # data member `type name;` or a member function declaration (skipped up to `;`)
        m = k
        while text(body[m]) != ";":
            if text(body[m]) == "{":
                raise Refuse("class Arguments: inline member function other than the constructor")
            m += 1
        decl = [text(x) for x in body[k:m]]
        if "(" not in decl:
            ty = TYPES.get(tuple(decl[:-1]))
            if ty is None or decl[-1] is None:
                raise Refuse(f"class Arguments: member declaration `{' '.join(map(str, decl))}`")
            members.append((decl[-1], ty))
        k = m + 1
    if ctor is None:
        raise Refuse("class Arguments: constructor not found")
    return members, ctor


def option_flags(toks, enum="OptionFlags"):
    idx = [i for i in range(len(toks) - 2) if toks[i] == ("id", "enum") and toks[i + 1] == ("id", enum) and toks[i + 2] == ("op", "{")]
    if len(idx) != 1:
        raise Refuse(f"enum {enum} not found")
    k, flags = idx[0] + 3, {}
    while toks[k] != ("op", "}"):
        if toks[k][0] != "id" or toks[k + 1] != ("op", "=") or toks[k + 2][0] != "num":
            raise Refuse(f"enum {enum}: entry is not `name = number`")
        flags[toks[k][1]] = toks[k + 2][1]
        k += 3
        if toks[k] == ("op", ","):
            k += 1
    return flags


def option_struct(toks):
    sig = ["struct", "Option", "{", "int", "character", ";", "const", "char", "*", "name", ";", "uint32", "flags", ";", "}"]
    texts = [t[1] if t[0] in ("id", "op") else None for t in toks]
    if not any(texts[i:i + len(sig)] == sig for i in range(len(texts))):
        raise Refuse("struct Option is not {int character; const char* name; uint32 flags;}")


# ---- driver -----------------------------------------------------------------------------------------------------------
def generate(repo):
    cpp = posix_branch(scan((Path(repo) / "src/Process.cpp").read_text()))
    hpp = posix_branch(scan((Path(repo) / "include/nstd/Process.hpp").read_text()))
    flags = option_flags(hpp)
    option_struct(hpp)
    members, (inits, ctor_body) = class_arguments(hpp)
    mnames = [m for m, _ in members]
    if dict(members).get("arg") != "cptr":
        raise Refuse("class Arguments: member `const char* arg` not found")

    next_body = parse_body(find_body(cpp, ["bool", "Process", "::", "Arguments", "::", "nextChar", "(", ")"], "Arguments::nextChar"), "nextChar")
    read_body = parse_body(find_body(cpp, ["bool", "Process", "::", "Arguments", "::", "read", "(", "int", "&", "character", ",",
                                           "String", "&", "argument", ")"], "Arguments::read"), "read")
    split_body = parse_body(find_body(cpp, ["static", "void", "splitCommandLine", "(", "const", "String", "&", "commandLine", ",",
                                            "List", "<", "String", ">", "&", "command", ")"], "splitCommandLine"), "splitCommandLine")

    read_body = rename_locals(read_body, ["end", "argLen", "opt", "argName", "len"], "read")
    split_body = rename_locals(split_body, ["arg", "p"], "splitCommandLine")
    rvars = members + [("character", "int"), ("argument", "string")]
    fread = Fn("read", "RS", "bool", rvars, {}, flags, True, mnames)
    read_blocks = fread.function(read_body, "`bool Process::Arguments::read(int& character, String& argument)`")
    fnext = Fn("nextChar", "RS", "bool", fread.vars, {}, flags, False, mnames)
    locals_before = dict(fnext.vars)
    next_blocks = fnext.function(next_body, "`bool Process::Arguments::nextChar()`")
    if fnext.vars != locals_before:
        raise Refuse("nextChar: local declarations")

    # the constructor: initialiser list in member order, then the body
    fctor = Fn("ctor", "RS", "void", fread.vars, {"argc": ("usize", "argc"), "N": ("usize", "N")}, flags, False, mnames)
    init_of = dict(inits)
    if set(init_of) != set(mnames) or len(inits) != len(mnames):
        raise Refuse("constructor of Arguments: the initialiser list does not name every member exactly once")
    stmts = []
    for m in mnames:                                           # members are initialised in declaration order
        e = Parser(list(init_of[m]), "constructor")
        ex = e.expr()
        if e.peek()[0] is not None:
            raise Refuse("constructor of Arguments: initialiser expression")
        stmts.append((m, ex))
    # inside the initialiser list `argv` / `options` are the PARAMETERS (the arrays: index 0)
    def ctor_expr(m, ex):
        params = {"argv": ("argvp", "0"), "options": ("optp", "0"), "argc": ("usize", "argc"), "N": ("usize", "N")}
        sub = Fn("ctor", "RS", "void", {}, params, flags, False)
        box = []
        sub.cexpr(ex, lambda ty, term: box.append((ty, term)) or "")
        if len(box) != 1 or sub.ntmp:
            raise Refuse("constructor of Arguments: initialiser is not a plain expression")
        return fctor.convert(dict(members)[m], *box[0])
    ctor_text = fctor.cstmts(parse_body(list(ctor_body), "constructor"), K("some (.ret () s)"), (None, None))
    lines = "".join(f"let s := {{ s with {fld(m)} := {ctor_expr(m, ex)} }}\n" for m, ex in stmts)
    ctor_def = ("/-- `Arguments(int argc, char* argv[], const Option(&options)[N])`: initialiser list, then the body -/\n"
                f"def ctor (E : Env) (argc N : Nat) (s : RS) : Option (Ctl RS Unit) :=\n{ind(lines + ctor_text)}")

    svars = [("command", "strlist")]
    fsplit = Fn("split", "SS", "void", svars, {"commandLine": ("cptr", "(Ptr.mk Blk.cmd 0)")}, flags, True)
    split_blocks = fsplit.function(split_body, "`static void Process::Private::splitCommandLine(const String& commandLine, List<String>& command)` (POSIX branch)")

    def record(name, vars_):
        return (f"structure {name} where\n" + "".join(f"  {fld(v)} : {LEAN_TYPE[t]}\n" for v, t in vars_.items()) + "\n"
                f"def {name}.zero : {name} :=\n  {{ " + ", ".join(f"{fld(v)} := {LEAN_DEFAULT[t]}" for v, t in vars_.items()) + " }\n")

    out = ["/- generated by tools/gen_args.py from src/Process.cpp and include/nstd/Process.hpp — do not edit -/",
           "import Nstd.Args.CSem", "", "set_option linter.unusedVariables false", "", "namespace Nstd.Args.Gen", "open Nstd.Args Nstd.Args.C", "",
           "/-- `enum OptionFlags` -/"]
    out += [f"def {k} : Nat := {v}" for k, v in flags.items()]
    out += ["", "/-- data members of `class Arguments`, the parameters and the locals of `read` -/", record("RS", fread.vars),
            "/-- the number of data members of `class Arguments` (the first fields of `RS`) -/", f"def memberCount : Nat := {len(members)}", ""]
    out += ["\n\n".join(next_blocks), "", ctor_def, "", "\n\n".join(read_blocks), "",
            "/-- parameters and locals of `splitCommandLine` -/", record("SS", fsplit.vars), "\n\n".join(split_blocks), "",
            "end Nstd.Args.Gen", ""]
    return "\n".join(out)


def generate_proc(repo):
    """the Process object: constructor, destructor, isRunning, kill, join(uint32&), join(), close(uint) (POSIX branches)"""
    cpp = posix_branch(scan((Path(repo) / "src/Process.cpp").read_text()))
    hpp = posix_branch(scan((Path(repo) / "include/nstd/Process.hpp").read_text()))
    streams = option_flags(hpp, "Stream")
    texts = [t[1] if t[0] in ("id", "op") else None for t in hpp]
    members = []
    for ty, name in (("int", "fdStdOutRead"), ("int", "fdStdErrRead"), ("int", "fdStdInWrite"), ("uint32", "pid")):
        if sum(1 for i in range(len(texts) - 2) if texts[i:i + 3] == [ty, name, ";"]) != 1:
            raise Refuse(f"class Process: data member `{ty} {name};` not found")
        members.append((name, TYPES[(ty,)]))
    consts = {"EINVAL": ("usize", "EINVAL")}
    ghosts = [("errno", "usize"), ("k", "kern")]
    sigs = {
        "join": (["bool", "Process", "::", "join", "(", "uint32", "&", "exitCode", ")"], "bool", [("exitCode", "usize")]),
        "join0": (["bool", "Process", "::", "join", "(", ")"], "bool", []),
        "dtor": (["Process", "::", "~", "Process", "(", ")"], "void", []),
        "kill": (["bool", "Process", "::", "kill", "(", ")"], "bool", []),
        "isRunning": (["bool", "Process", "::", "isRunning", "(", ")", "const"], "bool", []),
        "close": (["void", "Process", "::", "close", "(", "uint", "streams", ")"], "void", [("streams", "usize")]),
        "ctor": (["Process", "::", "Process", "(", ")", ":", "pid", "(", "0", ")"], "void", []),
        "exit": (["void", "Process", "::", "exit", "(", "uint32", "exitCode", ")"], "void", [("exitCode", "usize")]),
        "read2": (["ssize", "Process", "::", "read", "(", "void", "*", "buffer", ",", "usize", "len", ")"], "int", [("len", "usize")]),
        "write": (["ssize", "Process", "::", "write", "(", "const", "void", "*", "buffer", ",", "usize", "len", ")"], "int", [("len", "usize")]),
    }
    docs = {"join": "bool Process::join(uint32& exitCode)", "join0": "bool Process::join()", "dtor": "Process::~Process()",
            "kill": "bool Process::kill()", "isRunning": "bool Process::isRunning() const", "close": "void Process::close(uint streams)",
            "ctor": "Process::Process() : pid(0)", "exit": "static void Process::exit(uint32 exitCode)",
            "read2": "ssize Process::read(void* buffer, usize len)", "write": "ssize Process::write(const void* buffer, usize len)"}
    bodies = {n: parse_body(find_body(cpp, sg[0], "Process::" + n), n) for n, sg in sigs.items()}
    allvars = dict(members)
    for n, sg in sigs.items():
        for v, t in sg[2]:
            if allvars.get(v, t) != t:
                raise Refuse(f"{n}: parameter `{v}` clashes with another variable")
            allvars[v] = t
    fns, order = {}, ["join", "join0", "dtor", "kill", "isRunning", "close", "ctor", "exit", "read2", "write"]
    callees = {"join": {1: ("join", ["exitCode"])}}
    def inline_for_declare(body):
        """the locals of inlined helpers count too (none of the known helpers declares one)"""
        return body
    for n in order:                                        # one record for all: collect the locals first
        f = Fn(n, "PS", sigs[n][1], allvars, consts, streams, False, [m for m, _ in members])
        f.proc = True
        f.declare(inline_for_declare(bodies[n]))
        allvars = dict(f.vars)
    allvars.update(dict(ghosts))
    out_blocks = []
    helpers = find_helpers(cpp)
    for n in order:
        f = Fn(n, "PS", sigs[n][1], allvars, consts, streams, False, [m for m, _ in members])
        f.proc, f.callees = True, callees
        f.helpers = helpers
        body = bodies[n]
        if n == "ctor":                                    # `: pid(0)` first
            body = [("expr", ("assign", "=", ("var", "pid"), ("num", 0)))] + body
        blocks = f.function(body, "`" + docs[n] + "` (POSIX branch)")
        if f.vars != allvars:
            raise Refuse(f"{n}: undeclared variable")
        out_blocks.append("\n\n".join(blocks))
    rec = ("structure PS where\n" + "".join(f"  {fld(v)} : {LEAN_TYPE[t]}\n" for v, t in allvars.items()) + "\n"
           "def PS.zero : PS :=\n  { " + ", ".join(f"{fld(v)} := {LEAN_DEFAULT[t]}" for v, t in allvars.items()) + " }\n")
    # static bool Process::setEnvironmentVariable(const String& name, const String& value): its own record
    evars = {"name": "string", "value": "string", "env": "penv"}
    fe = Fn("setEnvironmentVariable", "ES", "bool", evars, {}, {}, False)
    fe.proc = True
    ebody = parse_body(find_body(cpp, ["bool", "Process", "::", "setEnvironmentVariable", "(", "const", "String", "&", "name", ",",
                                       "const", "String", "&", "value", ")"], "Process::setEnvironmentVariable"), "setEnvironmentVariable")
    eblocks = fe.function(ebody, "`static bool Process::setEnvironmentVariable(const String& name, const String& value)` (POSIX branch)")
    if fe.vars != evars:
        raise Refuse("setEnvironmentVariable: local declarations")
    erec = ("structure ES where\n" + "".join(f"  {fld(v)} : {LEAN_TYPE[t]}\n" for v, t in evars.items()))
    # static String Process::getEnvironmentVariable(const String& name, const String& defaultValue)
    gvars = {"name": "string", "defaultValue": "string", "env": "penv"}
    fg = Fn("getEnvironmentVariable", "EG", "string", gvars, {}, {}, False)
    fg.proc = fg.envfn = True
    gbody = parse_body(find_body(cpp, ["String", "Process", "::", "getEnvironmentVariable", "(", "const", "String", "&", "name", ",",
                                       "const", "String", "&", "defaultValue", ")"], "Process::getEnvironmentVariable"), "getEnvironmentVariable")
    gbody = rename_locals(gbody, ["var"], "getEnvironmentVariable")
    gblocks = fg.function(gbody, "`static String Process::getEnvironmentVariable(const String& name, const String& defaultValue)` (POSIX branch)")
    grec = ("structure EG where\n" + "".join(f"  {fld(v)} : {LEAN_TYPE[t]}\n" for v, t in fg.vars.items()))
    out = ["/- generated by tools/gen_args.py from src/Process.cpp and include/nstd/Process.hpp — do not edit -/",
           "import Nstd.Args.CSemProc", "", "set_option linter.unusedVariables false", "", "namespace Nstd.Args.GenP",
           "open Nstd.Args Nstd.Args.C", "", "/-- `enum Stream` -/"]
    out += [f"def {k} : Nat := {v}" for k, v in streams.items()]
    out += ["", "/-- data members of `class Process` (POSIX), the parameters and locals of the translated member functions, `errno`, the kernel ghost -/",
            rec, "\n\n".join(out_blocks), "", "/-- parameters of `setEnvironmentVariable`, the environment of the process (ghost) -/", erec,
            "\n\n".join(eblocks), "", "/-- parameters and the local of `getEnvironmentVariable`, the environment of the process (ghost) -/", grec,
            "\n\n".join(gblocks), "", "end Nstd.Args.GenP", ""]
    return "\n".join(out)


def generate_str(repo):
    """String::length(const char*), String::find(const char*, char), String::compare(const char*, const char*, usize) of String.hpp"""
    hpp = posix_branch(scan((Path(repo) / "include/nstd/String.hpp").read_text()))
    specs = [
        ("strLength", "SL", "usize", ["static", "usize", "length", "(", "const", "char", "*", "s", ")"], [("s", "cptr")],
         "static usize String::length(const char* s)"),
        ("strFind", "SF", "cptr", ["static", "const", "char", "*", "find", "(", "const", "char", "*", "in", ",", "char", "c", ")"],
         [("in", "cptr"), ("c", "char")], "static const char* String::find(const char* in, char c)"),
        ("strCompare", "SC", "int", ["static", "int", "compare", "(", "const", "char", "*", "s1", ",", "const", "char", "*", "s2", ",",
                                     "usize", "len", ")"], [("s1", "cptr"), ("s2", "cptr"), ("len", "usize")],
         "static int String::compare(const char* s1, const char* s2, usize len)"),
    ]
    out = ["/- generated by tools/gen_args.py from include/nstd/String.hpp — do not edit -/", "import Nstd.Args.CSem", "",
           "set_option linter.unusedVariables false", "", "namespace Nstd.Args.GenStr", "open Nstd.Args Nstd.Args.C", ""]
    for name, rec, ret, sig, params, doc in specs:
        body = parse_body(find_body(hpp, sig, "String::" + sig[sig.index("(") - 1]), name)
        f = Fn(name, rec, ret, dict(params), {}, {}, True)
        blocks = f.function(body, "`" + doc + "`")
        out += [f"structure {rec} where\n" + "".join(f"  {fld(v)} : {LEAN_TYPE[t]}\n" for v, t in f.vars.items()), "\n\n".join(blocks), ""]
    out += ["end Nstd.Args.GenStr", ""]
    return "\n".join(out)


def generate_dmn(repo):
    """bool Process::daemonize(const String& logFile)"""
    cpp = posix_branch(scan((Path(repo) / "src/Process.cpp").read_text()))
    body = parse_body(find_body(cpp, ["bool", "Process", "::", "daemonize", "(", "const", "String", "&", "logFile", ")"],
                                "Process::daemonize"), "daemonize")
    body = rename_locals(body, ["fd", "childPid"], "daemonize")
    f = Fn("daemonize", "DS", "bool", {}, {}, {}, False)
    f.proc = f.dmn = True
    f.declare(body)
    f.vars.update({"tbl": "fdtable", "tag": "usize", "openRes": "optnat", "forkRes": "int", "exited": "optnat", "sid": "bool"})
    allvars = dict(f.vars)
    blocks = f.function(body, "`static bool Process::daemonize(const String& logFile)`")
    if f.vars != allvars:
        raise Refuse("daemonize: undeclared variable")
    rec = ("structure DS where\n" + "".join(f"  {fld(v)} : {LEAN_TYPE[t]}\n" for v, t in allvars.items()))
    out = ["/- generated by tools/gen_args.py from src/Process.cpp — do not edit -/", "import Nstd.Args.CSemDmn", "",
           "set_option linter.unusedVariables false", "", "namespace Nstd.Args.GenD", "open Nstd.Args Nstd.Args.C", "",
           "/-- locals of `daemonize`; ghosts: the descriptor table, the log file's tag, what `::open` / `fork()` answer, the status passed to\n"
           "    `exit`, whether `setsid()` was called -/", rec, "\n\n".join(blocks), "", "end Nstd.Args.GenD", ""]
    return "\n".join(out)


def generate_vec(repo):
    """the statement behind `const char** args;` ("prepare argv of child") in Process::start(program, argc, argv, environment) and in
    Process::open(executable, argc, argv, streams, environment)"""
    cpp = posix_branch(scan((Path(repo) / "src/Process.cpp").read_text()))
    sites = [("startPrep", ["uint32", "Process", "::", "start", "(", "const", "String", "&", "program", ",", "int", "argc", ",", "char", "*",
                            "const", "argv", "[", "]", ",", "const", "Map", "<", "String", ",", "String", ">", "&", "environment", ")"],
              "program", "Process::start(program, argc, argv, environment)"),
             ("openPrep", ["bool", "Process", "::", "open", "(", "const", "String", "&", "executable", ",", "int", "argc", ",", "char", "*",
                           "const", "argv", "[", "]", ",", "uint", "streams", ",", "const", "Map", "<", "String", ",", "String", ">", "&",
                           "environment", ")"], "executable", "Process::open(executable, argc, argv, streams, environment)")]
    out = ["/- generated by tools/gen_args.py from src/Process.cpp — do not edit -/", "import Nstd.Args.CSemVec", "",
           "set_option linter.unusedVariables false", "", "namespace Nstd.Args.GenV", "open Nstd.Args Nstd.Args.C", "",
           "/-- `argc`, `argv`, the local vector `args`, the program / executable, the loop counter -/",
           "structure AS where\n  argc : Int\n  argv : Vec\n  args : Vec\n  program : List Nat\n  i : Int\n"]
    for name, sig, prog, what in sites:
        body = find_body(cpp, sig, what)
        texts = [t[1] if t[0] in ("id", "op") else None for t in body]
        pat = ["const", "char", "*", "*", "args", ";"]
        hits = [i for i in range(len(texts) - len(pat)) if texts[i:i + len(pat)] == pat]
        if len(hits) != 1:
            raise Refuse(f"{what}: the declaration `const char** args;` was found {len(hits)} times")
        p = Parser(list(body[hits[0] + len(pat):]), name)
        frag = p.stmt()
        if frag[0] != "if":
            raise Refuse(f"{what}: the statement behind `const char** args;` is not an if")
        def ren(x):
            if isinstance(x, tuple):
                if x and x[0] == "var" and x[1] == prog:
                    return ("var", "program")
                if x and x[0] in ("chr", "num", "str", "bool", "qual"):
                    return x
                return tuple(ren(y) for y in x)
            if isinstance(x, list):
                return [ren(y) for y in x]
            return x
        frag = rename_locals([ren(frag)], ["i"], name)
        f = Fn(name, "AS", "void", {"argc": "int", "argv": "vec", "args": "vec", "program": "string"}, {}, {}, True)
        f.proc = f.vecmode = True
        blocks = f.function(frag, "the statement behind `const char** args;` (\"prepare argv of child\") in `" + what + "`")
        if f.vars != {"argc": "int", "argv": "vec", "args": "vec", "program": "string", "i": "int"}:
            raise Refuse(f"{what}: unexpected variables {sorted(f.vars)}")
        out += ["\n\n".join(blocks), ""]
    out += ["end Nstd.Args.GenV", ""]
    return "\n".join(out)


def generate_fds(repo):
    """fragments of Process::open(executable, argc, argv, streams, environment): the parent branch behind vfork(), the child branch up to
    execvpe, the `error:` path"""
    cpp = posix_branch(scan((Path(repo) / "src/Process.cpp").read_text()))
    sig = ["bool", "Process", "::", "open", "(", "const", "String", "&", "executable", ",", "int", "argc", ",", "char", "*",
           "const", "argv", "[", "]", ",", "uint", "streams", ",", "const", "Map", "<", "String", ",", "String", ">", "&", "environment", ")"]
    body = find_body(cpp, sig, "Process::open(executable, argc, argv, streams, environment)")
    texts = [t[1] if t[0] in ("id", "op") else str(t[1]) if t[0] == "num" else None for t in body]

    def find(pat, what):
        hits = [i for i in range(len(texts) - len(pat) + 1) if texts[i:i + len(pat)] == pat]
        if len(hits) != 1:
            raise Refuse(f"open(): {what}: found {len(hits)} times")
        return hits[0]
    for arr in ("stdoutFds", "stderrFds", "stdinFds"):
        find(["int", arr, "[", "2", "]", "=", "{", "}", ";"], f"`int {arr}[2] = {{}};`")
    find(["int", "r", "=", "vfork", "(", ")", ";", "if", "(", "r", "==", "-", "1", ")", "goto", "error", ";", "else", "if", "(", "r", "!=", "0", ")"],
         "`int r = vfork(); if (r == -1) goto error; else if (r != 0)`")
    ip = find(["else", "if", "(", "r", "!=", "0", ")"], "the parent branch") + 7
    pp = Parser(list(body[ip:]), "openParent")
    parent = pp.stmt()
    if parent[0] != "block" or not (ip + pp.i < len(texts) and texts[ip + pp.i] == "else" and texts[ip + pp.i + 1] == "{"):
        raise Refuse("open(): the parent branch is not a block followed by `else {`")
    ic = ip + pp.i + 2
    ie = find(["if", "(", "execvpe", "("], "`if (execvpe(`")
    child = Parser(list(body[ic:ie]), "openChild").stmts()
    il = find(["error", ":"], "the label `error:`") + 2
    errp = Parser(list(body[il:]), "openError")
    error = errp.stmts()
    if errp.peek()[0] is not None:
        raise Refuse("open(): trailing tokens behind the error path")
    vars_ = {"fdStdOutRead": "fd", "fdStdErrRead": "fd", "fdStdInWrite": "fd", "pid": "usize", "r": "usize",
             "stdoutFds0": "fd", "stdoutFds1": "fd", "stderrFds0": "fd", "stderrFds1": "fd", "stdinFds0": "fd", "stdinFds1": "fd",
             "errno": "int", "tbl": "fdtable", "streams": "usize", "calls": "usize", "failK": "usize", "fresh": "fresh"}
    ik = find(["if", "(", "streams", "&", "stdoutStream", ")"], "`if (streams & stdoutStream)`")
    pk = Parser(list(body[ik:]), "openPipes")
    pipes = [pk.stmt(), pk.stmt(), pk.stmt()]
    for st, flag in zip(pipes, ("stdoutStream", "stderrStream", "stdinStream")):
        if st[0] != "if" or st[1] != ("bin", "&", ("var", "streams"), ("var", flag)) or st[3] is not None:
            raise Refuse(f"open(): the three statements that create the pipes are not `if (streams & {flag}) ..`")
    hppt = posix_branch(scan((Path(repo) / "include/nstd/Process.hpp").read_text()))
    streamflags = option_flags(hppt, "Stream")
    out = ["/- generated by tools/gen_args.py from src/Process.cpp — do not edit -/", "import Nstd.Args.CSemFds", "",
           "set_option linter.unusedVariables false", "", "namespace Nstd.Args.GenF", "open Nstd.Args Nstd.Args.C", ""]
    allvars = None
    defs = []
    for name, ret, frag, doc in (("openParent", "bool", [parent], "the parent branch `else if (r != 0) { .. }` behind `vfork()`"),
                                 ("openChild", "void", child, "the child branch `else { .. ` up to `if (execvpe(`"),
                                 ("openError", "bool", error, "the path behind the label `error:`"),
                                 ("openPipes", "bool", pipes, "the three statements `if (streams & ..) { if (pipe(..) != 0) goto error; }`")):
        f = Fn(name, "FS", ret, vars_, {}, streamflags, False, ["fdStdOutRead", "fdStdErrRead", "fdStdInWrite", "pid"])
        f.proc = f.fdsmode = True
        f.helpers = find_helpers(cpp)
        if name == "openPipes":
            f.labels = {"error": "openError E s"}
            f.fall = "some (.next s)"
        frag = rename_locals(frag, ["err"], name) if name == "openError" else frag
        blocks = f.function(frag, doc + " in `Process::open(executable, argc, argv, streams, environment)`")
        extra = {k: v for k, v in f.vars.items() if k not in vars_}
        if name == "openError":
            if extra != {"err": "usize"} and extra != {"err": "int"}:
                raise Refuse(f"open(): error path: unexpected locals {sorted(extra)}")
        elif extra:
            raise Refuse(f"open(): {name}: unexpected locals {sorted(extra)}")
        defs.append("\n\n".join(blocks))
    fvars = dict(vars_)
    fvars["err"] = "int"
    out += ["/-- the members, `r` (what `vfork()` returned in the parent), the three `int ..Fds[2]` arrays (two fields each), `errno`, `err`,\n"
            "    the descriptor table (ghost), `streams`; for the `pipe()` calls: the number of calls made, which call fails (0 = none),\n"
            "    the descriptors the kernel hands out -/",
            "structure FS where\n" + "".join(f"  {fld(v)} : {LEAN_TYPE[t]}\n" for v, t in fvars.items()), "\n\n".join(defs), "",
            "end Nstd.Args.GenF", ""]
    # every definition of this file is a simp lemma: the proofs of PropsOpen.lean do not name the numbered blocks, so a reordering of
    # the close calls / member assignments (same table transformer) does not break them
    return re.sub(r"(?m)^def ", "@[simp] def ", "\n".join(out))


def generate_sel(repo):
    """ssize Process::read(void* buffer, usize length, uint& streams) (POSIX branch)"""
    cpp = posix_branch(scan((Path(repo) / "src/Process.cpp").read_text()))
    hpp = posix_branch(scan((Path(repo) / "include/nstd/Process.hpp").read_text()))
    streams = option_flags(hpp, "Stream")
    texts = [t[1] if t[0] in ("id", "op") else None for t in hpp]
    for ty, name in (("int", "fdStdOutRead"), ("int", "fdStdErrRead"), ("int", "fdStdInWrite"), ("uint32", "pid")):
        if sum(1 for i in range(len(texts) - 2) if texts[i:i + 3] == [ty, name, ";"]) != 1:
            raise Refuse(f"class Process: data member `{ty} {name};` not found")
    body = parse_body(find_body(cpp, ["ssize", "Process", "::", "read", "(", "void", "*", "buffer", ",", "usize", "length", ",",
                                      "uint", "&", "streams", ")"], "Process::read(buffer, length, streams)"), "read3")
    body = rename_locals(body, ["fdr", "maxFd", "tv", "i"], "read3")
    # a descriptor member is a descriptor number (0 = none): Nat
    vars_ = {"fdStdOutRead": "fd", "fdStdErrRead": "fd", "fdStdInWrite": "fd", "pid": "usize", "length": "usize", "streams": "usize"}
    consts = {"EINVAL": ("usize", "EINVAL"), "EINTR": ("usize", "EINTR")}
    f = Fn("read3", "RD", "int", vars_, consts, streams, True, list(vars_)[:4])
    f.proc = f.sel = True
    f.declare(body)
    f.vars.update({"errno": "usize", "buffer": "string", "kr": "rsel", "evs": "evs"})
    allvars = dict(f.vars)
    blocks = f.function(body, "`ssize Process::read(void* buffer, usize length, uint& streams)` (POSIX branch)")
    if f.vars != allvars:
        raise Refuse("read3: undeclared variable")
    rec = ("structure RD where\n" + "".join(f"  {fld(v)} : {LEAN_TYPE[t]}\n" for v, t in allvars.items()))
    out = ["/- generated by tools/gen_args.py from src/Process.cpp and include/nstd/Process.hpp — do not edit -/",
           "import Nstd.Args.CSemSel", "", "set_option linter.unusedVariables false", "", "namespace Nstd.Args.GenS",
           "open Nstd.Args Nstd.Args.C", "", "/-- `enum Stream` -/"]
    out += [f"def {k} : Nat := {v}" for k, v in streams.items()]
    out += ["", "/-- data members of `class Process` (POSIX; a descriptor is its number, 0 = none), parameters and locals of the 3-argument `read`,\n"
            "    `errno`, what `::read` stored into `buffer`, the assumed kernel (`kr`) and the `select` oracle (`evs`) -/",
            rec, "\n\n".join(blocks), "", "end Nstd.Args.GenS", ""]
    return "\n".join(out)


def run(repo=None):
    """returns (ok, message); writes the generated file only when its content changed"""
    if repo is None:
        import common
        repo = common.REPO
    try:
        text = generate(repo)
        ptext = generate_proc(repo)
        stext = generate_sel(repo)
        gtext = generate_str(repo)
        dtext = generate_dmn(repo)
        vtext = generate_vec(repo)
        ftext = generate_fds(repo)
    except (Refuse, OSError, IndexError) as ex:
        return False, f"tools/gen_args.py refuses the current Process.cpp / Process.hpp / String.hpp (broken tie): {ex}"
    OUT.parent.mkdir(parents=True, exist_ok=True)
    for out, t in ((OUT, text), (OUT_PROC, ptext), (OUT_SEL, stext), (OUT_STR, gtext), (OUT_DMN, dtext), (OUT_VEC, vtext), (OUT_FDS, ftext)):
        if not out.exists() or out.read_text() != t:
            out.write_text(t)
    return True, hashlib.sha1((text + ptext + stext + gtext + dtext + vtext + ftext).encode()).hexdigest()[:12]


def stats():
    """what the three generated files contain (evidence)"""
    out = {}
    for f in (OUT, OUT_PROC, OUT_SEL, OUT_STR, OUT_DMN, OUT_VEC, OUT_FDS):
        if f.exists():
            t = f.read_text()
            out[f.name] = {"definitions": len(re.findall(r"(?m)^def ", t)), "loops": len(re.findall(r"(?m)^def \w+_loop\d+ ", t)),
                           "blocks": len(re.findall(r"(?m)^def \w+_b\d+ ", t)), "lines": t.count("\n")}
    return out


def gen(ctx):
    ok, msg = run()
    ctx.cov["translation"] = {"ok": ok, "sha1_or_reason": msg, "files": stats(),
                              "functions": ["Arguments::Arguments", "Arguments::nextChar", "Arguments::read", "Private::splitCommandLine",
                                            "Process::Process", "Process::~Process", "isRunning", "kill", "join(uint32&)", "join()",
                                            "close(uint)", "exit", "read(buffer, len)", "write", "setEnvironmentVariable", "getEnvironmentVariable",
                                            "read(buffer, length, streams)", "String::length", "String::find(const char*, char)",
                                            "String::compare(const char*, const char*, usize)", "daemonize",
                                            "the 'prepare argv of child' statement of start(program, argc, argv, env) and open(executable, argc, argv, streams, env)",
                                            "open(): the pipe()-creating statements with goto error, the parent branch behind vfork(), the child branch up to execvpe, the error: path"]}
    if ok:
        ctx.notes.append(f"translator: Nstd/Generated/ArgsCode.lean, ArgsProc.lean, ArgsSel.lean, ArgsStr.lean, ArgsDmn.lean, ArgsVec.lean, ArgsFds.lean regenerated from the current Process.cpp / Process.hpp / String.hpp (sha1 {msg})")
    return ok, msg


if __name__ == "__main__":
    sys.path.insert(0, str(VERIF / "tools"))
    ok, msg = run(sys.argv[1] if len(sys.argv) > 1 else None)
    print(("ok " if ok else "FAILED ") + msg)
    sys.exit(0 if ok else 1)
