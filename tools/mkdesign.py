#!/usr/bin/env python3
"""Inlines docs/<area>.md (the as-built design notes) into DESIGN.md between the AS-BUILT markers."""
from pathlib import Path
VERIF = Path(__file__).resolve().parents[1]
ORDER = ["avl", "hash", "seq", "life", "str", "variant", "buffer", "rc", "future", "sync", "callback", "server",
         "json", "xml", "sha", "codec", "path", "args"]
B, E = "<!-- BEGIN AS-BUILT -->", "<!-- END AS-BUILT -->"


def main():
    d = VERIF / "DESIGN.md"
    s = d.read_text()
    parts = []
    for a in ORDER:
        f = VERIF / "docs" / f"{a}.md"
        if f.exists():
            parts.append(f.read_text().strip() + "\n")
        else:
            parts.append(f"#### {a} — design note not written yet (see tools/areas/{a}.py MANIFEST text)\n")
    body = B + "\n\n" + "\n".join(parts) + "\n" + E
    if B in s and E in s:
        s = s[:s.index(B)] + body + s[s.index(E) + len(E):]
    else:
        marker = "--------------------------------------------------------------------------------------\n## 4. Defects"
        i = s.index(marker)
        s = (s[:i] + "--------------------------------------------------------------------------------------\n"
             "## 3b. The areas as built (written by the builder of each area; section 3 above is the plan they started from)\n\n"
             + body + "\n\n" + s[i:])
    d.write_text(s)
    print("DESIGN.md updated with", sum(1 for a in ORDER if (VERIF / 'docs' / f'{a}.md').exists()), "notes")


if __name__ == "__main__":
    main()
