#!/usr/bin/env python3
"""Inlines docs/<area>.md (the as-built design notes) into DESIGN.md between the AS-BUILT markers."""
from pathlib import Path
VERIF = Path(__file__).resolve().parents[1]
ORDER = ["avl", "hash", "seq", "life", "str", "variant", "buffer", "rc", "future", "sync", "callback", "server",
         "json", "xml", "sha", "codec", "path", "args"]
B, E = "<!-- BEGIN AS-BUILT -->", "<!-- END AS-BUILT -->"


SB, SE = "<!-- BEGIN SEEDED -->", "<!-- END SEEDED -->"
FB, FE = "<!-- BEGIN FIXED -->", "<!-- END FIXED -->"


def seeded_table():
    import json
    rows = ["| seed | property | what the change does (author: independent sub-agent) | needs | caught by | how |", "|---|---|---|---|---|---|"]
    n = det = 0
    for d in sorted((VERIF / "seeded").iterdir()):
        if not (d / "meta.json").exists() or d.name.startswith("_"):
            continue
        m = json.loads((d / "meta.json").read_text())
        r = json.loads((d / "result.json").read_text()) if (d / "result.json").exists() else {}
        by = ", ".join(r.get("detected_by", [])) or "**missed**"
        how = ""
        for run in reversed(r.get("runs", [])):
            for p, x in run["results"].items():
                if x.get("detected"):
                    v = x["violations"][0] if x.get("violations") else ""
                    how = f"{x['tier']}: " + ("broken proof/correspondence, no failing input" if "no-failing-input-found" in v else "concrete failing input")
            if how:
                break
        n += 1
        det += 1 if r.get("detected_by") else 0
        cut = lambda t, k: (t[:k] + "…") if len(t) > k else t
        rows.append(f"| {d.name} | {m.get('property')} | {cut(str(m.get('summary','')).replace('|','/').replace(chr(10),' '), 260)} | "
                    f"{cut(str(m.get('needs','')).replace('|','/').replace(chr(10),' '), 200)} | {by} | {how} |")
    return f"{det} of {n} confirmed seeded changes are reported by the check of the property they break.\n\n" + "\n".join(rows)


HB, HE = "<!-- BEGIN HARMLESS -->", "<!-- END HARMLESS -->"


def harmless_table():
    import json
    rows = ["| change | property | kind | what the change does (author: independent sub-agent) | quick check on the changed tree |", "|---|---|---|---|---|"]
    n = {"quiet": 0, "broken-tie-no-failing-input": 0, "ALARM-with-failing-input": 0}
    hd = VERIF / "harmless"
    if not hd.exists():
        return "(no harmless-change experiment recorded)"
    for d in sorted(hd.iterdir()):
        if not (d / "meta.json").exists():
            continue
        m = json.loads((d / "meta.json").read_text())
        r = json.loads((d / "result.json").read_text()) if (d / "result.json").exists() else {}
        o = r.get("last_outcome", "not run")
        n[o] = n.get(o, 0) + 1
        first = r.get("runs", [{}])[0].get("outcome", o)
        note = o if first == o else f"{o} (first run: {first}; machinery corrected since)"
        cut = lambda t, k: (t[:k] + "…") if len(t) > k else t
        rows.append(f"| {d.name} | {m.get('property')} | {m.get('kind','?')} | {cut(str(m.get('summary','')).replace('|','/').replace(chr(10),' '), 240)} | {note} |")
    head = (f"{sum(n.values())} behaviour-preserving changes (three per property: a structural refactoring, an equivalent rewrite, a change of an internal "
            f"policy the contract leaves open), each confirmed to pass the repository's tests: {n.get('quiet',0)} leave the check quiet, "
            f"{n.get('broken-tie-no-failing-input',0)} break the tie between model and code without a failing input (reported as `VIOLATION … no-failing-input-found`, "
            f"as the interface requires when the property is no longer shown to hold), {n.get('ALARM-with-failing-input',0)} raise an alarm with a purported failing input (= false alarm, to be corrected).")
    return head + "\n\n" + "\n".join(rows)


def fixed_table():
    import json
    kf = json.loads((VERIF / "known_findings.json").read_text())
    rows = ["| property | commit | repaired defect |", "|---|---|---|"]
    for e in kf.get("fixed", []):
        rows.append(f"| {e['property']} | {e['commit']} | {e['what'].replace('|','/')} |")
    out = f"{len(kf.get('fixed', []))} `fix:` commits in /repo (patch files under fixes/<area>/):\n\n" + "\n".join(rows)
    out += "\n\nOpen known findings (reported as KNOWN-FINDING, exit 0):\n\n"
    for e in kf.get("findings", []):
        out += f"* {e['id']} ({e['property']}, {e.get('status')}): {e['what']}\n"
    return out


IB, IE = "<!-- BEGIN IMPLCOV -->", "<!-- END IMPLCOV -->"


def implcov_table():
    import json
    f = VERIF / "docs" / "implcov" / "summary.json"
    if not f.exists():
        return "(not measured)"
    S = json.loads(f.read_text())
    rows = ["| property | file anchored by the property | instrumented lines | executed by the correspondence run | never executed |", "|---|---|---|---|---|"]
    for pid in sorted(S):
        for rel, x in sorted(S[pid]["files"].items()):
            i, e = x["instrumented"], x["executed"]
            rows.append(f"| {pid} ({S[pid]['tier']}) | {rel} | {i if i else 'not compiled into this harness'} | {e if i else ''} | {i - e if i else ''} |")
    return ("`tools/implcov.py` (gcov over the harness objects of a run on a scratch worktree; a measurement of the tie, not a check).  "
            "The never-executed lines are listed with their source text in `docs/implcov/<Cxx>.txt`; whole files count, so a file of which the "
            "property anchors only a part (String.cpp for C18, Socket.cpp for C13/C14) shows lines of unrelated functions too.  Code that runs "
            "in forked children leaving through `_exit` is counted only where the harness dumps the counters.\n\n" + "\n".join(rows))


def put(s, b, e, body, before):
    blk = b + "\n\n" + body + "\n\n" + e
    if b in s and e in s:
        return s[:s.index(b)] + blk + s[s.index(e) + len(e):]
    i = s.index(before)
    return s[:i] + blk + "\n\n" + s[i:]


def main():
    d = VERIF / "DESIGN.md"
    s = d.read_text()
    s = put(s, FB, FE, "### 4b. Defects repaired and findings kept (generated from known_findings.json)\n\n" + fixed_table(),
            "--------------------------------------------------------------------------------------\n## 5. Trusted base")
    s = put(s, HB, HE, "### 4d. Harmless changes and how the checks react (generated from harmless/*/result.json)\n\n" + harmless_table(),
            "--------------------------------------------------------------------------------------\n## 5. Trusted base")
    s = put(s, IB, IE, "### 4e. Lines of the anchored code executed by the correspondence runs (generated from docs/implcov/summary.json)\n\n" + implcov_table(),
            "--------------------------------------------------------------------------------------\n## 5. Trusted base")
    s = put(s, SB, SE, "### 4c. Seeded changes and which checks catch them (generated from seeded/*/result.json)\n\n" + seeded_table(),
            "--------------------------------------------------------------------------------------\n## 5. Trusted base")
    parts = []
    for a in ORDER:
        f = VERIF / "docs" / f"{a}.md"
        if f.exists():
            parts.append(f.read_text().strip() + "\n")
        else:
            parts.append(f"#### {a} — design note not written yet (see tools/areas/{a}.py MANIFEST text)\n")
    body = B + "\n\n" + "\n".join(parts) + "\n" + E
    if B in s and E in s:
        s = s[:s.index(B)] + body + s[s.index(E) + len(E):]
    else:
        marker = "--------------------------------------------------------------------------------------\n## 4. Defects"
        i = s.index(marker)
        s = (s[:i] + "--------------------------------------------------------------------------------------\n"
             "## 3b. The areas as built (written by the builder of each area; section 3 above is the plan they started from)\n\n"
             + body + "\n\n" + s[i:])
    d.write_text(s)
    print("DESIGN.md updated with", sum(1 for a in ORDER if (VERIF / 'docs' / f'{a}.md').exists()), "notes")


if __name__ == "__main__":
    main()
