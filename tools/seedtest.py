#!/usr/bin/env python3
"""Run the registered checks against the seeded changes in /verif/seeded/<id>/.

  seedtest.py [<id> ...] [--tier quick|thorough] [--all-props]

For each seeded change: `git -C /repo apply patch.diff`, run the check(s) of the property it
breaks (meta.json: "property"), undo with `git -C /repo checkout -- .`, and record in
seeded/<id>/result.json whether the check raised a VIOLATION.  /repo must be clean before.
"""
import json
import subprocess
import sys
import time
from pathlib import Path

VERIF = Path(__file__).resolve().parents[1]
import os
REPO = os.environ.get("NSTD_REPO", "/repo")   # a scratch worktree/snapshot when set (isolated experiments); /repo otherwise


def sh(cmd, **kw):
    return subprocess.run(cmd, stdout=subprocess.PIPE, stderr=subprocess.STDOUT, text=True, **kw)


def main():
    import fcntl
    lock = open("/tmp/nstd-seedtest" + REPO.replace("/", "_") + ".lock", "w")
    fcntl.flock(lock, fcntl.LOCK_EX)          # one seeded run on /repo at a time (waits)
    args = [a for a in sys.argv[1:] if not a.startswith("--")]
    tier = "quick"
    if "--tier" in sys.argv:
        tier = sys.argv[sys.argv.index("--tier") + 1]
        args = [a for a in args if a != tier]
    override = None
    if "--props" in sys.argv:
        override = sys.argv[sys.argv.index("--props") + 1].split(",")
        args = [a for a in args if a != ",".join(override)]
    ids = args or sorted(p.name for p in (VERIF / "seeded").iterdir() if (p / "patch.diff").exists())
    dirty = sh(["git", "-C", REPO, "status", "--porcelain", "--untracked-files=no"]).stdout.strip()
    if dirty:
        print("refusing: /repo has uncommitted changes:\n" + dirty)
        return 2
    summary = []
    for sid in ids:
        d = VERIF / "seeded" / sid
        meta = json.loads((d / "meta.json").read_text())
        props = meta["property"] if isinstance(meta["property"], list) else [meta["property"]]
        if override:
            props = override
        r = sh(["git", "-C", REPO, "apply", str(d / "patch.diff")])
        if r.returncode != 0:
            r = sh(["git", "-C", REPO, "apply", "--3way", str(d / "patch.diff")])
        if r.returncode != 0:
            print(f"{sid}: patch does not apply: {r.stdout[-300:]}")
            sh(["git", "-C", REPO, "checkout", "HEAD", "--", "."])
            summary.append((sid, props, "patch-does-not-apply"))
            continue
        res = {}
        saved = {p: (VERIF / "evidence" / f"{p}.json").read_bytes() for p in props if (VERIF / "evidence" / f"{p}.json").exists()}
        try:
            for p in props:
                t = time.time()
                c = sh(["python3", "tools/check.py", "--property", p, "--tier", tier], cwd=VERIF)
                viol = [l for l in c.stdout.splitlines() if l.startswith("VIOLATION")]
                res[p] = {"tier": tier, "exit": c.returncode, "violations": viol[:5], "wall_s": round(time.time() - t, 1),
                          "detected": c.returncode == 1 and bool(viol)}
                # keep the replay of the first violation next to the seed
                if viol:
                    rp = viol[0].split("replay=")[1].split()[0]
                    try:
                        (d / f"replay-{p}-{tier}.txt").write_text(Path(rp).read_text())
                    except OSError:
                        pass
        finally:
            sh(["git", "-C", REPO, "checkout", "HEAD", "--", "."])
            for p, b in saved.items():          # evidence files describe runs on the unchanged tree only
                (VERIF / "evidence" / f"{p}.json").write_bytes(b)
        old = {}
        if (d / "result.json").exists():
            old = json.loads((d / "result.json").read_text())
        old.setdefault("runs", []).append({"at": time.strftime("%Y-%m-%dT%H:%M:%SZ", time.gmtime()), "results": res})
        old["detected_by"] = sorted({p for run in old["runs"] for p, x in run["results"].items() if x["detected"]})
        (d / "result.json").write_text(json.dumps(old, indent=1) + "\n")
        summary.append((sid, props, "DETECTED" if all(x["detected"] for x in res.values()) else "MISSED " + str({p: x["exit"] for p, x in res.items()})))
        print(f"{sid}: {summary[-1][2]}", flush=True)
    print("\n".join(f"{s} {p} {r}" for s, p, r in summary))
    return 0


if __name__ == "__main__":
    sys.exit(main())
