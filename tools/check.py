#!/usr/bin/env python3
"""Entry point of every MANIFEST command:  check.py --property Cxx --tier quick|thorough [--replay file]"""
import argparse
import importlib
import os
import sys
import traceback
from pathlib import Path

sys.path.insert(0, str(Path(__file__).resolve().parent))
import common  # noqa: E402



def discover():
    """property id -> area module name, from tools/areas/*.py (each declares PROPERTIES = [...])"""
    import re
    areas = {}
    for f in sorted((Path(__file__).resolve().parent / "areas").glob("*.py")):
        m = re.search(r"^PROPERTIES\s*=\s*\[([^\]]*)\]", f.read_text(), re.M)
        if m:
            for pid in re.findall(r"C\d+", m.group(1)):
                areas[pid] = f.stem
    return areas


AREAS = discover()


def main():
    ap = argparse.ArgumentParser()
    ap.add_argument("--property", required=True)
    ap.add_argument("--tier", default=os.environ.get("VERIF_TIER", "quick"), choices=["quick", "thorough"])
    ap.add_argument("--replay")
    a = ap.parse_args()
    seed = int(os.environ.get("VERIF_SEED", "1") or 1)
    if a.property not in AREAS:
        print(f"property {a.property} has no check", file=sys.stderr)
        return 2
    mod = importlib.import_module("areas." + AREAS[a.property])
    ctx = common.Ctx(a.property, a.tier, seed, keep_replays=bool(a.replay))
    try:
        if a.replay:
            mod.replay(ctx, a.replay)
        else:
            mod.check(ctx)
            common.report_broken_proof(ctx)
    except Exception:
        tb = traceback.format_exc()
        print(tb, file=sys.stderr)
        ctx.broken.append("check machinery raised: " + tb[-800:])
        common.report_broken_proof(ctx)
    return ctx.finish()


if __name__ == "__main__":
    sys.exit(main())
