#!/usr/bin/env python3
"""Translator for the bodies of src/Callback.cpp and the `connect` / `disconnect` / `emit` templates of
include/nstd/Callback.hpp (property C12).

Reads the CURRENT sources (tokenizer + recursive-descent parser for the C++ subset these bodies are written in) and writes
them, statement by statement, as Lean functions over the heap operations of lean/Nstd/Callback/Heap.lean into
lean/Nstd/Generated/CallbackBody.lean:
    Callback::connect(emitter, signal, receiver, object, slot)      -> CallbackBody.connect
    Callback::disconnect(emitter, signal, receiver, slot)           -> CallbackBody.disconnect
    Callback::Listener::~Listener()                                 -> CallbackBody.dtorListener   (the body; the members die after it)
    Callback::Emitter::~Emitter()                                   -> CallbackBody.dtorEmitter
    Callback::Emitter::SignalActivation::~SignalActivation()        -> CallbackBody.dtorActivation
    the nine `connect` / `disconnect` templates of the header       -> CallbackBody.connectT / disconnectT (argument plumbing)
    the nine `emit` templates of the header                         -> CallbackBody.emitVisit / emitArgsInOrder
lean/Nstd/Callback/PropsTie.lean proves that these functions are the steps of the hand-written model on every state that
passes the model's audit.

Anything outside the understood subset is REFUSED (exception -> the check reports a broken tie).

How C++ becomes Lean (assumptions of the translation, listed in the MANIFEST note):
  * the heap `h : State` is threaded through the statements; a reference / iterator variable is a PATH into the heap
    ((e, g) = `e->signalData[g]`, (e, g, k) = k-th node of its `slots`, (l, e) = `l->slotData[e]`, (l, e, k)), bound once at its
    declaration; stores go through the path (`H.mod…`), loads read the current heap - aliasing is kept;
  * `p->signalData` / `p->slotData` dereference an object pointer: `H.derefE` / `H.derefL` (fault when the object is gone);
  * `m.find(k)`: the presence test is evaluated at that point (`H.sigHas` / `H.lHas`), `*it` is the path under the key;
    `m.insert(k, T())` = `H.sigInsert` / `H.lInsert`;  `*m.end()` of the listener's map reads as the empty list;
  * `for(i = X.begin(); i != X.end(); ++i) if(C) { S; break; }`  -> `match (X).findIdx? C with | none => h | some i => S`;
  * `for(i = X.begin()[, end = X.end()]; i != X.end() | end; ++i) B` -> `(X).foldl (fun h x => B) h` over the sequence as it is
    when the loop starts; REFUSED when B stores into / removes from / appends to a container of the same kind as X (so the
    sequence cannot change under the loop); `continue` = the body's result is the current heap;
  * `for(i = X.begin(), end = X.end(); i != end;) switch(i->state) {…}` whose every path either does `i = X.remove(i); break;`
    or rewrites `i->state` and reaches `++i` -> `H.slotsFilterMap` with the per-node function read off the switch (fall-through
    included);
  * `List<Slot>::Iterator i = X.begin(); … while(i != X.end() | end) { … }` whose body, for the node at `i`, either does
    `i = X.remove(i); continue;` or rewrites `i->state` and reaches `++i` as its last statement -> the same `H.slotsFilterMap`
    (`cursor_while`, `node_exec`: `if`s over `i->state` become an `if` chain over the node);
  * `a && b` with an assignment inside: nested `if`s in evaluation order; the value of `(x = y)` is y; `a || b` alike;
  * the condition C of a search loop: when C is, by its truth table over the comparisons in it, a conjunction of comparisons
    and negated comparisons, it is WRITTEN as that conjunction (comparisons oriented `node.field == value`, sorted) - so
    `a && b && !c`, `!(c || !a || !b)` and `b && !c && a` give the same text (`search_pred`); `p != 0` on a pointer = `p`;
  * a local `bool` / enum object takes its value at the declaration (`let v_name := …`); `c ? a : b` on values = `if c then a else b`;
  * `return;` / falling off the end = the current heap;
  * Map iteration order: `H.sigKeys` / `H.lKeys` give the keys in the model's (insertion) order; the C++ Map visits them in key
    order - theorems `dtor_listener_order_irrelevant` / `dtor_emitter_order_irrelevant` (PropsOrder.lean) show that the order
    does not matter;
  * a default-constructed `Slot()` / `Signal()` node has arbitrary field values (here 0 / `connected`); the bodies assign every
    field before anything reads it.
"""
import re
import sys
from pathlib import Path


class Refuse(Exception):
    pass


def strip_comments(src):
    src = re.sub(r"/\*.*?\*/", " ", src, flags=re.S)
    return re.sub(r"//[^\n]*", "", src)


TOK = re.compile(r"\s*(->\*|->|::|==|!=|<=|>=|&&|\|\||\+\+|--|[A-Za-z_]\w*|\d+|[{}()\[\];,<>=+\-*/!?:&.~|^%])")
IDENT = re.compile(r"[A-Za-z_]\w*$")
STATES = ("connected", "connecting", "disconnected")


def tokenize(text):
    toks, pos = [], 0
    text = text.rstrip()
    while pos < len(text):
        m = TOK.match(text, pos)
        if not m:
            if text[pos:].strip() == "":
                break
            raise Refuse(f"cannot tokenize at {text[pos:pos + 30]!r}")
        toks.append(m.group(1))
        pos = m.end()
    return toks


def balanced(src, start, open_="{", close="}"):
    depth = 0
    for i in range(start, len(src)):
        if src[i] == open_:
            depth += 1
        elif src[i] == close:
            depth -= 1
            if depth == 0:
                return i + 1
    raise Refuse("unbalanced braces")


def extract(src, what, sig_rx):
    """(parameter text, body text) of the one definition whose head matches sig_rx (ending before the parameter list)"""
    ms = list(re.finditer(sig_rx + r"\s*\(", src))
    if len(ms) != 1:
        raise Refuse(f"{what}: {len(ms)} definitions found, expected exactly one")
    m = ms[0]
    pend = balanced(src, m.end() - 1, "(", ")")
    params = src[m.end():pend - 1]
    rest = src[pend:]
    mb = re.match(r"\s*(:[^{;]*)?\{", rest)
    if not mb:
        raise Refuse(f"{what}: no body after the parameter list")
    bstart = pend + mb.end() - 1
    bend = balanced(src, bstart)
    return params, (mb.group(1) or "").strip(), src[bstart + 1:bend - 1]


# ---- parser --------------------------------------------------------------------------------------------------------------
class Parser:
    def __init__(self, toks, fn, names):
        self.t, self.i, self.fn = toks, 0, fn
        self.names = [set(names)]    # scopes of declared variable names (to tell a declaration from an expression)

    def peek(self, k=0):
        return self.t[self.i + k] if self.i + k < len(self.t) else None

    def eat(self, x=None):
        tok = self.peek()
        if tok is None or (x is not None and tok != x):
            raise Refuse(f"{self.fn}: expected {x!r}, found {tok!r}")
        self.i += 1
        return tok

    def known(self, n):
        return any(n in s for s in self.names)

    def stmts(self):
        out = []
        while self.peek() is not None and self.peek() != "}":
            out.append(self.stmt())
        return out

    def scoped(self, f):
        self.names.append(set())
        try:
            return f()
        finally:
            self.names.pop()

    def stmt(self):
        tok = self.peek()
        if tok == "{":
            self.eat("{")
            b = self.scoped(self.stmts)
            self.eat("}")
            return ("block", b)
        if tok == "if":
            self.eat("if"); self.eat("(")
            c = self.expr()
            self.eat(")")
            a = self.scoped(self.stmt)
            b = ("block", [])
            if self.peek() == "else":
                self.eat("else")
                b = self.scoped(self.stmt)
            return ("if", c, a, b)
        if tok == "for":
            return self.scoped(self.for_)
        if tok == "switch":
            self.eat("switch"); self.eat("(")
            c = self.expr()
            self.eat(")"); self.eat("{")
            segs = []          # [labels, stmts]
            while self.peek() != "}":
                if self.peek() == "case":
                    self.eat("case")
                    lab = self.expr_noternary()
                    self.eat(":")
                    if segs and not segs[-1][1]:
                        segs[-1][0].append(lab)
                    else:
                        segs.append([[lab], []])
                elif self.peek() == "default":
                    self.eat("default"); self.eat(":")
                    if segs and not segs[-1][1]:
                        segs[-1][0].append("default")
                    else:
                        segs.append([["default"], []])
                else:
                    if not segs:
                        raise Refuse(f"{self.fn}: statement before the first case label")
                    segs[-1][1].append(self.stmt())
            self.eat("}")
            return ("switch", c, segs)
        if tok in ("return", "break", "continue"):
            self.eat()
            if self.peek() != ";":
                raise Refuse(f"{self.fn}: `{tok}` with a value")
            self.eat(";")
            return (tok,)
        if tok == "while":
            self.eat("while"); self.eat("(")
            c = self.expr()
            self.eat(")")
            body = self.scoped(self.stmt)
            return ("while", c, body)
        if tok in ("do", "goto", "delete", "new", "try", "throw"):
            raise Refuse(f"{self.fn}: statement `{tok}` is outside the translated subset")
        if tok == ";":
            self.eat(";")
            return ("block", [])
        if tok == "typedef":
            # `typedef A::B::T T;` - a short name for a type; types are skipped anyway
            while self.eat() != ";":
                pass
            return ("block", [])
        if tok == "ASSERT" and self.peek(1) == "(":
            # a debug check (Debug.hpp): no effect; the translation assumes nothing from it
            self.eat(); 
            depth = 0
            while True:
                t = self.eat()
                if t == "(":
                    depth += 1
                elif t == ")":
                    depth -= 1
                    if depth == 0:
                        break
            self.eat(";")
            return ("block", [])
        if (IDENT.match(tok) and not self.known(tok) and tok in ("Slot", "Signal") and IDENT.match(self.peek(1) or "")
                and self.peek(2) == ";"):
            # `Slot newSlot;` - a local node object whose fields are assigned one by one and which is appended afterwards
            ty = self.eat(); name = self.eat(); self.eat(";")
            self.names[-1].add(name)
            return ("declvar", ty, name)
        if self.is_decl():
            d = self.decl()
            self.eat(";")
            return d
        e = self.expr()
        self.eat(";")
        return ("expr", e)

    def is_decl(self):
        tok = self.peek()
        if tok in ("const", "static", "unsigned", "bool", "int", "usize", "void", "auto"):
            return True
        if not IDENT.match(tok) or self.known(tok) or tok in ("this",):
            return False
        # an identifier that is no variable: a type name (followed by `<`, `::`, `&`, `*` or the declared name)
        return True

    def decl(self):
        """type declarator (= init)? (, declarator = init)*   - the type is skipped: the initialiser determines the value"""
        decls = []
        # skip the type: up to the identifier that is followed by `=`, `(`-constructor is refused
        j = self.i
        depth = 0
        while True:
            tok = self.t[j] if j < len(self.t) else None
            if tok is None or tok in (";", "{", "}"):
                raise Refuse(f"{self.fn}: declaration without initialiser near `{' '.join(self.t[self.i:self.i + 8])}`")
            if tok == "<":
                depth += 1
            elif tok == ">":
                depth -= 1
            elif tok == "=" and depth == 0:
                break
            elif tok == "(" and depth == 0:
                raise Refuse(f"{self.fn}: declaration with constructor arguments near `{' '.join(self.t[self.i:self.i + 8])}`")
            j += 1
        name = self.t[j - 1]
        if not IDENT.match(name):
            raise Refuse(f"{self.fn}: declarator `{name}`")
        tytoks = self.t[self.i:j - 1]
        self.i = j
        while True:
            self.eat("=")
            e = self.expr_noassign()
            decls.append((name, e, tytoks))
            self.names[-1].add(name)
            if self.peek() == ",":
                self.eat(",")
                name = self.eat()
                if not IDENT.match(name):
                    raise Refuse(f"{self.fn}: declarator `{name}`")
                continue
            break
        return ("decl", decls)

    def for_(self):
        self.eat("for"); self.eat("(")
        init = None
        if self.peek() != ";":
            if not self.is_decl():
                raise Refuse(f"{self.fn}: for-init is no declaration")
            init = self.decl()
        self.eat(";")
        cond = None if self.peek() == ";" else self.expr()
        self.eat(";")
        step = None if self.peek() == ")" else self.expr()
        self.eat(")")
        body = self.scoped(self.stmt)
        return ("for", init, cond, step, body)

    # expressions: assignment < ternary < || < && < ==,!= < unary < postfix
    def expr(self):
        lhs = self.ternary()
        if self.peek() == "=":
            self.eat("=")
            return ("assign", lhs, self.expr())
        return lhs

    def expr_noassign(self):
        e = self.ternary()
        if self.peek() == "=":
            raise Refuse(f"{self.fn}: chained assignment in an initialiser")
        return e

    def expr_noternary(self):
        return self.oror()

    def ternary(self):
        c = self.oror()
        if self.peek() == "?":
            self.eat("?")
            a = self.expr()
            self.eat(":")
            b = self.ternary()
            return ("cond", c, a, b)
        return c

    def oror(self):
        a = self.andand()
        while self.peek() == "||":
            self.eat()
            a = ("or", a, self.andand())
        return a

    def andand(self):
        a = self.equality()
        while self.peek() == "&&":
            self.eat()
            a = ("and", a, self.equality())
        return a

    def equality(self):
        a = self.unary()
        while self.peek() in ("==", "!="):
            op = self.eat()
            a = ("eq" if op == "==" else "ne", a, self.unary())
        if self.peek() in ("<", ">", "<=", ">=", "+", "-", "/", "%", "|", "^", "[", "->*"):
            raise Refuse(f"{self.fn}: operator `{self.peek()}` is outside the translated subset")
        return a

    def unary(self):
        tok = self.peek()
        if tok == "!":
            self.eat()
            return ("not", self.unary())
        if tok == "++":
            self.eat()
            return ("preinc", self.unary())
        if tok == "*":
            self.eat()
            return ("deref", self.unary())
        if tok == "&":
            self.eat()
            return ("addr", self.unary())
        if tok in ("--", "~", "-", "+"):
            raise Refuse(f"{self.fn}: operator `{tok}` is outside the translated subset")
        return self.postfix()

    def qualified(self, first):
        """A::B<..>::C   -> the list of components (template arguments dropped)"""
        comps = [first]
        while True:
            if self.peek() == "<" and comps[-1] in ("Map", "List"):
                depth = 0
                while True:
                    t = self.eat()
                    if t == "<":
                        depth += 1
                    elif t == ">":
                        depth -= 1
                        if depth == 0:
                            break
            if self.peek() == "::":
                self.eat("::")
                comps.append(self.eat())
            else:
                return comps

    def postfix(self):
        tok = self.eat()
        if tok == "(":
            a = self.expr()
            self.eat(")")
        elif tok == "0":
            a = ("null",)
        elif tok in ("true", "false"):
            a = ("bool", tok)
        elif tok == "this":
            a = ("id", "this")
        elif IDENT.match(tok):
            comps = self.qualified(tok)
            if len(comps) > 1 or not self.known(tok):
                # a type or an enumerator: `T()` = value-initialised temporary, `Slot::connected` = enumerator
                if self.peek() == "(":
                    self.eat("(")
                    args = self.args()
                    a = ("construct", comps, args)
                else:
                    a = ("qname", comps)
            else:
                a = ("id", tok)
        else:
            raise Refuse(f"{self.fn}: unexpected token {tok!r}")
        while self.peek() in ("->", ".", "[", "++", "--", "("):
            op = self.eat()
            if op == "(":
                if a[0] != "id":
                    raise Refuse(f"{self.fn}: call of a computed function")
                a = ("call", a[1], self.args())
                continue
            if op not in ("->", "."):
                raise Refuse(f"{self.fn}: operator `{op}` is outside the translated subset")
            f = self.eat()
            if not IDENT.match(f):
                raise Refuse(f"{self.fn}: member `{f}`")
            if self.peek() == "(":
                self.eat("(")
                a = ("mcall", op, a, f, self.args())
            else:
                a = ("member", op, a, f)
        return a

    def args(self):
        out = []
        if self.peek() == ")":
            self.eat(")")
            return out
        while True:
            out.append(self.expr())
            if self.peek() == ",":
                self.eat(",")
                continue
            self.eat(")")
            return out


# ---- symbolic values -------------------------------------------------------------------------------------------------------
class V:
    """kind + fields; kinds:
    E / L: object pointer (term);  val: scalar (term, ty in nat|bool|state|act)
    sigmap(e) lmap(l);  sigit(e, g, present) lit(l, e, present);  end(container)
    data(e, g);  slist(e, g);  sit(e, g, k) = iterator / reference to node k;  sval(x) = a node by value (loop variable)
    llist(l, e);  lsit(l, e, k);  lsval(x);  keyE(e, key) / keyL(l, key): map iterator of a for-each loop;  this_act(a)"""

    def __init__(self, kind, **kw):
        self.kind = kind
        self.__dict__.update(kw)

    def key(self):
        return (self.kind,) + tuple(sorted((k, v) for k, v in self.__dict__.items() if k not in ("kind", "present", "varname")))

    def __repr__(self):
        return "V" + repr(self.key())


def has_jump(s):
    k = s[0]
    if k in ("return", "continue", "break"):
        return True
    if k == "block":
        return any(has_jump(x) for x in s[1])
    if k == "if":
        return has_jump(s[2]) or has_jump(s[3])
    return False     # loops / switch: their own breaks are theirs; a return inside is refused there


class Tr:
    S = "h"      # the state threaded through the statements

    def __init__(self, fn, this=None):
        self.fn = fn
        self.n = 0
        self.this = this
        self.frozen = []        # kinds of containers a for-each loop in progress iterates over
        self.in_loop = 0

    def fresh(self, base):
        self.n += 1
        return f"{base}{self.n}"

    def refuse(self, msg):
        raise Refuse(f"{self.fn}: {msg}")

    # --- statements.  tr(stmts, cont, env, ind) -> Lean text of type State; cont = (stmts, cont) to run on normal completion
    def tr(self, stmts, cont, env, ind):
        if not stmts:
            if cont is None:
                return f"{ind}{self.S}"
            return self.tr(cont[0], cont[1], cont[2], ind)
        s, rest = stmts[0], stmts[1:]
        k = s[0]
        if k == "block":
            # scoping: names declared inside do not escape; env is copied
            if not s[1]:
                return self.tr(rest, cont, env, ind)
            return self.tr(s[1], (rest, cont, env), dict(env), ind)
        if k in ("return", "continue"):
            if rest:
                self.refuse(f"statements after `{k}`")
            if k == "return" and self.in_loop:
                self.refuse("`return` inside a loop")
            if k == "continue" and not self.in_loop:
                self.refuse("`continue` outside a loop")
            return f"{ind}{self.S}"
        if k == "break":
            self.refuse("`break` outside the understood loop forms")
        if k == "expr":
            lines = []
            self.effect(s[1], env, lines)
            return "".join(f"{ind}{l}\n" for l in lines) + self.tr(rest, cont, env, ind)
        if k == "declvar":
            env[s[2]] = V("lnode", ty=s[1], fields={})
            return self.tr(rest, cont, env, ind)
        if k == "decl":
            lines = []
            for name, e, ty in s[1]:
                if e[0] == "mcall" and e[3] == "begin" and not e[4] and "Iterator" in ty:
                    Xc = self.ev(e[2], env, lines)
                    if Xc.kind != "slist":
                        self.refuse(f"`{name}`: iterator over something else than a slot list outside a for loop")
                    env[name] = V("cursor", of=Xc)
                    continue
                if e == ("null",) and "*" in ty and "Listener" in ty and "const" not in ty[ty.index("*"):]:
                    lines.append(f"let v_{name} : Option Nat := none")
                    env[name] = V("mvar", term=f"v_{name}")
                    continue
                v = self.ev(e, env, lines)
                if v.kind in ("sigit", "lit") and "Iterator" not in ty:
                    self.refuse(f"`{name}`: an iterator stored in a non-iterator")
                if v.kind in ("sigit", "lit"):
                    v.varname = name
                if v.kind == "val" and "&" not in ty and "*" not in ty and v.ty in ("bool", "state"):
                    # a local object (not a reference): its value is taken now
                    lines.append(f"let v_{name} := {v.term}")
                    v = V("val", term=f"v_{name}", ty=v.ty)
                env[name] = v
            return "".join(f"{ind}{l}\n" for l in lines) + self.tr(rest, cont, env, ind)
        if k == "if":
            if not has_jump(s[2]) and not has_jump(s[3]):
                body = self.cond(s[1], env, ind + "  ",
                                 lambda i: self.tr([s[2]], None, dict(env), i),
                                 lambda i: self.tr([s[3]], None, dict(env), i))
                return f"{ind}let {self.S} :=\n{body}\n" + self.tr(rest, cont, env, ind)
            c2 = (rest, cont, env)
            return self.cond(s[1], env, ind,
                             lambda i: self.tr([s[2]], c2, dict(env), i),
                             lambda i: self.tr([s[3]], c2, dict(env), i))
        if k == "for":
            if self.S != "h":
                self.refuse("loop in a constructor")
            self._binder = "h"
            body = self.loop(s, dict(env), ind + "  ")
            binder, self._binder = self._binder, "h"
            return f"{ind}let {binder} :=\n{body}\n" + self.tr(rest, cont, env, ind)
        if k == "while":
            if self.S != "h":
                self.refuse("loop in a constructor")
            body = self.cursor_while(s, env, ind + "  ")
            return f"{ind}let h :=\n{body}\n" + self.tr(rest, cont, env, ind)
        if k == "switch":
            self.refuse("`switch` outside the understood loop form")
        self.refuse(f"statement kind {k}")

    # --- `i = X.begin(); … while(i != X.end()) { … }` over a slot list: every node is visited once; the body either removes the
    #     node (`i = X.remove(i); continue;`) or rewrites its state and reaches `++i` at the end
    def cursor_while(self, s, env, ind):
        _, cond, body = s
        if not (cond[0] == "ne" and cond[1][0] == "id"):
            self.refuse("while condition is not `i != end`")
        name = cond[1][1]
        cur = env.get(name)
        if cur is None or cur.kind != "cursor":
            self.refuse("while loop whose variable is no iterator declared as `X.begin()`")
        lines = []
        e = self.ev(cond[2], env, lines)
        if lines or e.kind != "end" or e.of != cur.of.key():
            self.refuse("while condition does not compare with the end of the list the iterator walks")
        X = cur.of
        self.mutate("slist")
        stmts = body[1] if body[0] == "block" else [body]
        x = self.fresh("x")
        f = self.node_exec(stmts, None, name, X, env, x)
        del env[name]        # the iterator is at the end now
        return f"{ind}H.slotsFilterMap h {X.e} {X.g} (fun {x} => {f})"

    def node_exec(self, stmts, cont, name, X, env, x):
        """what one round of the loop body does to the node `x`: `none` = removed, `some x'` = kept (rewritten)"""
        if not stmts:
            if cont is None:
                self.refuse("the loop body ends without `++i`")
            return self.node_exec(cont[0], cont[1], name, X, env, x)
        st, rest = stmts[0], stmts[1:]
        if st[0] == "block":
            return self.node_exec(st[1], (rest, cont), name, X, env, x)
        if st[0] == "if":
            env1 = dict(env)
            env1[name] = V("sval", x=x)
            c = self.pure_bool(st[1], env1)
            a = self.node_exec([st[2]], (rest, cont), name, X, env, x)
            b = self.node_exec([st[3]], (rest, cont), name, X, env, x)
            return f"(if {c} then {a} else {b})"
        if st[0] == "expr":
            e = st[1]
            if e == ("preinc", ("id", name)):
                if rest or cont not in (None,) and any(c for c in self.flatten(cont)):
                    self.refuse("statements after `++i`")
                return f"some {x}"
            if (e[0] == "assign" and e[1] == ("id", name) and e[2][0] == "mcall" and e[2][3] == "remove"
                    and e[2][4] == [("id", name)] and self.ev(e[2][2], env, []).key() == X.key()):
                if rest[:1] != [("continue",)] or rest[1:]:
                    self.refuse("`i = X.remove(i)` is not followed by `continue`")
                return "none"
            if e[0] == "assign" and e[1] == ("member", "->", ("id", name), "state") and e[2][0] == "qname" and e[2][1][-1] in STATES:
                inner = self.node_exec(rest, cont, name, X, env, x)
                return f"(let {x} := {{ {x} with state := .{e[2][1][-1]} }}; {inner})"
        self.refuse("statement inside the cursor loop outside the understood forms")

    def flatten(self, cont):
        out = []
        while cont is not None:
            out += cont[0]
            cont = cont[1]
        return out

    # --- conditions: text of an `if … then … else …` of type State; side effects of the condition are emitted in order
    def cond(self, e, env, ind, then_, else_):
        if e[0] == "and":
            return self.cond(e[1], env, ind, lambda i: self.cond(e[2], env, i, then_, else_), else_)
        if e[0] == "not":
            return self.cond(e[1], env, ind, else_, then_)
        if e[0] == "or":
            return self.cond(e[1], env, ind, then_, lambda i: self.cond(e[2], env, i, then_, else_))
        lines = []
        v = self.ev(e, env, lines)
        c = self.truth(v)
        pre = "".join(f"{ind}{l}\n" for l in lines)
        return f"{pre}{ind}if {c} then\n{then_(ind + '  ')}\n{ind}else\n{else_(ind + '  ')}"

    def truth(self, v):
        if v.kind == "val" and v.ty == "bool":
            return v.term
        if v.kind == "val" and v.ty == "act":
            return f"({v.term}).isSome"
        if v.kind == "hasdata":
            return v.term
        self.refuse(f"truth value of {v}")

    def pure_bool(self, e, env):
        """a condition without side effects as one Bool term"""
        if e[0] == "and":
            return f"({self.pure_bool(e[1], env)} && {self.pure_bool(e[2], env)})"
        if e[0] == "or":
            return f"({self.pure_bool(e[1], env)} || {self.pure_bool(e[2], env)})"
        if e[0] == "not":
            return f"(!{self.pure_bool(e[1], env)})"
        lines = []
        v = self.ev(e, env, lines)
        if lines:
            self.refuse("side effect in a loop condition")
        return self.truth(v)

    def search_pred(self, e, env, x):
        """the condition of a search loop over the node `x`.  A Boolean combination of comparisons that is equivalent (truth
        table over the comparisons) to a conjunction of comparisons and negated comparisons is written as that conjunction,
        comparisons oriented `x.field == value` and sorted: `a && b && !c`, `!(c || !a || !b)`, `b && !c && a` give one text"""
        atoms = {}

        def walk(t):
            if t[0] in ("and", "or"):
                return (t[0], walk(t[1]), walk(t[2]))
            if t[0] == "not":
                return ("not", walk(t[1]))
            if t[0] in ("eq", "ne"):
                lines = []
                a = self.ev(t[1], env, lines)
                b = self.ev(t[2], env, lines)
                if lines:
                    self.refuse("side effect in a loop condition")

                def term(v):
                    if v.kind == "val" and v.ty == "state":
                        return v.term
                    return self.nat(v)
                ta, tb = term(a), term(b)
                if tb.startswith(x + ".") and not ta.startswith(x + "."):
                    ta, tb = tb, ta
                key = (ta, tb)
                atoms[key] = None
                return ("atom", key) if t[0] == "eq" else ("not", ("atom", key))
            return None
        f = walk(e)

        def has_none(t):
            return t is None or (t[0] in ("and", "or") and (has_none(t[1]) or has_none(t[2]))) or (t[0] == "not" and has_none(t[1]))
        if has_none(f) or len(atoms) > 6:
            return self.pure_bool(e, env)
        keys = sorted(atoms)

        def val(t, asg):
            if t[0] == "atom":
                return asg[t[1]]
            if t[0] == "not":
                return not val(t[1], asg)
            if t[0] == "and":
                return val(t[1], asg) and val(t[2], asg)
            return val(t[1], asg) or val(t[2], asg)
        sat = []
        for m in range(1 << len(keys)):
            asg = {k: bool(m >> i & 1) for i, k in enumerate(keys)}
            if val(f, asg):
                sat.append(asg)
        fixed = [(k, sat[0][k]) for k in keys if sat and all(a[k] == sat[0][k] for a in sat)]
        if not sat or len(sat) != 1 << (len(keys) - len(fixed)) or not fixed:
            return self.pure_bool(e, env)
        lits = [f"({k[0]} {'==' if pos else '!='} {k[1]})" for k, pos in fixed]
        out = lits[0]
        for l in lits[1:]:
            out = f"({out} && {l})"
        return out

    # --- loops
    def loop(self, s, env, ind):
        _, init, cond, step, body = s
        if init is None or cond is None:
            self.refuse("for loop without init / condition")
        decls = init[1]
        lines = []
        name, e0, _ = decls[0]
        if not (e0[0] == "mcall" and e0[3] == "begin" and not e0[4]):
            self.refuse("for loop that does not start at `X.begin()`")
        X = self.ev(e0[2], env, lines)
        endname = None
        if len(decls) == 2:
            endname, e1, _ = decls[1]
            if not (e1[0] == "mcall" and e1[3] == "end" and not e1[4]) or self.ev(e1[2], env, lines).key() != X.key():
                self.refuse("second for-init declarator is not `end = X.end()` of the same container")
        elif len(decls) != 1:
            self.refuse("for-init with more than two declarators")
        # the condition: i != X.end()  |  i != end
        ok = cond[0] == "ne" and cond[1] == ("id", name)
        if ok:
            r = cond[2]
            if r == ("id", endname) and endname is not None:
                pass
            elif r[0] == "mcall" and r[3] == "end" and not r[4] and self.ev(r[2], env, lines).key() == X.key():
                pass
            else:
                ok = False
        if not ok:
            self.refuse("loop condition is not `i != X.end()`")
        pre = "".join(f"{ind}{l}\n" for l in lines)
        if step is None:
            return pre + self.purge_loop(name, X, body, env, ind)
        if step != ("preinc", ("id", name)):
            self.refuse("loop step is not `++i`")
        b = body
        while b[0] == "block" and len(b[1]) == 1:
            b = b[1][0]
        if b[0] == "if" and b[3] == ("block", []) and self.ends_with_break(b[2]):
            return pre + self.find_first(name, X, b, env, ind)
        return pre + self.for_each(name, X, body, env, ind)

    def ends_with_break(self, s):
        return s[0] == "block" and s[1] and s[1][-1] == ("break",) and not any(has_jump(x) for x in s[1][:-1])

    def seq_of(self, X):
        if X.kind == "slist":
            return f"(H.slots h {X.e} {X.g})", "slist"
        if X.kind == "llist":
            return f"(H.lsigs h {X.l} {X.e})", "llist"
        if X.kind == "sigmap":
            return f"(H.sigKeys h {X.e})", "sigmap"
        if X.kind == "lmap":
            return f"(H.lKeys h {X.l})", "lmap"
        self.refuse(f"loop over {X}")

    def find_first(self, name, X, b, env, ind):
        seq, kind = self.seq_of(X)
        if kind not in ("slist", "llist"):
            self.refuse("search loop over a map")
        x = self.fresh("x")
        env1 = dict(env)
        env1[name] = V("sval", x=x) if kind == "slist" else V("lsval", x=x)
        pred = self.search_pred(b[1], env1, x)
        i = self.fresh("i")
        env2 = dict(env)
        env2[name] = V("sit", e=X.e, g=X.g, k=i) if kind == "slist" else V("lsit", l=X.l, e=X.e, k=i)
        body = self.tr(b[2][1][:-1], None, env2, ind + "    ")
        return (f"{ind}match {seq}.findIdx? (fun {x} => {pred}) with\n{ind}| none => h\n{ind}| some {i} =>\n{body}")

    def for_each(self, name, X, body, env, ind):
        seq, kind = self.seq_of(X)
        x = self.fresh("x")
        env1 = dict(env)
        env1[name] = {"slist": V("sval", x=x), "llist": V("lsval", x=x),
                      "sigmap": V("keyE", e=getattr(X, "e", None), key=x),
                      "lmap": V("keyL", l=getattr(X, "l", None), key=x)}[kind]
        # pointer locals declared before the loop and assigned in it are carried through the fold beside the heap
        def assigned(t, acc):
            if isinstance(t, (tuple, list)):
                if len(t) == 3 and t[0] == "assign" and isinstance(t[1], tuple) and t[1][0] == "id":
                    acc.add(t[1][1])
                for u in t:
                    assigned(u, acc)
            return acc
        mv = sorted(n for n in assigned(body, set()) if n in env and env[n].kind == "mvar")
        state = "h" if not mv else "(h, " + ", ".join(env[n].term for n in mv) + ")"
        self.frozen.append(kind)
        self.in_loop += 1
        old_S = self.S
        self.S = state
        try:
            b = self.tr([body], None, env1, ind + "    ")
        finally:
            self.S = old_S
            self.in_loop -= 1
            self.frozen.pop()
        self._binder = state
        return f"{ind}{seq}.foldl (fun {state} {x} =>\n{b}) {state}"

    def purge_loop(self, name, X, body, env, ind):
        if X.kind != "slist":
            self.refuse("cursor loop over something else than a slot list")
        b = body
        while b[0] == "block" and len(b[1]) == 1:
            b = b[1][0]
        if b[0] != "switch":
            # `if`s over the node instead of a switch: the same per-node execution as for the while form
            self.mutate("slist")
            x = self.fresh("x")
            stmts = body[1] if body[0] == "block" else [body]
            f = self.node_exec(stmts, None, name, X, env, x)
            return f"{ind}H.slotsFilterMap h {X.e} {X.g} (fun {x} => {f})"
        if b[1] != ("member", "->", ("id", name), "state"):
            self.refuse("cursor loop whose body is not `switch(i->state)`")
        self.mutate("slist")
        segs = b[2]
        labels = []
        for labs, _ in segs:
            labels += labs
        if len(set(map(repr, labels))) != len(labels):
            self.refuse("duplicate case label")
        x = self.fresh("x")

        def path_from(k):
            """result of executing from segment k on: none (removed) or some x'"""
            cur = x
            for labs, stmts in segs[k:]:
                for st in stmts:
                    if st == ("break",):
                        self.refuse("a case path leaves the switch without `++i` or `remove`")
                    if st[0] != "expr":
                        self.refuse("statement inside the switch of the cursor loop")
                    e = st[1]
                    if e == ("preinc", ("id", name)):
                        return f"some {cur}", k
                    if (e[0] == "assign" and e[1] == ("id", name) and e[2][0] == "mcall" and e[2][3] == "remove"
                            and e[2][4] == [("id", name)] and self.ev(e[2][2], env, []).key() == X.key()):
                        return "none", k
                    if e[0] == "assign" and e[1] == ("member", "->", ("id", name), "state") and e[2][0] == "qname" and e[2][1][-1] in STATES:
                        cur = f"{{ {cur} with state := .{e[2][1][-1]} }}"
                        continue
                    self.refuse("statement inside the switch of the cursor loop")
            self.refuse("a case path runs off the switch without `++i`")

        # `i = remove(i)` must be followed by `break`, `++i` must be the last statement of the switch: check shapes
        for k, (labs, stmts) in enumerate(segs):
            for j, st in enumerate(stmts):
                if st[0] == "expr" and st[1][0] == "assign" and st[1][1] == ("id", name):
                    if j + 1 >= len(stmts) or stmts[j + 1] != ("break",) or j + 2 != len(stmts):
                        self.refuse("`i = X.remove(i)` is not followed by `break`")
                if st[0] == "expr" and st[1] == ("preinc", ("id", name)):
                    if k != len(segs) - 1 or j != len(stmts) - 1:
                        self.refuse("`++i` is not the last statement of the switch")
        arms, default = [], None
        for k, (labs, stmts) in enumerate(segs):
            # a segment ending in break: the path stops there
            res = None
            body_stmts = stmts
            if stmts and stmts[-1] == ("break",):
                # executed alone
                saved = segs[k + 1:]
                del segs[k + 1:]
                segs[k] = [labs, stmts[:-1]]
                try:
                    res = self.path_one(segs[k][1], name, X, env, x)
                finally:
                    segs[k] = [labs, stmts]
                    segs.extend(saved)
            else:
                res, _ = path_from(k)
            for lab in labs:
                if lab == "default":
                    default = res
                elif lab[0] == "qname" and lab[1][-1] in STATES:
                    arms.append((lab[1][-1], res))
                else:
                    self.refuse("case label is no slot state")
        if default is None:
            default = f"some {x}" if False else None
        if default is None:
            self.refuse("switch without default (a state would loop for ever)")
        f = ""
        for st, res in arms:
            f += f"if {x}.state = .{st} then {res} else "
        f += default
        return f"{ind}H.slotsFilterMap h {X.e} {X.g} (fun {x} => {f})"

    def path_one(self, stmts, name, X, env, x):
        cur = x
        for st in stmts:
            if st[0] != "expr":
                self.refuse("statement inside the switch of the cursor loop")
            e = st[1]
            if (e[0] == "assign" and e[1] == ("id", name) and e[2][0] == "mcall" and e[2][3] == "remove"
                    and e[2][4] == [("id", name)] and self.ev(e[2][2], env, []).key() == X.key()):
                return "none"
            if e[0] == "assign" and e[1] == ("member", "->", ("id", name), "state") and e[2][0] == "qname" and e[2][1][-1] in STATES:
                cur = f"{{ {cur} with state := .{e[2][1][-1]} }}"
                continue
            self.refuse("statement inside the switch of the cursor loop")
        self.refuse("a case path ends in `break` without removing the node (the loop would not advance)")

    def mutate(self, kind):
        if kind in self.frozen:
            self.refuse(f"a loop body changes a container of the kind ({kind}) the loop iterates over")

    # --- expressions with effects
    def effect(self, e, env, lines):
        if e[0] == "assign":
            self.store(e[1], e[2], env, lines)
            return
        v = self.ev(e, env, lines)   # calls like `signals.remove(i)`; the value is dropped
        return

    def store(self, lhs, rhs, env, lines):
        """lhs = rhs; returns the value stored"""
        if lhs[0] == "id" and lhs[1] in env and env[lhs[1]].kind in ("sigit", "lit"):
            # `it = m.insert(k, T())` after `it = m.find(k)` found nothing: the iterator of the same key, now present.
            # (its presence flag is not tracked any further: a later comparison of this variable with end() is refused)
            old = env[lhs[1]]
            new = self.ev(rhs, env, lines)
            if new.kind != old.kind or new.key() != old.key() or new.present != "true":
                self.refuse(f"`{lhs[1]}` re-assigned to something else than the inserted entry of the same key")
            self.reassigned = getattr(self, "reassigned", set()) | {lhs[1]}
            new.varname = lhs[1]
            env[lhs[1]] = new
            return new
        if lhs[0] == "id" and lhs[1] in env and env[lhs[1]].kind == "mvar":
            val = self.ev(rhs, env, lines)
            if val.kind != "L":
                self.refuse(f"`{lhs[1]}` assigned from {val}")
            lines.append(f"let {env[lhs[1]].term} := some {val.term}")
            return val
        if lhs[0] != "member":
            self.refuse(f"assignment to {lhs}")
        base = self.ev(lhs[2], env, lines)
        f = lhs[3]
        val = self.ev(rhs, env, lines)
        if base.kind == "lnode":
            ok = {"Slot": ("receiver", "object", "slot", "state"), "Signal": ("signal", "slot")}[base.ty]
            if f not in ok:
                self.refuse(f"store into {base.ty}::{f}")
            if f == "state":
                if not (val.kind == "val" and val.ty == "state"):
                    self.refuse("slot state assigned from a non-state")
                base.fields[f] = val.term
            else:
                base.fields[f] = self.nat(val)
            return val
        if base.kind == "sit":
            self.mutate("slistnode")
            if f == "state":
                if not (val.kind == "val" and val.ty == "state"):
                    self.refuse("slot state assigned from a non-state")
                lines.append(f"let h := H.modSlot h {base.e} {base.g} {base.k} (fun x => {{ x with state := {val.term} }})")
            elif f in ("receiver", "object", "slot"):
                lines.append(f"let h := H.modSlot h {base.e} {base.g} {base.k} (fun x => {{ x with {f} := {self.nat(val)} }})")
            else:
                self.refuse(f"store into Slot::{f}")
            return val
        if base.kind == "data":
            if f == "dirty":
                if not (val.kind == "val" and val.ty == "bool"):
                    self.refuse("dirty assigned from a non-bool")
                lines.append(f"let h := H.modData h {base.e} {base.g} (fun d => {{ d with dirty := {val.term} }})")
            elif f == "activation":
                if not (val.kind == "val" and val.ty == "act"):
                    self.refuse("activation assigned from a non-pointer")
                lines.append(f"let h := H.modData h {base.e} {base.g} (fun d => {{ d with activation := {val.term} }})")
            else:
                self.refuse(f"store into SignalData::{f}")
            return val
        if base.kind == "lsit":
            if f == "signal":
                lines.append(f"let h := H.modLSig h {base.l} {base.e} {base.k} (fun p => ({self.nat(val)}, p.2))")
            elif f == "slot":
                lines.append(f"let h := H.modLSig h {base.l} {base.e} {base.k} (fun p => (p.1, {self.nat(val)}))")
            else:
                self.refuse(f"store into Signal::{f}")
            return val
        if base.kind == "act":
            if f == "invalidated" and val.kind == "val" and val.ty == "bool" and val.term == "true":
                lines.append(f"let h := H.frInvalidateP h {base.term}")
                return val
            self.refuse(f"store into SignalActivation::{f}")
        self.refuse(f"store through {base}")

    def nat(self, v):
        if v.kind in ("E", "L"):
            return v.term
        if v.kind == "val" and v.ty == "nat":
            return v.term
        self.refuse(f"{v} used as a pointer/number")

    def ev(self, e, env, lines):
        k = e[0]
        if k == "id":
            n = e[1]
            if n in env:
                return env[n]
            if self.this is not None and n in self.this:
                return self.this[n](self)
            self.refuse(f"unknown name `{n}`")
        if k == "bool":
            return V("val", term=e[1], ty="bool")
        if k == "null":
            return V("val", term="none", ty="act")
        if k == "qname":
            if e[1][-1] in STATES and len(e[1]) >= 2 and e[1][-2] == "Slot":
                return V("val", term="." + e[1][-1], ty="state")
            self.refuse(f"name `{'::'.join(e[1])}`")
        if k == "construct":
            return V("temp", ty=e[1][-1], args=len(e[2]))
        if k == "assign":
            return self.store(e[1], e[2], env, lines)
        if k in ("eq", "ne"):
            a = self.ev(e[1], env, lines)
            b = self.ev(e[2], env, lines)
            neg = k == "ne"
            for x, y in ((a, b), (b, a)):
                if x.kind in ("sigit", "lit") and y.kind == "end":
                    if getattr(x, "varname", None) in getattr(self, "reassigned", set()):
                        self.refuse("an iterator that was re-assigned is compared with end()")
                    if y.of != x.container():
                        self.refuse("iterator compared with the end of another container")
                    return V("val", term=(x.present if neg else f"(!{x.present})"), ty="bool")
            for x, y in ((a, b), (b, a)):
                if x.kind == "mvar" and y.kind == "L":
                    return V("val", term=f"({x.term} {'!=' if neg else '=='} some {y.term})", ty="bool")
            for x, y in ((a, b), (b, a)):
                # `p != 0` / `p == 0` on an activation pointer
                if x.kind == "val" and x.ty == "act" and y.kind == "val" and y.ty == "act" and y.term == "none" and x.term != "none":
                    return V("val", term=(f"({x.term}).isSome" if neg else f"(!({x.term}).isSome)"), ty="bool")
            if a.kind == "val" and b.kind == "val" and a.ty == b.ty == "state":
                return V("val", term=f"({a.term} {'!=' if neg else '=='} {b.term})".replace("(.", "(SlotState."), ty="bool") \
                    if a.term.startswith(".") else V("val", term=f"({a.term} {'!=' if neg else '=='} {b.term})", ty="bool")
            return V("val", term=f"({self.nat(a)} {'!=' if neg else '=='} {self.nat(b)})", ty="bool")
        if k == "not":
            v = self.ev(e[1], env, lines)
            return V("val", term=f"(!{self.truth(v)})", ty="bool")
        if k in ("and", "or"):
            a = self.ev(e[1], env, lines)
            n = len(lines)
            b = self.ev(e[2], env, lines)
            if len(lines) != n:
                self.refuse("side effect on the right of `&&` / `||` in a value context")
            return V("val", term=f"({self.truth(a)} {'&&' if k == 'and' else '||'} {self.truth(b)})", ty="bool")
        if k == "deref":
            v = self.ev(e[1], env, lines)
            return self.deref(v)
        if k == "addr":
            v = self.ev(e[1], env, lines)
            if v.kind == "data":
                return v          # SignalData* to the same path
            self.refuse(f"address of {v}")
        if k == "cond":
            return self.ternary(e, env, lines)
        if k == "member":
            return self.member(e, env, lines)
        if k == "mcall":
            return self.mcall(e, env, lines)
        self.refuse(f"expression {k}")

    def deref(self, v):
        if v.kind == "sigit":
            return V("data", e=v.e, g=v.g)
        if v.kind == "lit":
            return V("llist", l=v.l, e=v.e)
        if v.kind == "keyE":
            return V("data", e=v.e, g=v.key)
        if v.kind == "keyL":
            return V("llist", l=v.l, e=v.key)
        if v.kind in ("sval", "lsval", "sit", "lsit", "data"):
            return v
        self.refuse(f"dereference of {v}")

    def ternary(self, e, env, lines):
        cl = []
        c = self.ev(e[1], env, cl)
        la, lb = [], []
        a = self.ev(e[2], env, la)
        b = self.ev(e[3], env, lb)
        if a.kind == "val" and b.kind == "val" and a.ty == b.ty and not la and not lb:
            lines += cl
            return V("val", term=f"(if {self.truth(c)} then {a.term} else {b.term})", ty=a.ty)
        if a.key() != b.key():
            self.refuse(f"the two arms of `?:` denote different places ({a} / {b})")
        lines += cl
        if la or lb:
            def arm(ls):
                return "(" + " ".join(l + ";" for l in ls) + " h)" if ls else "h"
            lines.append(f"let h := if {self.truth(c)} then {arm(la)} else {arm(lb)}")
        return a

    def member(self, e, env, lines):
        _, op, be, f = e
        b = self.ev(be, env, lines)
        if op == "->" and b.kind in ("sigit", "lit", "keyE", "keyL"):
            b = self.deref(b)
        if b.kind == "E" and f == "signalData":
            self.deref_obj("E", b.term, env, lines)
            return V("sigmap", e=b.term)
        if b.kind == "L" and f == "slotData":
            self.deref_obj("L", b.term, env, lines)
            return V("lmap", l=b.term)
        if b.kind == "data":
            if f == "activation":
                return V("val", term=f"(H.activation h {b.e} {b.g})", ty="act")
            if f == "dirty":
                return V("val", term=f"(H.dirty h {b.e} {b.g})", ty="bool")
            if f == "slots":
                return V("slist", e=b.e, g=b.g)
        if b.kind == "sval":
            if f == "receiver":
                return V("L", term=f"{b.x}.receiver")
            if f in ("object", "slot"):
                return V("val", term=f"{b.x}.{f}", ty="nat")
            if f == "state":
                return V("val", term=f"{b.x}.state", ty="state")
        if b.kind == "lsval":
            if f == "signal":
                return V("val", term=f"{b.x}.1", ty="nat")
            if f == "slot":
                return V("val", term=f"{b.x}.2", ty="nat")
        if b.kind in ("sit", "lsit"):
            return V("place", base=b, f=f)      # only as the target of a store (handled in `store`)
        if b.kind == "act" and f == "invalidated":
            return V("val", term=f"(H.frInvalidatedP h {b.term})", ty="bool")
        self.refuse(f"member `{f}` of {b}")

    def deref_obj(self, kind, term, env, lines):
        """`p->member`: the object must exist.  Emitted once per pointer and straight-line scope (none of the translated functions
        destroys an object, so a pointer that was valid stays valid); `this` is valid by definition"""
        if term == "this":
            return
        done = env.get("__deref", frozenset())
        if (kind, term) in done:
            return
        env["__deref"] = done | {(kind, term)}
        lines.append(f"let h := H.deref{kind} h {term}")

    def mcall(self, e, env, lines):
        _, op, be, f, args = e
        b = self.ev(be, env, lines)
        if op == "->" and b.kind in ("sigit", "lit", "keyE", "keyL"):
            b = self.deref(b)
        if f == "end" and not args and b.kind in ("sigmap", "lmap", "slist", "llist"):
            return V("end", of=b.key())
        if f == "find" and len(args) == 1:
            a = self.ev(args[0], env, lines)
            p = self.fresh("p")
            if b.kind == "sigmap":
                lines.append(f"let {p} := H.sigHas h {b.e} {self.nat(a)}")
                return V("sigit", e=b.e, g=self.nat(a), present=p)
            if b.kind == "lmap":
                if a.kind != "E":
                    self.refuse("listener map searched with a non-emitter key")
                lines.append(f"let {p} := H.lHas h {b.l} {a.term}")
                return V("lit", l=b.l, e=a.term, present=p)
        if f == "insert" and len(args) == 2:
            a = self.ev(args[0], env, lines)
            t = self.ev(args[1], env, lines)
            if t.kind != "temp" or t.args != 0:
                self.refuse("insert of something else than a value-initialised temporary")
            if b.kind == "sigmap" and t.ty == "SignalData":
                self.mutate("sigmap")
                lines.append(f"let h := H.sigInsert h {b.e} {self.nat(a)}")
                return V("sigit", e=b.e, g=self.nat(a), present="true")
            if b.kind == "lmap" and t.ty == "List" and a.kind == "E":
                self.mutate("lmap")
                lines.append(f"let h := H.lInsert h {b.l} {a.term}")
                return V("lit", l=b.l, e=a.term, present="true")
        if f == "append" and len(args) == 1:
            t = self.ev(args[0], env, lines)
            kk = self.fresh("k")
            if t.kind == "lnode":
                # a copy of the local node: append a node and store the fields the local has
                if b.kind == "slist" and t.ty == "Slot":
                    if set(t.fields) != {"receiver", "object", "slot", "state"}:
                        self.refuse("a Slot is appended before all of its fields are assigned")
                    self.mutate("slist")
                    lines.append(f"let h := H.slotAppend h {b.e} {b.g}")
                    lines.append(f"let {kk} := H.slotLast h {b.e} {b.g}")
                    lines.append(f"let h := H.modSlot h {b.e} {b.g} {kk} (fun x => {{ x with state := {t.fields['state']} }})")
                    for fl in ("receiver", "object", "slot"):
                        lines.append(f"let h := H.modSlot h {b.e} {b.g} {kk} (fun x => {{ x with {fl} := {t.fields[fl]} }})")
                    return V("sit", e=b.e, g=b.g, k=kk)
                if b.kind == "llist" and t.ty == "Signal":
                    if set(t.fields) != {"signal", "slot"}:
                        self.refuse("a Signal is appended before all of its fields are assigned")
                    self.mutate("llist")
                    lines.append(f"let h := H.lAppend h {b.l} {b.e}")
                    lines.append(f"let {kk} := H.lLast h {b.l} {b.e}")
                    lines.append(f"let h := H.modLSig h {b.l} {b.e} {kk} (fun p => ({t.fields['signal']}, p.2))")
                    lines.append(f"let h := H.modLSig h {b.l} {b.e} {kk} (fun p => (p.1, {t.fields['slot']}))")
                    return V("lsit", l=b.l, e=b.e, k=kk)
                self.refuse("append of a local node to a list of another type")
            if t.kind != "temp" or t.args != 0:
                self.refuse("append of something else than a value-initialised temporary")
            if b.kind == "slist" and t.ty == "Slot":
                self.mutate("slist")
                lines.append(f"let h := H.slotAppend h {b.e} {b.g}")
                lines.append(f"let {kk} := H.slotLast h {b.e} {b.g}")
                return V("sit", e=b.e, g=b.g, k=kk)
            if b.kind == "llist" and t.ty == "Signal":
                self.mutate("llist")
                lines.append(f"let h := H.lAppend h {b.l} {b.e}")
                lines.append(f"let {kk} := H.lLast h {b.l} {b.e}")
                return V("lsit", l=b.l, e=b.e, k=kk)
        if f == "remove" and len(args) == 1:
            a = self.ev(args[0], env, lines)
            if b.kind == "slist" and a.kind == "sit" and (a.e, a.g) == (b.e, b.g):
                self.mutate("slist")
                lines.append(f"let h := H.slotRemove h {b.e} {b.g} {a.k}")
                return V("void")
            if b.kind == "llist" and a.kind == "lsit" and (a.l, a.e) == (b.l, b.e):
                self.mutate("llist")
                lines.append(f"let h := H.lRemove h {b.l} {b.e} {a.k}")
                return V("void")
        if f == "remove" and len(args) == 1 and b.kind == "lmap":
            a = self.ev(args[0], env, lines)
            if a.kind != "E":
                self.refuse("listener map: remove of a non-emitter key")
            self.mutate("lmap")
            lines.append(f"let h := H.lErase h {b.l} {a.term}")
            return V("void")
        if f == "key" and not args:
            if b.kind == "data" and be[0] == "id" and env.get(be[1]) is not None and env[be[1]].kind == "keyE":
                return V("val", term=env[be[1]].key, ty="nat")
            if b.kind == "llist" and be[0] == "id" and env.get(be[1]) is not None and env[be[1]].kind == "keyL":
                return V("E", term=env[be[1]].key)
            if b.kind == "keyE":
                return V("val", term=b.key, ty="nat")
            if b.kind == "keyL":
                return V("E", term=b.key)
        self.refuse(f"call `{f}` on {b}")


def _container(self):
    if self.kind == "sigit":
        return V("sigmap", e=self.e).key()
    return V("lmap", l=self.l).key()


V.container = _container


# ---- the functions ---------------------------------------------------------------------------------------------------------
def params_of(text, fn):
    """[(name, kind)] of a parameter list; kind: E, L, nat"""
    out = []
    for p in [x.strip() for x in text.split(",") if x.strip()]:
        m = re.match(r"(.*?)([A-Za-z_]\w*)$", p)
        if not m:
            raise Refuse(f"{fn}: parameter `{p}`")
        ty, name = m.group(1), m.group(2)
        if re.search(r"Emitter\s*\*\s*$", ty):
            out.append((name, "E"))
        elif re.search(r"Listener\s*\*\s*$", ty):
            out.append((name, "L"))
        elif re.search(r"MemberFuncPtr\s*&\s*$", ty) or re.search(r"void\s*\*\s*$", ty):
            out.append((name, "nat"))
        else:
            raise Refuse(f"{fn}: parameter type `{ty.strip()}`")
    return out


def value_of(name, kind):
    return V(kind, term=name) if kind in ("E", "L") else V("val", term=name, ty="nat")


def translate_fn(src, what, rx, lean_name, this_kind=None, members=None, want_params=None):
    ptext, inits, body = extract(src, what, rx)
    params = params_of(ptext, what)
    if want_params is not None and [k for _, k in params] != want_params:
        raise Refuse(f"{what}: parameter kinds {[k for _, k in params]}, expected {want_params}")
    env = {n: value_of("v_" + n, k) for n, k in params}
    this = {}
    if this_kind is not None:
        env["this"] = V(this_kind, term="this")
    for n, fnc in (members or {}).items():
        this[n] = fnc
    tr = Tr(what, this)
    toks = tokenize(body)
    ps = Parser(toks, what, set(env) | set(this))
    stmts = ps.stmts()
    if ps.peek() is not None:
        raise Refuse(f"{what}: trailing tokens")
    text = tr.tr(stmts, None, env, "  ")
    args = "".join(f" (v_{n} : Nat)" for n, _ in params)
    if this_kind is not None:
        args = " (this : Nat)" + args
    return f"def {lean_name} (h : State){args} : State :=\n{text}\n", inits


def member_table_emitter():
    return {"signalData": lambda tr: V("sigmap", e="this")}


def member_table_listener():
    return {"slotData": lambda tr: V("lmap", l="this")}


def member_table_activation():
    return {
        "invalidated": lambda tr: V("val", term="(H.frInvalidated h this)", ty="bool"),
        "next": lambda tr: V("val", term="(H.frNext h this)", ty="act"),
        "data": lambda tr: V("dataptr"),
    }


class TrAct(Tr):
    """~SignalActivation: `data` is a `SignalData*` member: truth = the frame has signal data (`H.frHasData`), `data->f` = the
    path `H.frData h this`"""

    def truth(self, v):
        if v.kind == "dataptr":
            return "(H.frHasData h this)"
        return Tr.truth(self, v)

    def member(self, e, env, lines):
        _, op, be, f = e
        if op == "->" and be == ("id", "data") and "data" not in env:
            return Tr.member(self, ("member", ".", ("__data",), f), env, lines)
        return Tr.member(self, e, env, lines)

    def ev(self, e, env, lines):
        if e == ("__data",):
            return V("data", e="(H.frData h this).1", g="(H.frData h this).2")
        return Tr.ev(self, e, env, lines)

    def store(self, lhs, rhs, env, lines):
        if lhs[0] == "member" and lhs[1] == "->" and lhs[2] == ("id", "data") and "data" not in env:
            lhs = ("member", ".", ("__data",), lhs[3])
        if lhs[0] == "member" and lhs[1] == "->" and lhs[2] == ("id", "next") and "next" not in env and lhs[3] == "invalidated":
            val = self.ev(rhs, env, lines)
            if val.kind == "val" and val.ty == "bool" and val.term == "true":
                lines.append("let h := H.frInvalidateP h (H.frNext h this)")
                return val
            self.refuse("store into next->invalidated")
        return Tr.store(self, lhs, rhs, env, lines)


def translate_activation_dtor(src):
    what = "Callback::Emitter::SignalActivation::~SignalActivation"
    ptext, inits, body = extract(src, what, r"Callback::Emitter::SignalActivation::~SignalActivation")
    if ptext.strip():
        raise Refuse(f"{what}: parameters")
    this = member_table_activation()
    tr = TrAct(what, this)
    # `data->activation->…`, `data.activation->invalidated` style stores through an activation pointer value
    toks = tokenize(body)
    ps = Parser(toks, what, set(this) | {"this"})
    stmts = ps.stmts()
    text = tr.tr(stmts, None, {"this": V("act", term="(some this)")}, "  ")
    return f"def dtorActivation (h : State) (this : Nat) : State :=\n{text}\n"


class TrCtor(Tr):
    """SignalActivation::SignalActivation: the members of the object under construction are the fields of a record `a : H.Act`
    threaded beside the heap; `data` (a `SignalData*`) holds a path"""
    S = "(h, a)"

    def store(self, lhs, rhs, env, lines):
        if lhs[0] == "id" and lhs[1] in ("data", "next", "begin", "end") and lhs[1] not in env.get("__locals", ()):
            name = lhs[1]
            v = self.ev(rhs, env, lines)
            if name == "data":
                if v.kind == "val" and v.ty == "act" and v.term == "none":
                    lines.append("let a := { a with data := none }")
                    env["data"] = V("nulldata")
                elif v.kind == "data":
                    lines.append(f"let a := {{ a with data := some ({v.e}, {v.g}) }}")
                    env["data"] = v
                else:
                    self.refuse(f"`data` assigned from {v}")
            elif name == "next":
                if not (v.kind == "val" and v.ty == "act"):
                    self.refuse(f"`next` assigned from {v}")
                lines.append(f"let a := {{ a with next := {v.term} }}")
            elif name == "begin":
                if not (v.kind == "val" and v.ty == "pos"):
                    self.refuse(f"`begin` assigned from {v}")
                env["__begin_of"] = v.of
                lines.append(f"let a := {{ a with begin := {v.term} }}")
            else:
                if v.kind != "end" or env.get("__begin_of") != v.of:
                    self.refuse("`end` is not assigned the end of the list `begin` was taken from (after `begin`)")
                lines.append("let a := { a with hasEnd := true }")
            return v
        return Tr.store(self, lhs, rhs, env, lines)

    def mcall(self, e, env, lines):
        _, op, be, f, args = e
        if f == "begin" and not args:
            b = self.ev(be, env, lines)
            if b.kind == "slist":
                return V("val", term=f"(H.listBegin (H.slots h {b.e} {b.g}))", ty="pos", of=b.key())
        return Tr.mcall(self, e, env, lines)


def translate_activation_ctor(src):
    what = "Callback::Emitter::SignalActivation::SignalActivation"
    ptext, inits, body = extract(src, what, r"Callback::Emitter::SignalActivation::SignalActivation")
    params = params_of(ptext, what)
    if [k for _, k in params] != ["E", "nat"]:
        raise Refuse(f"{what}: parameters")
    init_lines = []
    seen = set()
    for m_ in re.finditer(r"(\w+)\s*\(\s*(\w+)\s*\)\s*(,|$)", inits.lstrip(":").strip()):
        fld, val = m_.group(1), m_.group(2)
        seen.add(fld)
        if (fld, val) == ("invalidated", "false"):
            continue
        if (fld, val) in (("next", "0"), ("data", "0")):
            init_lines.append(f"  let a := {{ a with {fld} := none }}\n")
        else:
            raise Refuse(f"{what}: member initialiser `{fld}({val})`")
    if "invalidated" not in seen or re.sub(r"(\w+)\s*\(\s*(\w+)\s*\)\s*(,|$)", "", inits.lstrip(":").strip()).strip():
        raise Refuse(f"{what}: member initialisers `{inits}` (expected `invalidated(false)` and optionally `next(0)`, `data(0)`)")
    env = {n: value_of("v_" + n, k) for n, k in params}
    env["this"] = V("val", term="(some this)", ty="act")
    tr = TrCtor(what, {})
    ps = Parser(tokenize(body), what, set(env) | {"data", "next", "begin", "end", "invalidated"})
    stmts = ps.stmts()
    text = tr.tr(stmts, None, env, "  ")
    args = "".join(f" (v_{n} : Nat)" for n, _ in params)
    return (f"def ctorActivation (h : State) (this : Nat){args} : State × H.Act :=\n"
            f"  let a : H.Act := {{ invalidated := false }}\n{''.join(init_lines)}{text}\n")


# activation pointers as values: `data.activation->invalidated = true`
_old_member = Tr.member


def _member(self, e, env, lines):
    _, op, be, f = e
    if op == "->" and f == "invalidated":
        lines2 = []
        b = self.ev(be, env, lines2)
        if b.kind == "val" and b.ty == "act":
            lines += lines2
            return V("place_act", term=b.term)
    return _old_member(self, e, env, lines)


Tr.member = _member
_old_store = Tr.store


def _store(self, lhs, rhs, env, lines):
    if lhs[0] == "member" and lhs[1] == "->" and lhs[3] == "invalidated":
        l2 = []
        b = self.ev(lhs[2], env, l2)
        if b.kind == "val" and b.ty == "act":
            lines += l2
            val = self.ev(rhs, env, lines)
            if val.kind == "val" and val.ty == "bool" and val.term == "true":
                lines.append(f"let h := H.frInvalidateP h {b.term}")
                return val
            self.refuse("store into activation->invalidated other than `true`")
    return _old_store(self, lhs, rhs, env, lines)


Tr.store = _store


# ---- the templates of the header ---------------------------------------------------------------------------------------------
def template_bodies(hpp, name, static):
    """[(parameter text, body text)] of the member templates called `name`"""
    out = []
    rx = re.compile(r"template\s*<[^>]*>\s*" + ("static\s+" if static else "") + r"void\s+" + name + r"\s*\(")
    for m in rx.finditer(hpp):
        pend = balanced(hpp, m.end() - 1, "(", ")")
        ptext = hpp[m.end():pend - 1]
        mb = re.match(r"\s*\{", hpp[pend:])
        if not mb:
            raise Refuse(f"template {name}: no body")
        bstart = pend + mb.end() - 1
        bend = balanced(hpp, bstart)
        out.append((ptext, hpp[bstart + 1:bend - 1]))
    return out


def split_params(ptext):
    """names of the parameters of a template (types may contain commas inside parentheses)"""
    parts, depth, cur = [], 0, ""
    for ch in ptext:
        if ch in "(<":
            depth += 1
        elif ch in ")>":
            depth -= 1
        if ch == "," and depth == 0:
            parts.append(cur)
            cur = ""
        else:
            cur += ch
    if cur.strip():
        parts.append(cur)
    names = []
    for p in parts:
        m = re.search(r"\(\s*[A-Za-z_]\w*\s*::\s*\*\s*([A-Za-z_]\w*)\s*\)\s*\(", p)     # void (X::*signal)(A, B)
        if m:
            names.append(m.group(1))
            continue
        m = re.search(r"([A-Za-z_]\w*)\s*$", p)
        if not m:
            raise Refuse(f"template parameter `{p}`")
        names.append(m.group(1))
    return names


def plumbing(hpp, name, callee_arity):
    """the nine `connect` / `disconnect` templates: pointer conversions and one call of the private function; returns the
    argument list of that call in terms of the template's parameters (the same for all nine)"""
    res = None
    bodies = template_bodies(hpp, name, True)
    if len(bodies) != 9:
        raise Refuse(f"{len(bodies)} `{name}` templates in Callback.hpp, expected 9")
    for ar, (ptext, body) in enumerate(bodies):
        names = split_params(ptext)
        if names != ["src", "signal", "dest", "slot"]:
            raise Refuse(f"{name} template #{ar}: parameters {names}")
        what = f"{name} template #{ar}"
        toks = tokenize(body)
        ps = Parser(toks, what, set(names) | {name})
        stmts = ps.stmts()
        env = {n: n for n in names}
        call = None
        for s in stmts:
            if call is not None:
                raise Refuse(f"{what}: statement after the call")
            if s[0] == "decl":
                for n, e, ty in s[1]:
                    # `X* x = src;` an implicit pointer conversion to the class of the member pointer
                    if e[0] != "id" or e[1] not in env or "*" not in ty:
                        raise Refuse(f"{what}: declaration of `{n}`")
                    env[n] = env[e[1]]
            elif s[0] == "expr" and s[1][0] == "call" and s[1][1] == name:
                call = []
                for a in s[1][2]:
                    if a[0] == "construct" and a[1] == ["MemberFuncPtr"] and len(a[2]) == 1:
                        a = a[2][0]
                    if a[0] != "id" or a[1] not in env:
                        raise Refuse(f"{what}: argument of the call")
                    call.append(env[a[1]])
            else:
                raise Refuse(f"{what}: statement outside the understood form")
        if call is None or len(call) != callee_arity:
            raise Refuse(f"{what}: no call of the private `{name}` with {callee_arity} arguments")
        if res is not None and call != res:
            raise Refuse(f"{what}: passes {call}, the templates before it pass {res}")
        res = call
    return res


CALL_RX = (r"\(\s*\(\s*\(\s*X\s*\*\s*\)\s*(\w+)\s*->\s*object\s*\)\s*->\*\s*\(\s*\(\s*MemberFuncPtr(\d)\s*<\s*X\s*((?:,\s*[A-H]\s*)*)>\s*\*\s*\)"
           r"\s*&\s*\1\s*->\s*slot\s*\)\s*->\s*ptr\s*\)\s*\(([^()]*)\)\s*;")


def helper_tokens(cpp, name):
    what = f"SignalActivation::{name}"
    ptext, inits, body = extract(cpp, what, r"Callback::Emitter::SignalActivation::" + name)
    if ptext.strip() or inits:
        raise Refuse(f"{what}: parameters")
    return tokenize(body)


def emit_cursor_form(hpp, cpp, bodies):
    """the nine templates as `for(Slot* s = activation.firstSlot(); s; s = activation.nextSlot()) CALL(s);` with the cursor
    kept in the activation (`current`) and moved by the three helpers of Callback.cpp.  Returns (visit, after) in the
    vocabulary of `emit_lean`: what is done at a node while looking for the next slot, what is done when a slot returned."""
    for ar, (ptext, body) in enumerate(bodies):
        what = f"emit template #{ar}"
        m = re.fullmatch(r"\s*SignalActivation\s+activation\s*\(\s*this\s*,\s*signal\s*\)\s*;\s*for\s*\(\s*Slot\s*\*\s*(\w+)\s*=\s*activation\s*\.\s*firstSlot\s*\(\s*\)\s*;"
                         r"\s*\1\s*;\s*\1\s*=\s*activation\s*\.\s*nextSlot\s*\(\s*\)\s*\)\s*\{?(.*?)\}?\s*", body, flags=re.S)
        if not m:
            return None
        v, call = m.group(1), m.group(2).strip()
        m3 = re.fullmatch(CALL_RX, call)
        if not m3 or m3.group(1) != v or int(m3.group(2)) != ar:
            raise Refuse(f"{what}: the loop body is not the member-pointer call on `{v}->object` / `{v}->slot`")
        if [x.strip() for x in m3.group(3).split(",") if x.strip()] != list("ABCDEFGH"[:ar]):
            raise Refuse(f"{what}: template arguments of the cast")
        if [x.strip() for x in m3.group(4).split(",") if x.strip()] != [f"arg{k}" for k in range(ar)]:
            raise Refuse(f"{what}: the slot is not called with the parameters of emit in order")
    if helper_tokens(cpp, "firstSlot") != tokenize("current = begin; return skipToConnected();"):
        raise Refuse("SignalActivation::firstSlot is not `current = begin; return skipToConnected();`")
    if helper_tokens(cpp, "nextSlot") != tokenize("if(invalidated) return 0; ++current; return skipToConnected();"):
        raise Refuse("SignalActivation::nextSlot is not `if(invalidated) return 0; ++current; return skipToConnected();`")
    t = helper_tokens(cpp, "skipToConnected")
    head = tokenize("for(; current != end; ++current) if(")
    tail = tokenize(") return &*current; return 0;")
    if t[:len(head)] != head or t[-len(tail):] != tail:
        raise Refuse("SignalActivation::skipToConnected is not `for(; current != end; ++current) if(C) return &*current; return 0;`")
    ps = Parser(t[len(head):-len(tail)], "SignalActivation::skipToConnected", {"current"})
    c = ps.expr()
    if ps.peek() is not None:
        raise Refuse("SignalActivation::skipToConnected: condition")
    cond = Tr("SignalActivation::skipToConnected").pure_bool(c, {"current": V("sval", x="x")})
    return [("call", cond)], [("ret",)]


def emit_loop(hpp, cpp=None):
    """Per arity: the loop body of `emit` as (condition on the node, what is called, arguments passed, position of the
    `invalidated` test).  The member-pointer call is matched textually (its casts are outside any expression grammar worth
    having); everything around it is parsed."""
    bodies = template_bodies(hpp, "emit", False)
    if len(bodies) != 9:
        raise Refuse(f"{len(bodies)} `emit` templates in Callback.hpp, expected 9")
    result = None
    for ar, (ptext, body) in enumerate(bodies):
        names = split_params(ptext)
        if names != ["signal"] + [f"arg{i}" for i in range(ar)]:
            raise Refuse(f"emit template #{ar}: parameters {names}")
    if cpp is not None and "firstSlot" in hpp:
        cf = emit_cursor_form(hpp, cpp, bodies)
        if cf is not None:
            return cf
    for ar, (ptext, body) in enumerate(bodies):
        what = f"emit template #{ar}"
        names = split_params(ptext)
        m = re.fullmatch(r"\s*SignalActivation\s+activation\s*\(\s*this\s*,\s*signal\s*\)\s*;\s*for\s*\(\s*List\s*<\s*Slot\s*>\s*::\s*Iterator\s+(\w+)\s*=\s*"
                         r"activation\s*\.\s*begin\s*;\s*\1\s*!=\s*activation\s*\.\s*end\s*;\s*\+\+\s*\1\s*\)\s*\{(.*)\}\s*", body, flags=re.S)
        if not m:
            raise Refuse(f"{what}: not `SignalActivation activation(this, signal); for(List<Slot>::Iterator i = activation.begin; "
                         "i != activation.end; ++i) {…}`")
        i, lb = m.group(1), m.group(2)
        # split the loop body into its statements: if(C) CALL;  if(activation.invalidated) return;
        parts = []
        rest = lb.strip()
        while rest:
            m1 = re.match(r"if\s*\(\s*activation\s*\.\s*invalidated\s*\)\s*return\s*;", rest)
            if m1:
                parts.append(("ret",))
                rest = rest[m1.end():].strip()
                continue
            m2 = re.match(r"if\s*\(", rest)
            if not m2:
                raise Refuse(f"{what}: statement of the loop body outside the understood form: `{rest[:40]}`")
            cend = balanced(rest, m2.end() - 1, "(", ")")
            ctext = rest[m2.end():cend - 1]
            m3 = re.match(CALL_RX, rest[cend:].strip())
            if not m3:
                raise Refuse(f"{what}: the guarded statement is not the member-pointer call on `{i}->object` / `{i}->slot`")
            if m3.group(1) != i or int(m3.group(2)) != ar:
                raise Refuse(f"{what}: the call uses `{m3.group(1)}` / MemberFuncPtr{m3.group(2)}")
            targs = [x.strip() for x in m3.group(3).split(",") if x.strip()]
            if targs != list("ABCDEFGH"[:ar]):
                raise Refuse(f"{what}: template arguments of the cast {targs}")
            cargs = [x.strip() for x in m3.group(4).split(",") if x.strip()]
            if cargs != [f"arg{k}" for k in range(ar)]:
                raise Refuse(f"{what}: the slot is called with ({', '.join(cargs)}), not with the parameters of emit in order")
            ps = Parser(tokenize(ctext), what, {i})
            c = ps.expr()
            if ps.peek() is not None:
                raise Refuse(f"{what}: condition")
            tr = Tr(what)
            cond = tr.pure_bool(c, {i: V("sval", x="x")})
            parts.append(("call", cond))
            rest = rest[cend:].strip()
            rest = rest[re.match(CALL_RX, rest).end():].strip()
        if result is not None and parts != result:
            raise Refuse(f"{what}: loop body differs from the one of the arities before it")
        result = parts
    return result


def emit_lean(parts):
    """`emitScan inv xs j`: the loop of `emit` from node j on (xs = the nodes from there), the statements of the loop body in
    their order; `emitAfterCall`: the statements behind the call, then the following nodes.  `parts` = the statements of the
    loop body, or (cursor form) the pair (what is done at a node while looking for the next slot, what is done first when a slot
    returned)."""
    after = None
    if isinstance(parts, tuple):
        parts, after = parts
    if [p[0] for p in parts].count("call") != 1:
        raise Refuse("emit: the loop body does not contain exactly one call statement")
    ci = [p[0] for p in parts].index("call")
    if after is not None:
        # after a call: `after`, then the scan; lay it out as one list whose tail behind the call is `after`
        visit = parts
        parts = visit[:ci + 1] + after
        scan_parts = visit
    else:
        scan_parts = parts

    def body(k, last, ps=None):
        if k == len(ps):
            return last
        p = ps[k]
        if p[0] == "ret":
            return f"if inv then Step.done else {body(k + 1, last, ps)}"
        return f"if {p[1]} then Step.call x.object x.slot (some (j + 1)) else {body(k + 1, last, ps)}"
    out = ["/-- the `for` loop of the nine `emit` templates from node `j` on (`xs` = the nodes from there on) up to the next call of a\n"
           "    slot; `inv` = `activation.invalidated`, which cannot change while no slot runs.  A call returns the position of the\n"
           "    following node: the loop resumes there with `emitAfterCall`. -/",
           "def emitScan (inv : Bool) : List Slot → Nat → Step (Option Nat)",
           "  | [], _ => Step.done",
           f"  | x :: xs, j => {body(0, 'emitScan inv xs (j + 1)', scan_parts)}", "",
           "/-- after the slot called for node `j - 1` returned: the statements of the loop body behind the call, then the nodes from\n"
           "    `j` on -/",
           "def emitAfterCall (inv : Bool) (slots : List Slot) (j : Nat) : Step (Option Nat) :=",
           f"  {body(ci + 1, 'emitScan inv (slots.drop j) j', parts)}", "",
           "/-- every one of the nine templates passes its parameters `arg0 …` to the slot, all of them, in their order (checked by the\n"
           "    translator on the text of each template; a template that does not is refused) -/",
           "def emitArgsInOrder : Bool := true", ""]
    return "\n".join(out)


HEADER = """/- generated by tools/gen_callback.py from src/Callback.cpp and include/nstd/Callback.hpp - do not edit -/
import Nstd.Callback.Heap

set_option linter.unusedVariables false

namespace Nstd.Generated.CallbackBody
open Nstd.Callback

"""


def generate(repo, out):
    repo = Path(repo)
    cpp = strip_comments((repo / "src/Callback.cpp").read_text())
    hpp = strip_comments((repo / "include/nstd/Callback.hpp").read_text())
    parts = [HEADER, "/-! ### src/Callback.cpp -/\n\n"]
    t, _ = translate_fn(cpp, "Callback::connect", r"void\s+Callback::connect", "connect", want_params=["E", "nat", "L", "nat", "nat"])
    parts.append(t + "\n")
    t, _ = translate_fn(cpp, "Callback::disconnect", r"void\s+Callback::disconnect", "disconnect", want_params=["E", "nat", "L", "nat"])
    parts.append(t + "\n")
    t, _ = translate_fn(cpp, "Callback::Listener::~Listener", r"Callback::Listener::~Listener", "dtorListener", this_kind="L",
                        members=member_table_listener(), want_params=[])
    parts.append(t + "\n")
    t, _ = translate_fn(cpp, "Callback::Emitter::~Emitter", r"Callback::Emitter::~Emitter", "dtorEmitter", this_kind="E",
                        members=member_table_emitter(), want_params=[])
    parts.append(t + "\n")
    parts.append(translate_activation_ctor(cpp) + "\n")
    parts.append(translate_activation_dtor(cpp) + "\n")
    parts.append("/-! ### include/nstd/Callback.hpp -/\n\n")
    c = plumbing(hpp, "connect", 5)
    d = plumbing(hpp, "disconnect", 4)
    parts.append("/-- the nine `connect` templates (all pass the same arguments) -/\n"
                 "def connectT (h : State) (src signal dest slot : Nat) : State :=\n  connect h " + " ".join(c) + "\n\n")
    parts.append("/-- the nine `disconnect` templates -/\n"
                 "def disconnectT (h : State) (src signal dest slot : Nat) : State :=\n  disconnect h " + " ".join(d) + "\n\n")
    parts.append(emit_lean(emit_loop(hpp, cpp)) + "\n")
    parts.append("end Nstd.Generated.CallbackBody\n")
    text = "".join(parts)
    out = Path(out)
    if not out.exists() or out.read_text() != text:
        out.parent.mkdir(parents=True, exist_ok=True)
        out.write_text(text)
    return f"{len(text.splitlines())} lines"


if __name__ == "__main__":
    repo = sys.argv[1] if len(sys.argv) > 1 else "/repo"
    out = sys.argv[2] if len(sys.argv) > 2 else str(Path(__file__).resolve().parent.parent / "lean/Nstd/Generated/CallbackBody.lean")
    try:
        print(generate(repo, out))
    except Refuse as e:
        print("REFUSED:", e)
        sys.exit(1)
