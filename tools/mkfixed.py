#!/usr/bin/env python3
"""Rebuilds the `fixed` list of known_findings.json from the `fix:` commits of /repo and the
patch files under fixes/<area>/ (which give the property of each repair)."""
import json
import re
import subprocess
from pathlib import Path

VERIF = Path(__file__).resolve().parents[1]
AREA_PROP = {"buffer": "C08", "avl": "C01", "hash": "C02", "seq": "C03", "life": "C04", "str": "C06", "variant": "C07",
             "rc": "C09", "future": "C10", "sync": "C11", "callback": "C12", "server": "C14", "json": "C15", "xml": "C16",
             "sha": "C17", "codec": "C18", "path": "C19", "args": "C20"}


def subject(patch):
    txt = patch.read_text(errors="replace")
    m = re.search(r"^Subject: (?:\[PATCH[^\]]*\] )?(.*(?:\n .*)*)", txt, re.M)
    return re.sub(r"\n ", " ", m.group(1)).strip() if m else ""


def main():
    subj2area = {}
    for d in sorted((VERIF / "fixes").iterdir()):
        if d.is_dir():
            for p in sorted(d.glob("*.patch")):
                subj2area[subject(p)] = d.name
    log = subprocess.check_output(["git", "-C", "/repo", "log", "--reverse", "--format=%h%x09%s", "5ddb328..HEAD"], text=True)
    kf = json.loads((VERIF / "known_findings.json").read_text())
    old = {e.get("commit_subject", e.get("what")): e for e in kf.get("fixed", [])}
    fixed = []
    for line in log.splitlines():
        h, s = line.split("\t", 1)
        if not s.startswith("fix:"):
            continue
        area = subj2area.get(s)
        prop = AREA_PROP.get(area, "?")
        what = s[4:].strip()
        prev = old.get(s) or old.get(what) or {}
        e = {"property": prop, "commit": h, "commit_subject": s, "what": what, "area": area or "?",
             "failing_input": prev.get("failing_input", "see the commit message and corpus/" + prop),
             "line": f"fixed: property={prop} {h} {what}"}
        fixed.append(e)
    kf["fixed"] = fixed
    (VERIF / "known_findings.json").write_text(json.dumps(kf, indent=1) + "\n")
    print(len(fixed), "fixed entries;", sum(1 for e in fixed if e["property"] == "?"), "unmapped")


if __name__ == "__main__":
    main()
