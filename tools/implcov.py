#!/usr/bin/env python3
"""Which lines of the anchored C++ code does the correspondence run of a property execute?

  implcov.py [--tier quick|thorough] Cxx [Cxx ...]

A line of the real code that no harness run ever executes is a hole in the tie between model and code: a change
there cannot be seen by the correspondence.  For each property: scratch worktree of /repo HEAD, the property's check
with VERIF_IMPLCOV=1 (common.build_harness adds `--coverage`), `gcov --json-format` over the harness objects, and a
report docs/implcov/<Cxx>.txt listing, per file anchored by the property, the instrumented lines that were never
executed (with their source text).  docs/implcov/summary.json holds the numbers.  The evidence file of the property
is restored afterwards (evidence describes runs of the registered commands on /repo only).  This is a measurement
of the tie, not a check: it never reports a violation.
"""
import gzip
import json
import os
import shutil
import subprocess
import sys
import tempfile
from pathlib import Path

VERIF = Path(__file__).resolve().parents[1]
OUT = VERIF / "docs" / "implcov"


def sh(cmd, **kw):
    return subprocess.run(cmd, stdout=subprocess.PIPE, stderr=subprocess.STDOUT, text=True, errors="replace", **kw)


def anchored(pid):
    for line in (VERIF / "properties.jsonl").read_text().splitlines():
        if line.strip():
            p = json.loads(line)
            if p["id"] == pid:
                return p["anchors"]["files"]
    raise SystemExit("unknown property " + pid)


def ranges(nums):
    out, start, prev = [], None, None
    for n in sorted(nums):
        if start is None:
            start = prev = n
        elif n == prev + 1:
            prev = n
        else:
            out.append((start, prev))
            start = prev = n
    if start is not None:
        out.append((start, prev))
    return out


def one(pid, tier):
    tmp = Path(tempfile.mkdtemp(prefix=f"implcov-{pid}-", dir="/tmp"))
    wt, build = tmp / "wt", tmp / "build"
    sh(["git", "-C", "/repo", "worktree", "add", "--detach", str(wt), "HEAD"])
    ev = VERIF / "evidence" / f"{pid}.json"
    saved = ev.read_bytes() if ev.exists() else None
    try:
        env = dict(os.environ, NSTD_REPO=str(wt), NSTD_BUILD=str(build), VERIF_IMPLCOV="1")
        r = sh(["python3", "tools/check.py", "--property", pid, "--tier", tier], cwd=VERIF, env=env)
        verdict = (r.stdout.strip().splitlines() or ["?"])[-1]
        gcda = sorted(build.glob("*.gcda"))
        hits = {}                                   # file -> line -> max count
        for g in gcda:
            j = sh(["gcov", "--json-format", "--stdout", "-o", str(build), str(g)], cwd=build)
            for doc in j.stdout.splitlines():
                if not doc.startswith("{"):
                    continue
                try:
                    d = json.loads(doc)
                except ValueError:
                    continue
                for f in d.get("files", []):
                    name = f["file"]
                    if not name.startswith(str(wt)):
                        continue
                    rel = name[len(str(wt)) + 1:]
                    h = hits.setdefault(rel, {})
                    for ln in f["lines"]:
                        n = ln["line_number"]
                        h[n] = max(h.get(n, 0), ln["count"])
        files = anchored(pid)
        rep, summ = [f"# {pid}: lines of the anchored code never executed by the {tier} correspondence run", f"# check verdict on the scratch worktree: {verdict}", ""], {}
        for rel in files:
            h = hits.get(rel)
            if h is None:
                rep.append(f"== {rel}: NOT COMPILED INTO ANY HARNESS (or no line instrumented)")
                summ[rel] = {"instrumented": 0, "executed": 0}
                continue
            src = (wt / rel).read_text(errors="replace").splitlines()
            un = [n for n, c in h.items() if c == 0]
            summ[rel] = {"instrumented": len(h), "executed": len(h) - len(un)}
            rep.append(f"== {rel}: {len(h) - len(un)}/{len(h)} instrumented lines executed; never executed:")
            for a, b in ranges(un):
                for n in range(a, b + 1):
                    rep.append(f"  {n:5d}  {src[n - 1].rstrip() if n - 1 < len(src) else ''}")
                rep.append("")
        OUT.mkdir(parents=True, exist_ok=True)
        (OUT / f"{pid}.txt").write_text("\n".join(rep) + "\n")
        return summ, verdict, len(gcda)
    finally:
        if saved is not None:
            ev.write_bytes(saved)
        sh(["git", "-C", "/repo", "worktree", "remove", "--force", str(wt)])
        shutil.rmtree(tmp, ignore_errors=True)


def main():
    a = sys.argv[1:]
    tier = "quick"
    if "--tier" in a:
        tier = a[a.index("--tier") + 1]
        a = [x for x in a if x not in ("--tier", tier)]
    sp = OUT / "summary.json"
    summary = json.loads(sp.read_text()) if sp.exists() else {}
    for pid in a:
        summ, verdict, n = one(pid, tier)
        summary[pid] = {"tier": tier, "files": summ, "verdict": verdict, "gcda_files": n}
        tot_i = sum(x["instrumented"] for x in summ.values())
        tot_e = sum(x["executed"] for x in summ.values())
        print(f"{pid}: {tot_e}/{tot_i} instrumented lines of the anchored files executed ({n} gcda); {verdict[:60]}", flush=True)
        OUT.mkdir(parents=True, exist_ok=True)
        sp.write_text(json.dumps(summary, indent=1, sort_keys=True) + "\n")


if __name__ == "__main__":
    main()
