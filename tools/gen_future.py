#!/usr/bin/env python3
"""Translator for the synchronisation and handshake code of src/Future.cpp and include/nstd/Future.hpp (property C10).

Extracts from the CURRENT sources the bodies of
    LockFreeQueue<T>::push(const T&)   LockFreeQueue<T>::pop(T&)   LockFreeQueue<T>::size()
    FastSignal::set()   FastSignal::reset()   FastSignal::wait()
    LockFreeQueue<T>::LockFreeQueue(usize)   ThreadPool::ThreadPool(usize, usize, usize)
    Future<void>::Future()  ~Future()  join()  abort()  isAborting()  isFinished()  isAborted()  set()   enum Future<void>::State
    Future<A>::operator const A&()  ~Future()   (the other members of Future<A> must be plain forwards to the embedded Future<void>)
    Future<void>::proc<A> / Future<A>::proc<B>: the order of body call / result store / set() / delete
    Signal::set()  reset()  wait()  of src/Signal.cpp (pthread branch)        Future<void>::startProc (pool pointer as a number, `new Private::ThreadPool` as the effect `created`)
    ThreadContext::proc (the worker loop)      ThreadPool::run up to its third counter read (push loop with back-pressure, the counters;
                                               a void helper of the class that the loop is moved into is inlined at its call)
and the worker-count decision of ThreadPool::run (from `Atomic::increment(_pushedJobs)` on: counter arithmetic with 64-bit wrap-around and the
decision tree obtained by symbolic execution of its statements; the effect statements stay opaque)
(tokenizer + recursive-descent parser of the C++ subset these bodies are written in) and writes them as Lean definitions over
the state types of lean/Nstd/Future/{Ring,Model}.lean into lean/Nstd/Generated/FutureBody.lean.
lean/Nstd/Future/PropsGen.lean proves that the generated micro-step functions ARE the hand-written model steps
(`ringStep`, `stepFrame … (.fSet/.fRst/.fRstLoad/.fWait/.join/.joinClr/.pSetRd/.pSetX/.pSig/.evResult/…)`, `Ring.init`, `mkPool`,
the branch taken by `runRdTc` = the translated decision tree).
NOT translated (hand translation, tied by the step-by-step replay only): the effect statements of ThreadPool::run after the decision
(spawn and retire branches under the mutex, purge of the context list, Thread::start), ~ThreadPool.

Micro-step compilation (push / pop / size / FastSignal::*): the body is lowered to a list of instructions; every access to a
SHARED location (`_tail`, `_head`, `node->tail`, `node->head`, `node->data`, `_state`, `_aborting`, `_joinable`, `result`; plain or through
`Atomic::…`) is one instruction and starts one micro-step (program counter = index of the access in source order); the thread-local
computation after it (assignments to locals, branches, the loop back edge) runs on inside the same micro-step until the next shared
access (`goto pc`), a `return` (`ret`), or calls of modelled functions (`_signal.set()/reset()/wait()`, `_sig.…`, `join()`: `call [f, …] next-pc`;
a body that begins with such a call gets the entry pseudo program counter 0; the instruction after a call is a program counter of its own
(return address); the bool result of `pop(job)` / `push(job)` is read from `retB` there).
Locals are numbered in the order of their declaration (`v0, v1, …`; temporaries `x0, x1, …` in order of use), so renaming a local,
re-formatting, comments and the NSTD_VERIF_YIELD markers do not change the output.

Anything outside the understood subset is REFUSED (exception -> the check reports a broken tie): unknown statements, members,
calls, two shared accesses whose order is not fixed by a sequence point, a loop without a shared access, ...

Semantics of the translation (assumptions, listed in the MANIFEST note):
  usize (tickets, capacities)   -> Nat (no wrap-around);   usize / ssize in the counters of run() -> Int reduced mod 2^64 (`wrapU`, `toS`)
  Node* node = &_queue[e]       -> the slot index e;  `x & _capacityMask` -> `x &&& (cap - 1)`
  node->head (initially (usize)-1) -> Option Nat (none = never published); comparing with / storing a ticket wraps it in `some`
  node->data                    -> Option payload (none = raw memory); `new (&node->data) T(data)` stores `some data`;
                                   `(&node->data)->~T()` (T = Job, trivially destructible: no memory access) marks the slot raw inside the run-on
  Atomic::compareAndSwap(x,a,b) -> reads x, writes b when x = a, yields the old value;  swap -> writes, yields old;  testAndSet -> writes 1, yields old;
  Atomic::increment -> writes x+1, yields x+1;  Atomic::load -> reads;  Atomic::memoryBarrier() -> nothing (sequential consistency)
  ghost fields of the model (`pushLog`, `popLog`) are not produced by the translation (the equality theorems are modulo ghosts)
  ASSERT(cond);                 -> dropped (a debug check of a condition that holds; writes nothing)
  const T x = <thread-local expression>;  -> x is a name for that value (refused when an operand is modified afterwards)
  pthread_mutex_lock / unlock, pthread_cond_broadcast -> one micro-step each on `SigSt`; pthread_cond_wait -> three (release + enter the wait set, woken, re-lock)
"""
import re
import sys
from pathlib import Path


class Refuse(Exception):
    pass


def strip_comments(src):
    src = re.sub(r"/\*.*?\*/", " ", src, flags=re.S)
    return re.sub(r"//[^\n]*", "", src)


def strip_asserts(src):
    """`ASSERT(cond);` statements: debug checks of conditions that hold (they vanish with NDEBUG and write nothing): no effect"""
    out, i = [], 0
    for m in re.finditer(r"\bASSERT\s*\(", src):
        if m.start() < i:
            continue
        depth, j = 1, m.end()
        while depth and j < len(src):
            depth += (src[j] == "(") - (src[j] == ")")
            j += 1
        k = j
        while k < len(src) and src[k] in " \t":
            k += 1
        if k < len(src) and src[k] == ";":
            out.append(src[i:m.start()])
            i = k + 1
    out.append(src[i:])
    return "".join(out)


TOK = re.compile(r"\s*(->|==|!=|<=|>=|&&|\|\||\+\+|--|>>|<<|\|=|&=|\+=|-=|::|0x[0-9a-fA-F]+|[A-Za-z_]\w*|\d+|[{}()\[\];,<>=+\-*/!?:&.~|^%])")


def tokenize(text):
    toks, pos = [], 0
    text = text.rstrip()
    while pos < len(text):
        m = TOK.match(text, pos)
        if not m:
            if text[pos:].strip() == "":
                break
            raise Refuse(f"cannot tokenize at {text[pos:pos + 30]!r}")
        toks.append(m.group(1))
        pos = m.end()
    return toks


def balanced(src, start):
    depth = 0
    for i in range(start, len(src)):
        if src[i] == "{":
            depth += 1
        elif src[i] == "}":
            depth -= 1
            if depth == 0:
                return i + 1
    raise Refuse("unbalanced braces")


def extract(src, what, sig_rx):
    ms = list(re.finditer(sig_rx + r"\s*\{", src))
    if len(ms) != 1:
        raise Refuse(f"{what}: {len(ms)} definitions found, expected exactly one")
    m = ms[0]
    end = balanced(src, m.end() - 1)
    return src[m.end():end - 1], m


IDENT = re.compile(r"[A-Za-z_]\w*$")
TYPES = ("usize", "ssize", "uint32", "int", "uint", "Node")


# ---- parser: statements and expressions of the subset -------------------------------------------------------------------
class P:
    def __init__(self, toks, fn):
        self.t, self.i, self.fn = toks, 0, fn

    def peek(self, k=0):
        return self.t[self.i + k] if self.i + k < len(self.t) else None

    def eat(self, x=None):
        tok = self.peek()
        if tok is None or (x is not None and tok != x):
            raise Refuse(f"{self.fn}: expected {x!r}, found {tok!r} (token {self.i})")
        self.i += 1
        return tok

    def stmts(self):
        out = []
        while self.peek() is not None and self.peek() != "}":
            out.append(self.stmt())
        return out

    def text_upto_semicolon(self):
        j = self.i
        while j < len(self.t) and self.t[j] != ";":
            if self.t[j] in ("{", "}"):
                return None
            j += 1
        return "".join(self.t[self.i:j]) if j < len(self.t) else None

    def skip_semicolon(self):
        while self.eat() != ";":
            pass

    def stmt(self):
        tok = self.peek()
        if tok == "{":
            self.eat("{")
            b = self.stmts()
            self.eat("}")
            return ("block", b)
        if tok == ";":
            self.eat(";")
            return ("block", [])
        if tok == "if":
            self.eat("if"); self.eat("(")
            c = self.expr()
            self.eat(")")
            a = self.stmt()
            b = ("block", [])
            if self.peek() == "else":
                self.eat("else")
                b = self.stmt()
            return ("if", c, a, b)
        if tok == "for":
            self.eat("for"); self.eat("(")
            if self.peek() == ";":
                self.eat(";"); self.eat(";")
                upd = None
                if self.peek() != ")":
                    upd = self.expr()
                self.eat(")")
                return ("loop", upd, self.stmt())
            # counted initialisation loop: for (usize i = 0; i < N; ++i) body
            if self.peek() != "usize":
                raise Refuse(f"{self.fn}: `for` header outside the understood forms")
            self.eat("usize")
            v = self.eat()
            self.eat("="); lo = self.expr(); self.eat(";")
            c = self.expr(); self.eat(";")
            if [self.eat(), self.eat()] != ["++", v]:
                raise Refuse(f"{self.fn}: counted `for` must step with ++{v}")
            self.eat(")")
            if lo != ("num", 0) or c[0] != "bin" or c[1] != "<" or c[2] != ("id", v):
                raise Refuse(f"{self.fn}: counted `for` must be `for (usize {v} = 0; {v} < N; ++{v})`")
            return ("forall", v, c[3], self.stmt())
        if tok == "break":
            self.eat(); self.eat(";")
            return ("break",)
        if tok == "return":
            self.eat("return")
            e = None if self.peek() == ";" else self.expr()
            self.eat(";")
            return ("return", e)
        if tok == "while":
            self.eat("while"); self.eat("(")
            c = self.expr()
            self.eat(")")
            body = self.stmt()
            if c in (("id", "true"), ("num", 1)):
                return ("loop", None, body)
            return ("loop", None, ("block", [("if", ("not", c), ("break",), ("block", [])), body]))
        if tok in ("do", "switch", "goto", "continue", "delete", "try", "throw"):
            raise Refuse(f"{self.fn}: statement `{tok}` is outside the translated subset")
        text = self.text_upto_semicolon()
        if text is not None:
            m = re.fullmatch(r"new\(&(\w+)->(\w+)\)T\((\w+)\)", text)
            if m:
                self.skip_semicolon()
                return ("pnew", ("arrow", ("id", m.group(1)), m.group(2)), ("id", m.group(3)))
            m = re.fullmatch(r"\(&(\w+)->(\w+)\)->~T\(\)", text)
            if m:
                self.skip_semicolon()
                return ("dtor", ("arrow", ("id", m.group(1)), m.group(2)))
            if re.fullmatch(r"NSTD_VERIF_YIELD\(.*\)", text):      # marker of the verification hook: no effect
                self.skip_semicolon()
                return ("block", [])
            m = re.fullmatch(r"(?:VERIFY\()?pthread_(mutex_lock|mutex_unlock|cond_broadcast|cond_wait)\(\(pthread_(?:mutex|cond)_t\*\)[mc]data(?:,\(pthread_mutex_t\*\)mdata)?\)(?:==0\))?", text)
            if m:
                self.skip_semicolon()
                return ("posix", {"mutex_lock": "lock", "mutex_unlock": "unlock", "cond_broadcast": "bcast", "cond_wait": "cwait"}[m.group(1)])
            m = re.fullmatch(r"NSTD_EFFECT_(\w+)", text)
            if m:
                self.skip_semicolon()
                return ("effect", m.group(1))
            if text == "Atomic::memoryBarrier()":
                self.skip_semicolon()
                return ("block", [])
            if re.fullmatch(r"_queue=\(Node\*\)newchar\[sizeof\(Node\)\*_capacity\]", text):
                self.skip_semicolon()
                return ("alloc_queue",)
        if tok == "new":
            raise Refuse(f"{self.fn}: `new` expression outside the understood placement form")
        is_const = False
        if tok == "const" and self.peek(1) in TYPES:
            self.eat("const")
            tok = self.peek()
            is_const = True
        if tok in TYPES and (self.peek(1) == "*" or IDENT.match(self.peek(1) or "")):
            ty = self.eat()
            decls = []
            while True:
                ptr = False
                if self.peek() == "*":
                    self.eat("*"); ptr = True
                name = self.eat()
                if not IDENT.match(name):
                    raise Refuse(f"{self.fn}: declarator `{name}`")
                init = None
                if self.peek() == "=":
                    self.eat("=")
                    init = self.assign()
                decls.append((ty + ("*" if ptr else ""), name, init, is_const))
                if self.peek() == ",":
                    self.eat(",")
                    continue
                break
            self.eat(";")
            return ("decl", decls)
        e = self.expr()
        self.eat(";")
        return ("expr", e)

    # expressions ------------------------------------------------------------------------------------------------------
    def expr(self):
        return self.assign()

    def assign(self):
        lhs = self.ternary()
        if self.peek() in ("=", "|=", "&=", "+=", "-="):
            op = self.eat()
            rhs = self.assign()
            if op != "=":
                rhs = ("bin", op[0], lhs, rhs)
            return ("assign", lhs, rhs)
        return lhs

    def ternary(self):
        c = self.binary(0)
        if self.peek() == "?":
            self.eat("?")
            a = self.assign()
            self.eat(":")
            b = self.assign()
            return ("cond", c, a, b)
        return c

    LEVELS = [("||",), ("&&",), ("|",), ("^",), ("&",), ("==", "!="), ("<", ">", "<=", ">="), ("<<", ">>"), ("+", "-"), ("*", "/", "%")]

    def binary(self, lv):
        if lv == len(self.LEVELS):
            return self.unary()
        a = self.binary(lv + 1)
        while self.peek() in self.LEVELS[lv]:
            op = self.eat()
            b = self.binary(lv + 1)
            a = ("bin", op, a, b)
        return a

    def unary(self):
        tok = self.peek()
        if tok == "!":
            self.eat()
            return ("not", self.unary())
        if tok == "&":
            self.eat()
            return ("addr", self.unary())
        if tok == "-":
            self.eat()
            return ("neg", self.unary())
        if tok == "~":
            self.eat()
            return ("bnot", self.unary())
        if tok in ("++", "--", "*"):
            raise Refuse(f"{self.fn}: unary `{tok}` is outside the translated subset")
        if tok == "(" and self.peek(1) in ("ssize", "usize", "uint32") and self.peek(2) == ")":
            self.eat(); ty = self.eat(); self.eat()
            return ("cast", ty, self.unary())
        return self.postfix()

    def postfix(self):
        tok = self.eat()
        if tok == "(":
            e = self.expr()
            self.eat(")")
        elif re.fullmatch(r"\d+", tok):
            e = ("num", int(tok))
        elif re.fullmatch(r"0x[0-9a-fA-F]+", tok):
            e = ("num", int(tok, 16))
        elif IDENT.match(tok):
            name = tok
            while self.peek() == "::":
                self.eat()
                name += "::" + self.eat()
            e = ("id", name)
        else:
            raise Refuse(f"{self.fn}: unexpected token {tok!r} in an expression")
        while True:
            nxt = self.peek()
            if nxt == "->":
                self.eat()
                e = ("arrow", e, self.eat())
            elif nxt == ".":
                self.eat()
                e = ("dot", e, self.eat())
            elif nxt == "[":
                self.eat()
                ix = self.expr()
                self.eat("]")
                e = ("index", e, ix)
            elif nxt == "(":
                self.eat()
                args = []
                while self.peek() != ")":
                    args.append(self.assign())
                    if self.peek() == ",":
                        self.eat()
                self.eat(")")
                e = ("call", e, args)
            elif nxt in ("++", "--"):
                raise Refuse(f"{self.fn}: postfix `{nxt}` is outside the translated subset")
            else:
                return e


def parse_body(text, fn):
    p = P(tokenize(text), fn)
    b = p.stmts()
    if p.peek() is not None:
        raise Refuse(f"{fn}: trailing tokens")
    return b


# ---- lowering to instructions ---------------------------------------------------------------------------------------------
def flatten(e):
    """tokens of an expression tree in order (for comparing argument lists textually)"""
    if isinstance(e, tuple):
        if e[0] == "id":
            return [e[1]]
        if e[0] == "num":
            return [e[1]]
        if e[0] in ("dot", "arrow"):
            return flatten(e[1]) + ["." if e[0] == "dot" else "->", e[2]]
        return [e[0]] + [y for x in e[1:] for y in flatten(x)]
    if isinstance(e, list):
        return [y for x in e for y in flatten(x)]
    return [e]


class Env:
    """what the names of one class mean in the Lean model.
    shared:  C++ lvalue pattern -> (lean type 'nat'|'optnat'|'optdata', reader template, writer template)   (templates over the state `r`)
    const:   immutable members / parameters -> lean expression
    calls:   modelled calls `obj.method()` -> callee constructor"""
    def __init__(self, state_var, shared, const, calls, params, alias=None, call_args=None, value_calls=()):
        self.sv, self.shared, self.const, self.calls, self.params = state_var, shared, const, calls, params
        self.alias = alias or {}            # reference locals -> the member they name
        self.call_args = call_args or {}    # callee path -> expected argument texts (default: no arguments)
        self.value_calls = value_calls      # callees whose bool result is used (it is read from `retB` at the return address)
        self.class_text = None              # text in which `void helper(params) { … }` definitions are looked up (inlined at their call)


class Lower:
    def __init__(self, fn, env):
        self.fn, self.env = fn, env
        self.ins = []            # instructions
        self.locals = {}         # C++ name -> (lean field, type)
        self.order = []          # lean fields in order (name, type)
        self.ntmp = 0
        self.labels = 0
        self.breaks = []

    def refuse(self, msg):
        raise Refuse(f"{self.fn}: {msg}")

    def newlocal(self, name, ty):
        if name in self.locals:
            self.refuse(f"local `{name}` declared twice")
        f = f"v{sum(1 for x, _ in self.order if x.startswith('v'))}"
        self.locals[name] = (f, ty)
        self.order.append((f, ty))
        return f

    def tmp(self, ty):
        f = f"x{self.ntmp}"
        self.ntmp += 1
        self.order.append((f, ty))
        return f

    def label(self):
        self.labels += 1
        return f"L{self.labels}"

    def emit(self, *ins):
        if ins[0] in ("local", "load", "aload", "cas", "xchg", "tas", "inc") and isinstance(ins[1], str):
            for name, ent in self.locals.items():
                if ent[0] is None and ins[1] in ent[3]:
                    self.refuse(f"an operand of the const local `{name}` is modified after its declaration")
        self.ins.append(ins)

    # shared locations: ("mem", name) | ("slot", slotexpr(pure lean), field)
    def path(self, e):
        """textual path of a member expression (`a`, `a.b`, `a->b`), aliases of reference locals resolved; None for anything else"""
        if e[0] == "id":
            return self.env.alias.get(e[1], e[1])
        if e[0] in ("dot", "arrow"):
            a = self.path(e[1])
            if a is None:
                return None
            return a + ("." if e[0] == "dot" else "->") + e[2]
        return None

    def loc_of(self, e):
        if e[0] == "id" and e[1] in self.env.shared:
            return ("mem", e[1])
        if e[0] == "arrow" and e[1][0] == "id" and e[1][1] not in self.locals and self.path(e) in self.env.shared:
            return ("mem", self.path(e))
        if e[0] == "arrow" and e[1][0] == "id" and e[1][1] in self.locals and self.locals[e[1][1]][1] == "slot":
            key = "->" + e[2]
            if key in self.env.shared:
                return ("slot", f"L.{self.locals[e[1][1]][0]}", e[2])
            self.refuse(f"unknown member `{e[2]}` of a queue node")
        return None

    def loc_type(self, loc):
        return self.env.shared[loc[1] if loc[0] == "mem" else "->" + loc[2]][0]

    # pure expressions: returns (lean text, type)
    def pure(self, e):
        k = e[0]
        if k == "num":
            return str(e[1]), "nat"
        if k == "id":
            if e[1] in self.locals:
                ent = self.locals[e[1]]
                if ent[0] is None:
                    return ent[2], ent[1]
                f, ty = ent[0], ent[1]
                return f"L.{f}", ty
            if e[1] in self.env.const:
                return self.env.const[e[1]]
            if e[1] in self.env.params:
                return self.env.params[e[1]]
            if e[1] in ("true", "false"):
                return e[1], "bool"
            if e[1] in self.env.shared:
                self.refuse(f"shared member `{e[1]}` read inside a compound expression (order of accesses not fixed)")
            self.refuse(f"unknown name `{e[1]}`")
        if k == "tmp":
            return f"L.{e[1]}", e[2]
        if k in ("dot", "arrow") and self.path(e) in self.env.const:
            return self.env.const[self.path(e)]
        if k == "bin":
            a, ta = self.pure(e[2])
            b, tb = self.pure(e[3])
            op = e[1]
            if op in ("==", "!="):
                if "optnat" in (ta, tb) and ta != tb:
                    a = a if ta == "optnat" else f"some ({a})"
                    b = b if tb == "optnat" else f"some ({b})"
                elif {ta, tb} == {"nat", "int"}:
                    a = a if ta == "int" else f"(({a} : Nat) : Int)"
                    b = b if tb == "int" else f"(({b} : Nat) : Int)"
                elif ta != tb:
                    self.refuse(f"comparison of {ta} with {tb}")
                return f"({a} {'=' if op == '==' else '≠'} {b})", "prop"
            if ta not in ("nat", "int") or tb not in ("nat", "int"):
                self.refuse(f"operator `{op}` on {ta}/{tb}")
            if ta != tb:
                a = a if ta == "int" else f"(({a} : Nat) : Int)"
                b = b if tb == "int" else f"(({b} : Nat) : Int)"
            ty = "int" if "int" in (ta, tb) else "nat"
            if op in ("<", ">", "<=", ">="):
                return f"({a} {op.replace('<=', '≤').replace('>=', '≥')} {b})", "prop"
            lean = {"+": "+", "-": "-", "*": "*", "&": "&&&", "|": "|||", ">>": ">>>", "<<": "<<<", "%": "%", "/": "/"}.get(op)
            if lean is None or (ty == "int" and op not in "+-"):
                self.refuse(f"operator `{op}`")
            return f"({a} {lean} {b})", ty
        if k == "cast":
            a, ta = self.pure(e[2])
            if e[1] == "ssize":
                # (ssize)(x - y) on usize operands: the signed difference
                inner = e[2]
                if inner[0] == "bin" and inner[1] == "-":
                    x, tx = self.pure(inner[2])
                    y, ty_ = self.pure(inner[3])
                    if tx == "nat" and ty_ == "nat":
                        return f"((({x} : Nat) : Int) - (({y} : Nat) : Int))", "int"
                return (a if ta == "int" else f"(({a} : Nat) : Int)"), "int"
            if e[1] in ("usize", "uint32") and ta == "nat":
                return a, "nat"
            self.refuse(f"cast to {e[1]} of {ta}")
        if k == "cond":
            c = self.truth(*self.pure(e[1]))
            (a, ta), (b, tb) = self.pure(e[2]), self.pure(e[3])
            if ta != tb:
                self.refuse(f"conditional expression with branches of type {ta} and {tb}")
            return f"(if {c} then {a} else {b})", ta
        if k == "not":
            a, ta = self.pure(e[1])
            if ta == "prop":
                return f"(¬ {a})", "prop"
            if ta == "bool":
                return f"({a} = false)", "prop"
            if ta == "nat":
                return f"({a} = 0)", "prop"
            self.refuse(f"`!` on {ta}")
        if k == "addr" and e[1][0] == "index" and e[1][1] == ("id", "_queue"):
            a, ta = self.pure(e[1][2])
            if ta != "nat":
                self.refuse("queue index")
            return a, "slot"
        self.refuse(f"expression form `{k}` is outside the translated subset")

    def truth(self, txt, ty):
        if ty == "prop":
            return txt
        if ty == "bool":
            return f"({txt} = true)"
        if ty == "nat":
            return f"({txt} ≠ 0)"
        self.refuse(f"condition of type {ty}")

    ATOMICS = {"Atomic::compareAndSwap": ("cas", 3), "Atomic::swap": ("xchg", 2), "Atomic::testAndSet": ("tas", 1),
               "Atomic::increment": ("inc", 1), "Atomic::load": ("aload", 1)}

    def count_shared(self, e):
        if not isinstance(e, tuple):
            return 0
        if self.loc_of(e) is not None:
            return 1
        return sum(self.count_shared(x) for x in e[1:] if isinstance(x, (tuple, list))) if e[0] != "call" else \
            self.count_shared(e[1]) + sum(self.count_shared(a) for a in e[2])

    def rv(self, e, want=None):
        """lower an rvalue: emits the instructions of the shared accesses it contains (at most one whose position is fixed) and
        returns a PURE expression tree"""
        loc = self.loc_of(e)
        if loc is not None:
            t = want or self.tmp(self.loc_type(loc))
            self.emit("load", t, loc)
            return ("tmp", t, self.loc_type(loc))
        k = e[0]
        if k == "call" and e[1][0] == "id" and e[1][1] in self.ATOMICS:
            kind, n = self.ATOMICS[e[1][1]]
            if len(e[2]) != n:
                self.refuse(f"{e[1][1]} with {len(e[2])} arguments")
            loc = self.loc_of(e[2][0])
            if loc is None:
                self.refuse(f"{e[1][1]} on something that is not a known shared location")
            args = []
            if sum(1 for a in e[2][1:] if self.count_shared(a)) > 1:
                self.refuse("shared accesses in several arguments of an atomic operation (their order is not fixed)")
            for a in e[2][1:]:
                # an argument is evaluated before the operation itself
                args.append(self.pure(self.rv(a)) if self.count_shared(a) else self.pure(a))
            ty = self.loc_type(loc)
            t = want or self.tmp(ty)
            self.emit(kind, t, loc, *args)
            return ("tmp", t, ty)
        if k == "assign":
            if e[1][0] == "id" and e[1][1] in self.locals:
                if self.locals[e[1][1]][0] is None:
                    self.refuse(f"assignment to the const local `{e[1][1]}`")
                f, ty = self.locals[e[1][1]][0], self.locals[e[1][1]][1]
                if self.count_shared(e[2]):
                    r = self.rv(e[2])
                    self.emit("local", f, self.coerce(self.pure(r), ty))
                else:
                    self.emit("local", f, self.coerce(self.pure(e[2]), ty))
                return ("id", e[1][1])
            self.refuse("assignment inside an expression to something that is not a local")
        if k in ("bin",):
            na, nb = self.count_shared(e[2]), self.count_shared(e[3])
            if na + nb > 1:
                self.refuse(f"two shared accesses in one `{e[1]}` expression (their order is not fixed)")
            if e[1] in ("&&", "||"):
                self.refuse("short-circuit operator in an expression with a shared access")
            return ("bin", e[1], self.rv(e[2]) if na else e[2], self.rv(e[3]) if nb else e[3])
        if k == "not":
            return ("not", self.rv(e[1]))
        if k == "cast":
            return ("cast", e[1], self.rv(e[2]))
        if k == "cond":
            if self.count_shared(e[2]) or self.count_shared(e[3]):
                self.refuse("shared access inside a branch of a conditional expression")
            return ("cond", self.rv(e[1]), e[2], e[3])
        if self.count_shared(e) == 0:
            return e
        self.refuse(f"shared access inside expression form `{k}`")

    def coerce(self, pt, ty):
        txt, t = pt
        if t == ty:
            return txt
        if ty == "optnat" and t == "nat":
            return f"some ({txt})"
        if ty == "nat" and t == "slot" or ty == "slot" and t == "nat":
            return txt
        self.refuse(f"value of type {t} where {ty} is expected")

    def is_model_call(self, e):
        if e[0] != "call":
            return None
        pth = self.path(e[1])
        if pth is None or pth not in self.env.calls:
            return None
        want = self.env.call_args.get(pth, [])
        if ["".join(map(str, flatten(a))) for a in e[2]] != want:
            self.refuse(f"call of `{pth}` with arguments other than {want}")
        return self.env.calls[pth]

    def has_model_call(self, e):
        if not isinstance(e, tuple):
            return False
        if self.is_model_call(e):
            return True
        return any(self.has_model_call(x) for x in e[1:] if isinstance(x, tuple)) or (e[0] == "call" and any(self.has_model_call(a) for a in e[2]))

    def cond(self, c, lt, lf):
        """branch on condition c; `&&`, `||`, `!` around shared accesses are lowered to branches (short-circuit evaluation)"""
        if self.count_shared(c) == 0 and not self.has_assign(c) and not self.has_model_call(c):
            self.emit("br", self.cond_text(c), lt, lf)
            return
        if c[0] == "bin" and c[1] in ("&&", "||"):
            mid = self.label()
            if c[1] == "||":
                self.cond(c[2], lt, mid)
            else:
                self.cond(c[2], mid, lf)
            self.emit("label", mid)
            self.cond(c[3], lt, lf)
            return
        if c[0] == "not":
            self.cond(c[1], lf, lt)
            return
        f = self.is_model_call(c)
        if f is not None and f in self.env.value_calls:
            self.emit("call", f)
            self.emit("br", "(retB = true)", lt, lf)       # the return address of the call: its result is in `retB`
            return
        if self.has_model_call(c):
            self.refuse("the result of a modelled call is used in a condition")
        r = self.rv(c)
        txt, ty = self.pure(r)
        self.emit("br", self.truth(txt, ty), lt, lf)

    def has_assign(self, e):
        if not isinstance(e, tuple):
            return False
        if e[0] == "assign":
            return True
        return any(self.has_assign(x) for x in e[1:] if isinstance(x, tuple)) or (e[0] == "call" and any(self.has_assign(a) for a in e[2]))

    def cond_text(self, c):
        if c[0] == "bin" and c[1] in ("&&", "||"):
            return f"({self.cond_text(c[2])} {'∧' if c[1] == '&&' else '∨'} {self.cond_text(c[3])})"
        txt, ty = self.pure(c)
        return self.truth(txt, ty)

    def stmts(self, ss):
        for s in ss:
            self.stmt(s)

    def inline(self, name, args):
        """a call of a void member helper defined in the same class: its body is translated in place (parameters must be passed as plain
        names; `return;` inside it continues after the call)"""
        ms = list(re.finditer(r"\bvoid\s+" + name + r"\s*\(([^()]*)\)\s*(?:const\s*)?\{", self.env.class_text))
        if len(ms) != 1:
            self.refuse(f"call of `{name}`: {len(ms)} definitions `void {name}(…) {{…}}` found, expected exactly one")
        if getattr(self, "inline_depth", 0) >= 3:
            self.refuse("helper calls nested too deeply")
        end = balanced(self.env.class_text, ms[0].end() - 1)
        body = self.env.class_text[ms[0].end():end - 1]
        params = [x.strip().split()[-1].lstrip("&*") for x in ms[0].group(1).split(",") if x.strip()]
        if len(params) != len(args) or any(a[0] != "id" for a in args):
            self.refuse(f"call of `{name}`: arguments that are not plain names")
        for prm, a in zip(params, args):
            if prm != a[1]:
                body = re.sub(r"\b" + re.escape(prm) + r"\b", a[1], body)
        out = self.label()
        self.inline_depth = getattr(self, "inline_depth", 0) + 1
        self.inline_out = getattr(self, "inline_out", []) + [out]
        self.stmts(parse_body(body, self.fn + "/" + name))
        self.inline_out.pop()
        self.inline_depth -= 1
        self.emit("label", out)

    def stmt(self, s):
        k = s[0]
        if k == "block":
            self.stmts(s[1])
        elif k == "decl":
            for ty, name, init, is_const in s[1]:
                lty = {"usize": "nat", "ssize": "int", "uint32": "nat", "int": "nat", "uint": "nat", "Node*": "slot"}.get(ty)
                if lty is None:
                    self.refuse(f"local of type {ty}")
                if is_const and init is not None and not self.count_shared(init) and not self.has_assign(init) and not self.has_model_call(init):
                    # a const local with a thread-local initialiser is a name for that value (its operands must not change afterwards)
                    txt, t = self.pure(init)
                    if name in self.locals:
                        self.refuse(f"local `{name}` declared twice")
                    self.locals[name] = (None, t, self.coerce((txt, t), lty), set(re.findall(r"L\.(\w+)", txt)))
                    continue
                f = self.newlocal(name, lty)
                if init is not None:
                    if self.count_shared(init):
                        loc = self.loc_of(init)
                        if loc is not None or (init[0] == "call" and init[1][0] == "id" and init[1][1] in self.ATOMICS):
                            self.rv(init, want=f)
                        else:
                            r = self.rv(init)
                            self.emit("local", f, self.coerce(self.pure(r), lty))
                    else:
                        self.emit("local", f, self.coerce(self.pure(init), lty))
        elif k == "expr":
            e = s[1]
            if e[0] == "assign":
                loc = self.loc_of(e[1])
                if loc is not None:
                    if self.count_shared(e[2]):
                        self.refuse("shared access on both sides of an assignment")
                    self.emit("store", loc, self.coerce(self.pure(e[2]), self.loc_type(loc)))
                    return
                if e[1][0] == "id" and e[1][1] in self.env.params and self.env.params[e[1][1]][1] == "out":
                    # `result = node->data;` : the out parameter becomes a local of the payload type
                    name = e[1][1]
                    if name not in self.locals:
                        self.locals[name] = ("out", "optdata")
                        self.order.append(("out", "optdata"))
                    loc = self.loc_of(e[2])
                    if loc is None or self.loc_type(loc) != "optdata":
                        self.refuse("the out parameter is assigned something that is not the payload of a slot")
                    self.emit("load", "out", loc)
                    return
                self.rv(e)
                return
            if e[0] == "call" and e[1][0] == "id" and e[1][1] in self.ATOMICS:
                self.rv(e)
                return
            f = self.is_model_call(e) if e[0] == "call" else None
            if f is not None:
                self.emit("call", f)
                return
            if e[0] == "call" and e[1][0] == "id" and self.env.class_text is not None and IDENT.match(e[1][1]):
                self.inline(e[1][1], e[2])
                return
            self.refuse(f"expression statement of form `{e[0]}` is outside the translated subset")
        elif k == "effect":
            self.emit("raw2", s[1])
        elif k == "posix":
            if s[1] == "cwait":
                # pthread_cond_wait = three scheduling points: release the mutex and enter the wait set; be woken; re-acquire the mutex
                self.emit("cwait", None); self.emit("cwake", None); self.emit("relock", None)
            else:
                self.emit(s[1], None)
        elif k == "pnew":
            loc = self.loc_of(s[1])
            if loc is None or self.loc_type(loc) != "optdata":
                self.refuse("placement new on something that is not the payload of a slot")
            txt, ty = self.pure(s[2])
            if ty != "data":
                self.refuse("placement new copies something that is not the pushed value")
            self.emit("store", loc, f"some {txt}")
        elif k == "dtor":
            loc = self.loc_of(s[1])
            if loc is None or self.loc_type(loc) != "optdata":
                self.refuse("destructor call on something that is not the payload of a slot")
            self.emit("raw", loc)
        elif k == "if":
            lt, lf, le = self.label(), self.label(), self.label()
            c = s[1]
            if c[0] == "not":
                self.cond(c[1], lf, lt)
            else:
                self.cond(c, lt, lf)
            self.emit("label", lt)
            self.stmt(s[2])
            self.emit("jmp", le)
            self.emit("label", lf)
            self.stmt(s[3])
            self.emit("label", le)
        elif k == "loop":
            top, out = self.label(), self.label()
            self.emit("label", top)
            self.breaks.append(out)
            self.stmt(s[2])
            self.breaks.pop()
            if s[1] is not None:
                self.stmt(("expr", s[1]))
            self.emit("jmp", top)
            self.emit("label", out)
        elif k == "break":
            if not self.breaks:
                self.refuse("`break` outside a loop")
            self.emit("jmp", self.breaks[-1])
        elif k == "return":
            e = s[1]
            if getattr(self, "inline_out", []):
                if e is not None:
                    self.refuse("`return <value>` inside an inlined helper")
                self.emit("jmp", self.inline_out[-1])
            elif e is None:
                self.emit("ret", None)
            elif e[0] == "call" and self.is_model_call(e) is not None:
                self.emit("call", self.is_model_call(e))
                self.emit("ret", "callee")
            elif e[0] == "bin" and e[1] in ("&&", "||") and (self.count_shared(e) or self.has_model_call(e)):
                # return a || f();  ==  if (a) return true; return f();      return a && f();  ==  if (!a) return false; return f();
                lyes, lno = self.label(), self.label()
                last = e[3]
                tail = self.is_model_call(last)
                if tail:
                    if e[1] == "||":
                        self.cond(e[2], lyes, lno)
                        self.emit("label", lyes); self.emit("ret", ("true", "bool"))
                    else:
                        self.cond(e[2], lno, lyes)
                        self.emit("label", lyes); self.emit("ret", ("false", "bool"))
                    self.emit("label", lno)
                    self.emit("call", tail)
                    self.emit("ret", "callee")
                else:
                    self.cond(e, lyes, lno)
                    self.emit("label", lyes); self.emit("ret", ("true", "bool"))
                    self.emit("label", lno); self.emit("ret", ("false", "bool"))
            elif self.count_shared(e):
                r = self.rv(e)
                self.emit("ret", self.pure(r))
            else:
                self.emit("ret", self.pure(e))
        else:
            self.refuse(f"statement form `{k}` is outside the translated subset")


SHARED_KINDS = ("load", "store", "cas", "xchg", "tas", "inc", "aload", "lock", "unlock", "bcast", "cwait", "cwake", "relock")


class MicroSteps:
    """partition of the instruction list into micro-steps and their rendering as a Lean function"""
    def __init__(self, low, ret_type):
        self.low, self.env, self.ret_type = low, low.env, ret_type
        self.ins = low.ins + [("ret", None)]
        self.lab = {x[1]: i for i, x in enumerate(self.ins) if x[0] == "label"}
        self.pcs = [i for i, x in enumerate(self.ins) if x[0] in SHARED_KINDS]
        # return addresses: the instruction after a sequence of modelled calls is a program counter too (unless the function ends there)
        for i, x in enumerate(self.ins):
            if x[0] == "call":
                j = self.skip(i + 1, set())
                if self.ins[j][0] not in ("call", "ret") and j not in self.pcs:
                    self.pcs.append(j)
        self.pcs.sort()
        first = self.skip(0, set())
        # a body that begins with a modelled call (not with a shared access) gets the entry pseudo program counter 0
        self.entry = not (self.pcs and first == self.pcs[0])
        if self.entry and self.ins[first][0] != "call":
            low.refuse("the body begins neither with a shared access nor with a modelled call")
        self.pc_of = {i: n + (1 if self.entry else 0) for n, i in enumerate(self.pcs)}

    def skip(self, i, seen):
        while self.ins[i][0] in ("label", "jmp"):
            if i in seen:
                self.low.refuse("a loop without a shared access")
            seen.add(i)
            i = self.lab[self.ins[i][1]] if self.ins[i][0] == "jmp" else i + 1
        return i

    def rd(self, loc):
        sv = self.env.sv
        if loc[0] == "mem":
            return self.env.shared[loc[1]][1].format(r=sv)
        return self.env.shared["->" + loc[2]][1].format(r=sv, i=loc[1])

    def wr(self, loc, val):
        sv = self.env.sv
        if loc[0] == "mem":
            return self.env.shared[loc[1]][2].format(r=sv, v=val)
        return self.env.shared["->" + loc[2]][2].format(r=sv, i=loc[1], v=val)

    def access(self, x, ind):
        """lean lines of the shared access instruction x"""
        sv = self.env.sv
        k = x[0]
        out = []
        if k in ("load", "aload"):
            out.append(f"let L := {{ L with {x[1]} := {self.rd(x[2])} }}")
        elif k == "store":
            out.append(f"let {sv} := {self.wr(x[1], x[2])}")
        elif k == "cas":
            (a, ta), (b, tb) = x[3], x[4]
            ty = x[2] and self.low.loc_type(x[2])
            out.append(f"let L := {{ L with {x[1]} := {self.rd(x[2])} }}")
            out.append(f"let {sv} := if L.{x[1]} = {self.low.coerce((a, ta), ty)} then {self.wr(x[2], self.low.coerce((b, tb), ty))} else {sv}")
        elif k == "xchg":
            ty = self.low.loc_type(x[2])
            out.append(f"let L := {{ L with {x[1]} := {self.rd(x[2])} }}")
            out.append(f"let {sv} := {self.wr(x[2], self.low.coerce(x[3], ty))}")
        elif k == "tas":
            out.append(f"let L := {{ L with {x[1]} := {self.rd(x[2])} }}")
            out.append(f"let {sv} := {self.wr(x[2], '1')}")
        elif k in ("lock", "relock"):
            out.append(f"let {sv} := {{ {sv} with owner := some t }}")
        elif k == "unlock":
            out.append(f"let {sv} := {{ {sv} with owner := none }}")
        elif k == "bcast":
            out.append(f"let {sv} := {{ {sv} with waiters := [] }}")
        elif k == "cwait":
            out.append(f"let {sv} := {{ {sv} with owner := none, waiters := {sv}.waiters ++ [t] }}")
        elif k == "cwake":
            pass        # being woken changes nothing by itself (leaving the wait set is the broadcaster's / the environment's step)
        elif k == "inc":
            out.append(f"let {sv} := {self.wr(x[2], '(' + self.rd(x[2]) + ' + 1)')}")
            out.append(f"let L := {{ L with {x[1]} := {self.rd(x[2])} }}")
        return [ind + l for l in out]

    def walk(self, i, ind, seen, first=False):
        """run-on from instruction i: lean lines ending in a `.goto/.ret/.call` (`first`: i is the program counter being rendered)"""
        sv = self.env.sv
        i = self.skip(i, seen)
        x = self.ins[i]
        if i in seen:
            self.low.refuse("a loop without a shared access")
        seen = seen | {i}
        k = x[0]
        if i in self.pc_of and not first:
            return [f"{ind}({sv}, .goto {self.pc_of[i]} L)"]
        if k == "local":
            return [f"{ind}let L := {{ L with {x[1]} := {x[2]} }}"] + self.walk(i + 1, ind, seen)
        if k == "raw2":
            return [f"{ind}let {sv} := {{ {sv} with {x[1]} := true }}"] + self.walk(i + 1, ind, seen)
        if k == "raw":
            return [f"{ind}let {sv} := {self.wr(x[1], 'none')}"] + self.walk(i + 1, ind, seen)
        if k == "br":
            return ([f"{ind}if {x[1]} then"] + self.walk(self.lab[x[2]], ind + "  ", seen) + [f"{ind}else"] + self.walk(self.lab[x[3]], ind + "  ", seen))
        if k == "ret":
            v = x[1]
            if v is None:
                val = "()" if self.ret_type == "Unit" else None
                if val is None:
                    self.low.refuse("the end of a non-void function is reached without `return`")
            elif v == "callee":
                self.low.refuse("internal: callee return outside a tail call")
            else:
                txt, ty = v
                if self.ret_type == "Bool":
                    val = txt if ty == "bool" else f"(decide {self.low.truth(txt, ty)})"
                elif (self.ret_type == "Nat" and ty == "nat") or (self.ret_type == "Option Int" and ty == "optint"):
                    val = txt
                else:
                    self.low.refuse(f"return value of type {ty} in a function returning {self.ret_type}")
            return [f"{ind}({sv}, .ret {val} L)"]
        if k == "call":
            fs = [x[1]]
            j = self.skip(i + 1, set(seen))
            while self.ins[j][0] == "call":
                fs.append(self.ins[j][1])
                j = self.skip(j + 1, set(seen))
            y = self.ins[j]
            cl = "[" + ", ".join("." + f for f in fs) + "]"
            if y[0] == "ret" and (y[1] is None or y[1] == "callee"):
                return [f"{ind}({sv}, .call {cl} none L)"]
            if j in self.pc_of:
                return [f"{ind}({sv}, .call {cl} (some {self.pc_of[j]}) L)"]
            self.low.refuse("modelled calls followed by a `return` of a value")
        self.low.refuse(f"internal: instruction {k}")

    def render(self, name, params, state_ty, ltype):
        sv = self.env.sv
        rt = self.ret_type if " " not in self.ret_type else "(" + self.ret_type + ")"
        lines = [f"def {name} {params} ({sv} : {state_ty}) (pc : Nat) (L : {ltype}) : {state_ty} × GStep {ltype} {rt} :="]
        if self.entry:
            lines.append("  if pc = 0 then")
            lines += self.walk(0, "    ", set())
        for n, i in enumerate(self.pcs):
            kw = "if" if n == 0 and not self.entry else "else if"
            lines.append(f"  {kw} pc = {self.pc_of[i]} then")
            if self.ins[i][0] in SHARED_KINDS:
                lines += self.access(self.ins[i], "    ")
                lines += self.walk(i + 1, "    ", set())
            else:
                lines += self.walk(i, "    ", set(), first=True)
        lines.append(f"  else ({sv}, .stuck)")
        return "\n".join(lines)


LEAN_TY = {"nat": "Nat", "int": "Int", "slot": "Nat", "optnat": "Option Nat", "optdata": "Option α", "bool": "Bool", "optint": "Option Int"}
LEAN_DEF = {"nat": "0", "int": "0", "slot": "0", "optnat": "none", "optdata": "none", "bool": "false", "optint": "none"}


WORKER_ENV = dict(
    state_var="p",
    shared={"_pool->_processedJobs": ("nat", "{r}.processed", "{{ {r} with processed := {v} }}"),
            "_terminated": ("bool", "false", "{{ {r} with ctxs := {r}.ctxs.map (fun c => if c.tid = some t then {{ c with terminated := {v} }} else c) }}")},
    const={"job.proc": ("retJob.isSome", "bool")},
    calls={"_pool->_queue.pop": "pop", "_pool->_enqueuedSignal.reset": "fsResetEnq", "_pool->_enqueuedSignal.wait": "fsWaitEnq",
           "_pool->_enqueuedSignal.set": "fsSetEnq", "_pool->_dequeuedSignal.set": "fsSetDeq", "job.proc": "jobProc"},
    call_args={"_pool->_queue.pop": ["job"], "job.proc": ["job.args"]},
    value_calls=("pop",),
)


RUN_ENV = dict(
    state_var="p",
    shared={"_pushedJobs": ("nat", "{r}.pushed", "{{ {r} with pushed := {v} }}"),
            "_processedJobs": ("nat", "{r}.processed", "{{ {r} with processed := {v} }}"),
            "_threadCount": ("nat", "{r}.threadCount", "{{ {r} with threadCount := {v} }}")},
    const={},
    calls={"_queue.push": "push", "_dequeuedSignal.reset": "fsResetDeq", "_dequeuedSignal.wait": "fsWaitDeq", "_enqueuedSignal.set": "fsSetEnq"},
    call_args={"_queue.push": ["job"]},
    value_calls=("push",),
)


def run_prep(body):
    """the part of run() before the worker-count decision: from the start to the end of the four counter declarations; `Job job = {proc, args};`
    is the queued job (a parameter of the translated step function)"""
    body, n = re.subn(r"\b(?:const\s+)?Job\s+job\s*=\s*\{\s*proc\s*,\s*args\s*\}\s*;", "", body)
    if n != 1:
        raise Refuse("ThreadPool::run: `Job job = {proc, args};` not found exactly once")
    k = body.find("Atomic::increment(_pushedJobs)")
    if k < 0:
        raise Refuse("ThreadPool::run: `Atomic::increment(_pushedJobs)` not found")
    m = re.compile(r"\bif\s*\(").search(body, k)
    if not m:
        raise Refuse("ThreadPool::run: no decision after the counters")
    return body[:m.start()], {}


def worker_prep(body):
    """`Job job;` and the reference locals `T &name = _pool->member;` of ThreadContext::proc: the references become aliases"""
    alias = {}

    def ref(m):
        alias[m.group(2)] = "_pool->" + m.group(3)
        return ""
    body = re.sub(r"(LockFreeQueue\s*<\s*Job\s*>|FastSignal)\s*&\s*(\w+)\s*=\s*_pool\s*->\s*(\w+)\s*;", ref, body)
    body, n = re.subn(r"\bJob\s+job\s*(?:=\s*\{\s*0\s*,\s*0\s*\}\s*)?;", "", body)
    if n != 1:
        raise Refuse("ThreadContext::proc: the local `Job job;` is not declared exactly once")
    return body, alias


SIG_ENV = dict(
    state_var="g",
    shared={"signaled": ("bool", "{r}.signaled", "{{ {r} with signaled := {v} }}")},
    const={}, calls={},
)


def gen_signal(repo):
    """Signal::set / reset / wait() of src/Signal.cpp (the pthread branch of the #ifdef _WIN32 alternatives) over `SigSt`"""
    src = strip_comments((Path(repo) / "src" / "Signal.cpp").read_text())
    src, n = re.subn(r"#ifdef\s+_WIN32\b.*?#else\b(.*?)#endif", lambda m: m.group(1), src, flags=re.S)
    if "#if" in src:
        raise Refuse("Signal.cpp: preprocessor conditionals other than `#ifdef _WIN32 … #else … #endif`")
    src = strip_asserts(re.sub(r"^\s*#.*$", "", src, flags=re.M))
    parts, counts = [], {}
    for fn, rx, ret in (("set", r"void\s+Signal::set\(\s*\)", "Unit"), ("reset", r"void\s+Signal::reset\(\s*\)", "Unit"), ("wait", r"bool\s+Signal::wait\(\s*\)", "Bool")):
        txt, k = compile_fn(src, f"Signal::{fn}", rx, SIG_ENV, {}, ret, f"sig{fn.capitalize()}Step", "(t : Tid)", "SigSt", f"Sig{fn.capitalize()}L", False)
        parts.append(f"/-! ### Signal::{fn} (src/Signal.cpp, pthread branch) -/\n" + txt)
        counts["Signal::" + fn] = k
    return parts, counts


START_ENV = dict(
    state_var="x",
    shared={"Private::_threadPool": ("nat", "{r}.tp", "{{ {r} with tp := {v} }}"),
            "Private::_threadPoolLock": ("nat", "{r}.tplock", "{{ {r} with tplock := {v} }}"),
            "_joinable": ("bool", "{r}.fut.joinable", "{{ {r} with fut := {{ {r}.fut with joinable := {v} }} }}"),
            "_aborting": ("bool", "{r}.fut.aborting", "{{ {r} with fut := {{ {r}.fut with aborting := {v} }} }}")},
    const={},
    calls={"join": "futJoin", "threadPool->run": "poolRun"},
    call_args={"threadPool->run": ["proc", "args"]},
)


def start_prep(body):
    """the pool pointer is a number (0 = null); `new Private::ThreadPool` yields a non-null pointer and marks the state `created`"""
    body, n1 = re.subn(r"Private::ThreadPool\s*\*\s*threadPool\s*=", "usize threadPool =", body)
    body, n2 = re.subn(r"threadPool\s*=\s*new\s+Private::ThreadPool\s*;", "threadPool = 1; NSTD_EFFECT_created;", body)
    if n1 != 1 or n2 != 1:
        raise Refuse("Future<void>::startProc: the declaration of `threadPool` / `threadPool = new Private::ThreadPool;` not found exactly once")
    return body, {}


def locals_struct(name, order, poly):
    a = " (α : Type)" if poly else ""
    fields = "\n".join(f"  {f} : {LEAN_TY[ty]} := {LEAN_DEF[ty]}" for f, ty in order) or "  unit : Unit := ()"
    return f"structure {name}{a} where\n{fields}"


RING_ENV = dict(
    state_var="r",
    shared={
        "_tail": ("nat", "{r}.tail", "{{ {r} with tail := {v} }}"),
        "_head": ("nat", "{r}.head", "{{ {r} with head := {v} }}"),
        "->tail": ("nat", "({r}.slots {i}).tailT", "{r}.setSlot {i} {{ ({r}.slots {i}) with tailT := {v} }}"),
        "->head": ("optnat", "({r}.slots {i}).headT", "{r}.setSlot {i} {{ ({r}.slots {i}) with headT := {v} }}"),
        "->data": ("optdata", "({r}.slots {i}).data", "{r}.setSlot {i} {{ ({r}.slots {i}) with data := {v} }}"),
    },
    const={"_capacityMask": ("(r.cap - 1)", "nat"), "_capacity": ("r.cap", "nat")},
    calls={},
)

FS_ENV = dict(
    state_var="p",
    shared={"_state": ("nat", "(fsState {r} fs)", "setFsState {r} fs {v}")},
    const={},
    calls={"_signal.set": "sigSet", "_signal.reset": "sigReset", "_signal.wait": "sigWait"},
)


def compile_fn(src, what, rx, env, params, ret_type, lean_name, lean_params, state_ty, ltype, poly, prep=None, class_text=None):
    body, _ = extract(src, what, rx)
    alias = {}
    if prep is not None:
        body, alias = prep(body)
    low = Lower(what, Env(env["state_var"], env["shared"], env["const"], env["calls"], params, alias, env.get("call_args"), env.get("value_calls", ())))
    low.env.class_text = class_text
    low.stmts(parse_body(body, what))
    ms = MicroSteps(low, ret_type)
    lt = f"({ltype} α)" if poly else ltype
    return (locals_struct(ltype, low.order, poly) + "\n\n" + ms.render(lean_name, lean_params, state_ty, lt), len(ms.pcs) + (1 if ms.entry else 0))


# ---- constructors and the decision arithmetic of run() ------------------------------------------------------------------
def gen_queue_ctor(src):
    what = "LockFreeQueue::LockFreeQueue"
    body, _ = extract(src, what, r"LockFreeQueue<T>::LockFreeQueue\(\s*usize\s+capacity\s*\)")
    ss = parse_body(body, what)
    low = Lower(what, Env("r", {}, {}, {}, {"capacity": ("capacity", "nat")}))
    cap_lines, slot, scal = [], {}, {}
    have = set()
    NM = {"_capacityMask": "mask", "_capacity": "cap"}
    for s in ss:
        if s == ("alloc_queue",):
            continue
        if s[0] == "expr" and s[1][0] == "assign" and s[1][1][0] == "id":
            name = s[1][1][1]
            if name in ("_capacityMask", "_capacity"):
                low.env.const = {k: (NM[k], "nat") for k in have}
                txt, ty = low.pure(s[1][2])
                if ty != "nat":
                    low.refuse(f"{name} is assigned a {ty}")
                cap_lines.append(f"  let {NM[name]} := {txt}")
                have.add(name)
                continue
            if name in ("_tail", "_head"):
                txt, ty = low.pure(s[1][2])
                scal[name] = txt
                continue
        if s[0] == "forall":
            if s[2] != ("id", "_capacity"):
                low.refuse("the slot initialisation loop does not run to _capacity")
            v = s[1]
            low.env.params = {v: ("i", "nat")}
            body_ss = s[3][1] if s[3][0] == "block" else [s[3]]
            for b in body_ss:
                ok = (b[0] == "expr" and b[1][0] == "assign" and b[1][1][0] == "dot" and b[1][1][1] == ("index", ("id", "_queue"), ("id", v)))
                if not ok:
                    low.refuse("statement of the slot initialisation loop outside the understood form `_queue[i].f = e;`")
                fld, rhs = b[1][1][2], b[1][2]
                if fld == "head" and rhs in (("neg", ("num", 1)), ("bnot", ("cast", "usize", ("num", 0))), ("cast", "usize", ("neg", ("num", 1)))):
                    slot["headT"] = "none"
                elif fld == "head":
                    slot["headT"] = f"some ({low.pure(rhs)[0]})"
                elif fld == "tail":
                    slot["tailT"] = low.pure(rhs)[0]
                else:
                    low.refuse(f"slot member `{fld}`")
            continue
        low.refuse(f"statement of form `{s[0]}` outside the understood constructor shape")
    if have != {"_capacityMask", "_capacity"} or set(slot) != {"headT", "tailT"} or set(scal) != {"_tail", "_head"}:
        low.refuse("the constructor does not initialise _capacityMask, _capacity, every slot's tail/head, _tail and _head")
    out = ["/-- `_capacity` as computed by the constructor from its argument (bit smearing; `usize` as `Nat`: no wrap-around) -/",
           "def queueCtorCapacity (capacity : Nat) : Nat :=", *cap_lines, "  cap",
           "",
           "/-- slot `i` as initialised by the constructor's loop (the payload is raw memory) -/",
           f"def queueCtorSlot (α : Type) (i : Nat) : Slot α := {{ data := none, tailT := {slot['tailT']}, headT := {slot['headT']} }}",
           f"def queueCtorTail : Nat := {scal['_tail']}",
           f"def queueCtorHead : Nat := {scal['_head']}"]
    return "\n".join(out)


def gen_pool_ctor(src):
    what = "ThreadPool::ThreadPool"
    m = re.search(r"ThreadPool\(\s*usize\s+minThreads\s*=\s*([^,]+),\s*usize\s+maxThreads\s*=\s*([^,]+?),\s*usize\s+queueSize\s*=\s*([^,)]+)\)\s*:\s*([^{]*)\{", src)
    if not m or len(re.findall(r"[^~]\bThreadPool\(\s*usize", src)) != 1:
        raise Refuse(f"{what}: signature `ThreadPool(usize minThreads = …, usize maxThreads = …, usize queueSize = …) : …` not found exactly once")
    dmin, dmax, dq, inits = (m.group(k).strip() for k in (1, 2, 3, 4))
    end = balanced(src, m.end() - 1)
    body = src[m.end():end - 1]
    # an initialiser of `_idleResetTime` is accepted and ignored: the member is written by run() before its first read (it is only read in
    # the retire branch, which needs idleThreads > 1, i.e. an earlier run() that stored it); the model starts it at 0
    k_ = inits.find("_idleResetTime(")
    if k_ >= 0:
        depth, j_ = 1, k_ + len("_idleResetTime(")
        while depth and j_ < len(inits):
            depth += (inits[j_] == "(") - (inits[j_] == ")")
            j_ += 1
        inits = inits[:k_] + inits[j_:]
    init = dict((a, b.strip()) for a, b in re.findall(r"(_\w+)\(([^()]*)\)", inits))
    if len(init) != len([x for x in inits.split(",") if x.strip()]):
        raise Refuse(f"{what}: member initialisers outside the understood form `_member(expr)`")
    want = {"_minThreads": "minThreads", "_maxThreads": "maxThreads", "_queue": "queueSize", "_pushedJobs": "0", "_processedJobs": "0", "_threadCount": "0"}
    if init != want:
        raise Refuse(f"{what}: member initialisers {init} differ from the understood ones {want}")
    if dmax != "System::getProcessorCount()":
        raise Refuse(f"{what}: default of maxThreads is {dmax!r}")
    ss = parse_body(body, what)
    low = Lower(what, Env("p", {}, {}, {}, {}))
    low.locals = {"_maxThreads": ("maxT", "nat")}
    lines = []
    for s in ss:
        if s[0] == "if" and s[3] == ("block", []) and s[2][0] == "expr" and s[2][1][0] == "assign" and s[2][1][1] == ("id", "_maxThreads"):
            c = low.cond_text(s[1]).replace("L.maxT", "maxT")
            v = low.pure(s[2][1][2])[0].replace("L.maxT", "maxT")
            lines.append(f"  let maxT := if {c} then {v} else maxT")
        else:
            low.refuse("statement of the constructor body outside the understood form `if (cond(_maxThreads)) _maxThreads = e;`")
    dminv, dqv = int(dmin, 0), int(dq, 0)
    return "\n".join([
        "/-- `_maxThreads` after the constructor body -/",
        "def poolCtorMaxThreads (maxThreads : Nat) : Nat :=", "  let maxT := maxThreads", *lines, "  maxT",
        "",
        "/-- the member initialisers + body of `ThreadPool(minThreads, maxThreads, queueSize)`; `_queue(queueSize)` is the LockFreeQueue",
        "    constructor (`Ring.init` of its capacity, tied separately), the signals start unset, `_idleResetTime` is not initialised (0) -/",
        "def poolCtor (minThreads maxThreads queueSize : Nat) : Pool :=",
        f"  {{ minT := {init['_minThreads']}, maxT := poolCtorMaxThreads {init['_maxThreads']}, ring := Ring.init (ceilPow2 {init['_queue']}),",
        f"    enq := 0, deq := 0, pushed := {init['_pushedJobs']}, processed := {init['_processedJobs']}, threadCount := {init['_threadCount']},",
        "    idleReset := 0, mOwner := none, ctxs := [], nextCtx := 0 }",
        "",
        "/-- `new ThreadPool` with the default arguments (`processors` = what System::getProcessorCount() reports) -/",
        f"def poolCtorDefault (processors : Nat) : Pool := poolCtor {dminv} processors {dqv}"])


def gen_run_decision(src, cls=""):
    """the worker-count decision of ThreadPool::run (everything after the push loop): the counter arithmetic with `usize`/`ssize`
    wrap-around semantics and the decision TREE obtained by symbolic execution of the statements: branches on conditions over the
    four locals / `_minThreads` / `_maxThreads`, the clock comparison, and the effects `clockStore` (`_idleResetTime = …ticks…`),
    `spawn` (a statement that increments `_threadCount`), `retire` (one that decrements it).  The effect statements themselves (mutex,
    purge of the context list, Thread::start, the terminate job) are opaque here: they are hand-translated (frames runSp*/runRet*/cleanAt)."""
    what = "ThreadPool::run"
    body, _ = extract(src, what, r"void\s+run\(\s*void\s*\(\s*\*\s*proc\s*\)\s*\(\s*void\s*\*\s*\)\s*,\s*void\s*\*\s*args\s*\)")
    k = body.find("Atomic::increment(_pushedJobs)")
    if k < 0:
        raise Refuse(f"{what}: `Atomic::increment(_pushedJobs)` not found")
    k = body.rfind(";", 0, k) + 1
    tail = body[k:]
    # one-line value helpers of the class (`static uint32 idleClock() { return <expr>; }`) are expanded where they are called
    for m in re.finditer(r"(?:static\s+)?(?:inline\s+)?(?:uint32|usize|uint|int)\s+(\w+)\s*\(\s*\)\s*(?:const\s*)?\{\s*return\s+([^;{}]+);\s*\}", cls):
        tail = re.sub(r"\b" + m.group(1) + r"\s*\(\s*\)", "(" + m.group(2) + ")", tail)
    # void helpers without parameters: their body decides the effect of a call
    helpers = {}
    for m in re.finditer(r"\bvoid\s+(\w+)\s*\(\s*\)\s*\{", cls):
        helpers[m.group(1)] = "".join(cls[m.end():balanced(cls, m.end() - 1) - 1].split())
    toks = tokenize(tail)
    p = P(toks, what)

    def refuse(msg):
        raise Refuse(f"{what}: {msg}")

    # ---- typed evaluation with wrap-around: value = (lean Int expression, 'u' | 's' | 'lit')
    env = {"_minThreads": ("minT", "u"), "_maxThreads": ("maxT", "u")}

    def conv(v, ty):
        txt, t = v
        if t == ty or t == "lit":
            return txt
        return f"(wrapU {txt})" if ty == "u" else f"(toS {txt})"

    def ev(e):
        if e[0] == "num":
            return (str(e[1]), "lit")
        if e[0] == "id":
            if e[1] in env:
                return env[e[1]]
            raise KeyError(e[1])
        if e[0] == "cast" and e[1] in ("ssize", "usize"):
            v = ev(e[2])
            return (conv(v, "s" if e[1] == "ssize" else "u"), "s" if e[1] == "ssize" else "u") if v[1] != "lit" else v
        if e[0] == "bin" and e[1] in ("+", "-"):
            a, b = ev(e[2]), ev(e[3])
            ty = "u" if "u" in (a[1], b[1]) else ("s" if "s" in (a[1], b[1]) else "lit")
            if ty == "lit":
                refuse("arithmetic on two literals")
            txt = f"({conv(a, ty)} {e[1]} {conv(b, ty)})"
            return (f"(wrapU {txt})" if ty == "u" else f"(toS {txt})", ty)
        raise KeyError(e[0])

    def cmp_text(e):
        """comparison of decision values -> lean Prop text (KeyError when it mentions anything else)"""
        if e[0] == "not":
            return f"(¬ {cmp_text(e[1])})"
        if e[0] != "bin" or e[1] not in ("==", "!=", "<", ">", "<=", ">="):
            raise KeyError(e[0])
        a, b = ev(e[2]), ev(e[3])
        ty = "u" if "u" in (a[1], b[1]) else "s"
        op = {"==": "=", "!=": "≠", "<=": "≤", ">=": "≥"}.get(e[1], e[1])
        return f"({conv(a, ty)} {op} {conv(b, ty)})"

    CLOCK = ("cast", "uint32", ("bin", ">>", ("call", ("id", "Time::ticks"), []), ("num", 10)))
    clock_conds = []

    def conjuncts(c):
        out = []

        def flat(e):
            if e[0] == "bin" and e[1] == "&&":
                flat(e[2]); flat(e[3])
            else:
                out.append(e)
        flat(c)
        res = []
        for e in out:
            if "Time::ticks" in repr(e):
                if not (e[0] == "bin" and e[1] in ("<", ">", "<=", ">=") and e[2] == ("bin", "-", CLOCK, ("id", "_idleResetTime")) and e[3][0] == "num"):
                    refuse("clock comparison outside the understood form `(uint32)(Time::ticks() >> 10) - _idleResetTime <cmp> n`")
                op = {"<=": "≤", ">=": "≥"}.get(e[1], e[1])
                txt = f"((now - idleReset) {op} {e[3][1]})"
                if clock_conds and clock_conds[0] != txt:
                    refuse("two different clock comparisons")
                clock_conds[:] = [txt]
                res.append(None)
            else:
                res.append(cmp_text(e))       # KeyError -> not a decision condition
        return res

    # ---- the four declarations
    d = [p.stmt() for _ in range(4)]
    for s_ in d:
        if s_[0] != "decl" or len(s_[1]) != 1 or s_[1][0][0] not in ("usize", "ssize") or s_[1][0][2] is None:
            refuse("the four counter declarations after the push loop are not of the understood shape")
    (t0, n0, i0), (t1, n1, i1), (t2, n2, i2), (t3, n3, i3) = (s_[1][0][:3] for s_ in d)
    if t0 != "usize" or t2 != "usize" or i0 != ("call", ("id", "Atomic::increment"), [("id", "_pushedJobs")]) or i2 != ("id", "_threadCount"):
        refuse("counter declarations: expected usize = Atomic::increment(_pushedJobs); … ; usize = _threadCount; …")
    lets = []
    try:
        env[n0] = ("pushedJobs", "u")
        env["_processedJobs"] = ("processed", "u")
        v1 = ev(i1)
        lets.append(f"  let v1 : Int := {conv(v1, 'u' if t1 == 'usize' else 's')}")
        del env["_processedJobs"]
        env[n1] = ("v1", "u" if t1 == "usize" else "s")
        env[n2] = ("threadCount", "u")
        v3 = ev(i3)
        lets.append(f"  let v3 : Int := {conv(v3, 'u' if t3 == 'usize' else 's')}")
        env[n3] = ("v3", "u" if t3 == "usize" else "s")
    except KeyError as e:
        refuse(f"counter arithmetic mentions {e}")

    # ---- statement splitter (tolerant: effect statements are kept as opaque token texts)
    def split_stmt():
        """-> ('if', cond_expr | None, cond_text, then, else) | ('block', [stmts]) | ('return',) | ('opaque', text)"""
        tok = p.peek()
        if tok == "{":
            p.eat("{")
            out = []
            while p.peek() != "}":
                out.append(split_stmt())
            p.eat("}")
            return ("block", out)
        if tok == "return":
            p.skip_semicolon()
            return ("return",)
        if tok == "if":
            i0_ = p.i
            p.eat("if"); p.eat("(")
            j = p.i
            depth = 1
            while depth:
                t = p.eat()
                depth += (t == "(") - (t == ")")
            ctoks = p.t[j:p.i - 1]
            try:
                cp = P(ctoks, what)
                c = cp.expr()
                if cp.peek() is not None:
                    c = None
            except Refuse:
                c = None
            a = split_stmt()
            b = ("block", [])
            if p.peek() == "else":
                p.eat("else")
                b = split_stmt()
            return ("if", c, "".join(p.t[i0_:p.i]), a, b)
        i0_ = p.i
        if tok in ("for", "while"):
            p.eat(); p.eat("(")
            depth = 1
            while depth:
                t = p.eat()
                depth += (t == "(") - (t == ")")
            split_stmt()
            return ("opaque", "".join(p.t[i0_:p.i]))
        p.skip_semicolon()
        return ("opaque", "".join(p.t[i0_:p.i]))

    stmts = []
    while p.peek() is not None:
        stmts.append(split_stmt())
    def is_store(text):
        try:
            st = parse_body(text, what)
        except Refuse:
            return False
        return st == [("expr", ("assign", ("id", "_idleResetTime"), CLOCK))]

    def effect(text, acts, depth=0):
        if is_store(text):
            return acts + [".clockStore"]
        if "_idleResetTime" in text or "Time::ticks" in text:
            refuse(f"statement touching the idle clock outside the understood forms: {text[:60]}")
        m = re.fullmatch(r"(\w+)\(\);", text)
        if m and m.group(1) in helpers and depth < 3:
            return effect(helpers[m.group(1)], acts, depth + 1)
        for name, btxt in helpers.items():          # a helper called inside an opaque statement (`if (c) helper();`)
            if depth < 3 and re.search(r"\b" + name + r"\(\)", text):
                text = text + btxt
        if "++_threadCount" in text or "_threadCount++" in text or "Atomic::increment(_threadCount)" in text:
            # the reservation of a worker (the statement may also contain its creation and the undo of a refused creation)
            return acts + [".spawn"]
        if "_thread.start(" in text:
            # the creation of the worker thread; its failure branch (undoing the reservation, fixes/future/0006) is an environment
            # choice of the extended system XReachFix (SpawnFail.lean), not part of the decision
            return acts
        if "--_threadCount" in text or "_threadCount--" in text or "Atomic::decrement(_threadCount)" in text:
            return acts + [".retire"]
        return acts

    depth_guard = [0]

    def ex(ss, acts, ind):
        """symbolic execution of the statement list ss with the effects `acts` so far -> lean lines (a RunTree expression)"""
        depth_guard[0] += 1
        if depth_guard[0] > 400:
            refuse("decision tree too large")
        if not ss:
            return [f"{ind}.done [{', '.join(acts)}]"]
        s0, rest = ss[0], ss[1:]
        if s0[0] == "return":
            return [f"{ind}.done [{', '.join(acts)}]"]
        if s0[0] == "block":
            return ex(list(s0[1]) + rest, acts, ind)
        if s0[0] == "opaque":
            return ex(rest, effect(s0[1], acts), ind)
        _, c, text, a, b = s0
        cj = None
        if c is not None:
            try:
                cj = conjuncts(c)
            except KeyError:
                cj = None
        if cj is None:
            if "_idleResetTime" in text or "Time::ticks" in text:
                refuse("the idle clock is used under a condition that is not a decision over the counters")
            return ex(rest, effect(text, acts), ind)
        def paren(lines):
            lines = list(lines)
            k0 = len(lines[0]) - len(lines[0].lstrip())
            lines[0] = lines[0][:k0] + "(" + lines[0][k0:]
            lines[-1] = lines[-1] + ")"
            return lines

        def build(k, ind2):
            if k == len(cj):
                return ex([a] + rest, acts, ind2)
            if cj[k] is None:       # the clock comparison: both outcomes are kept, the comparison is `runClockCond`
                return [f"{ind2}.clock"] + paren(build(k + 1, ind2 + "  ")) + paren(ex([b] + rest, acts, ind2 + "  "))
            return [f"{ind2}if {cj[k]} then"] + build(k + 1, ind2 + "  ") + [f"{ind2}else"] + ex([b] + rest, acts, ind2 + "  ")

        return build(0, ind)

    tree = ex(stmts, [], "  ")
    if not clock_conds:
        refuse("no clock comparison found in the decision")
    return "\n".join([
        "/-- `usize` / `ssize` values as integers: reduction to the unsigned resp. signed 64-bit representative -/",
        "def U64 : Int := 18446744073709551616",
        "def S63 : Int := 9223372036854775808",
        "def wrapU (x : Int) : Int := x % U64",
        "def toS (x : Int) : Int := (x + S63) % U64 - S63",
        "",
        "/-- effects of the worker-count adjustment of `run()`, and its decision tree (`clock yes no`: the clock is read and compared) -/",
        "inductive RunAct where",
        "  | clockStore | spawn | retire",
        "  deriving DecidableEq, Repr",
        "inductive RunTree where",
        "  | done (acts : List RunAct)",
        "  | clock (yes no : RunTree)",
        "  deriving DecidableEq, Repr",
        "",
        "/-- what `run()` decides from the values it read (`pushedJobs` = result of the increment, `processed`, `threadCount` = the two plain reads) -/",
        "def runTree (pushedJobs processed threadCount minT maxT : Int) : RunTree :=",
        *lets,
        *tree,
        "",
        "/-- the clock comparison (`now` = `(uint32)(Time::ticks() >> 10)`, `idleReset` = `_idleResetTime`) -/",
        f"def runClockCond (now idleReset : Nat) : Prop := {clock_conds[0]}",
        "instance (a b : Nat) : Decidable (runClockCond a b) := by unfold runClockCond; exact inferInstance"])


# ---- include/nstd/Future.hpp + Future<void>::set ----------------------------------------------------------------------------
def class_body(hdr, what, rx):
    ms = list(re.finditer(rx + r"\s*\{", hdr))
    if len(ms) != 1:
        raise Refuse(f"{what}: {len(ms)} class definitions found, expected exactly one")
    end = balanced(hdr, ms[0].end() - 1)
    return hdr[ms[0].end():end - 1]


def fut_env(enum):
    return dict(
        state_var="x",
        shared={"_joinable": ("bool", "{r}.joinable", "{{ {r} with joinable := {v} }}"),
                "_aborting": ("bool", "{r}.aborting", "{{ {r} with aborting := {v} }}"),
                "_state": ("nat", "{r}.state", "{{ {r} with state := {v} }}"),
                "result": ("optint", "{r}.result", "{{ {r} with result := {v} }}")},
        const={k: (str(v), "nat") for k, v in enum.items()},
        calls={"_sig.wait": "sigWait", "_sig.reset": "sigReset", "_sig.set": "sigSet", "join": "futJoin", "future.join": "futJoin"},
    )


def gen_future_hpp(repo, src_cpp):
    hdr = strip_asserts(strip_comments((Path(repo) / "include" / "nstd" / "Future.hpp").read_text()))
    fv = class_body(hdr, "class Future<void>", r"template\s*<\s*>\s*class\s+Future\s*<\s*void\s*>")
    fa = class_body(hdr, "class Future<A>", r"template\s*<\s*typename\s+A\s*>\s*class\s+Future\b(?!\s*;)")
    m = re.search(r"enum\s+State\s*\{([^}]*)\}", fv)
    if not m:
        raise Refuse("Future<void>: enum State not found")
    names = [x.strip() for x in m.group(1).split(",") if x.strip()]
    if any(not IDENT.match(n) for n in names):
        raise Refuse("Future<void>::State: enumerators with explicit values are outside the translated subset")
    enum = {n: k for k, n in enumerate(names)}
    for need in ("idleState", "finishedState", "abortedState"):
        if need not in enum:
            raise Refuse(f"Future<void>::State: enumerator {need} is missing")
    env = fut_env(enum)
    parts, counts = [], {}
    parts.append("/-- the enumerators of `Future<void>::State`, in declaration order -/\n" +
                 "\n".join(f"def state_{n} : Nat := {k}" for n, k in enum.items()))
    # constructor: member initialisers
    m = re.search(r"[^~\w]Future\(\)\s*:\s*([^{]*)\{\s*\}", fv)
    if not m:
        raise Refuse("Future<void>::Future(): `Future() : <initialisers> {}` not found")
    init = dict((a, b.strip()) for a, b in re.findall(r"(_\w+)\(([^()]*)\)", m.group(1)))
    if set(init) != {"_aborting", "_state", "_joinable"}:
        raise Refuse(f"Future<void>::Future(): initialisers {sorted(init)}")
    low = Lower("Future<void>::Future()", Env("x", {}, {k: (str(v), "nat") for k, v in enum.items()}, {}, {}))
    vals = {}
    for k, v in init.items():
        txt, ty = low.pure(parse_body(v + ";", "Future()")[0][1])
        if (ty == "bool") != (k != "_state"):
            low.refuse(f"initialiser of {k} has type {ty}")
        vals[k] = txt
    parts.append("/-- the object `Future<void>()` constructs (`result` of Future<A> is default-constructed: never stored) -/\n"
                 f"def futCtor : Fut := {{ aborting := {vals['_aborting']}, state := {vals['_state']}, joinable := {vals['_joinable']} }}")
    fns = [("join", r"void\s+join\(\s*\)", "Unit", fv), ("abort", r"void\s+abort\(\s*\)", "Unit", fv),
           ("isAborting", r"bool\s+isAborting\(\s*\)\s*const", "Bool", fv), ("isFinished", r"bool\s+isFinished\(\s*\)\s*const", "Bool", fv),
           ("isAborted", r"bool\s+isAborted\(\s*\)\s*const", "Bool", fv), ("dtor", r"~Future\(\s*\)", "Unit", fv)]
    for name, rx, ret, cls in fns:
        txt, n = compile_fn(cls, f"Future<void>::{name}", rx, env, {}, ret, f"fut{name[0].upper() + name[1:]}Step", "", "Fut",
                            f"Fut{name[0].upper() + name[1:]}L", False)
        parts.append(f"/-! ### Future<void>::{name} -/\n" + txt)
        counts["Future<void>::" + name] = n
    txt, n = compile_fn(src_cpp, "Future<void>::set", r"void\s+Future<void>::set\(\s*\)", env, {}, "Unit", "futSetStep", "", "Fut", "FutSetL", False)
    parts.append("/-! ### Future<void>::set (src/Future.cpp) -/\n" + txt)
    txt, n = compile_fn(src_cpp, "Future<void>::startProc", r"void\s+Future<void>::startProc\(\s*void\s*\(\s*\*\s*proc\s*\)\s*\(\s*void\s*\*\s*\)\s*,\s*void\s*\*\s*args\s*\)",
                        START_ENV, {}, "Unit", "startProcStep", "", "StartSt", "StartProcL", False, prep=start_prep)
    parts.append("/-! ### Future<void>::startProc (src/Future.cpp) -/\n" + txt)
    counts["Future<void>::startProc"] = n
    counts["Future<void>::set"] = n
    # Future<A>: the conversion and the destructor are translated; the other members must be plain forwards to the embedded Future<void>
    txt, n = compile_fn(fa, "Future<A>::operator const A&", r"operator\s+const\s+A\s*&\s*\(\s*\)\s*const", env, {}, "Option Int", "futAResultStep", "",
                        "Fut", "FutAResultL", False)
    parts.append("/-! ### Future<A>::operator const A& -/\n" + txt)
    counts["Future<A>::operator const A&"] = n
    txt, n = compile_fn(fa, "Future<A>::~Future", r"~Future\(\s*\)", env, {}, "Unit", "futADtorStep", "", "Fut", "FutADtorL", False)
    parts.append("/-! ### Future<A>::~Future -/\n" + txt)
    counts["Future<A>::~Future"] = n
    for name, ret in (("abort", "void"), ("isAborting", "bool"), ("isFinished", "bool"), ("isAborted", "bool"), ("join", "void")):
        cst = r"\s*const" if ret == "bool" else ""
        body, _ = extract(fa, f"Future<A>::{name}", ret + r"\s+" + name + r"\(\s*\)" + cst)
        want = ("return" if ret == "bool" else "") + f"future.{name}();"
        if "".join(body.split()) != want:
            raise Refuse(f"Future<A>::{name} is not the plain forward `{want}`")
    # the two proc templates: order of body call / result store / set() / delete
    acts = {}
    for key, rx, var in (("void", r"template\s*<\s*class\s+A\s*>\s*void\s+Future<void>::proc\(\s*A\s*\*\s*a\s*\)", "a"),
                         ("A", r"template\s*<\s*typename\s+A\s*>\s*template\s*<\s*class\s+B\s*>\s*void\s+Future<A>::proc\(\s*B\s*\*\s*b\s*\)", "b")):
        body, _ = extract(hdr, f"Future<{key}>::proc", rx)
        # a local `Future<X> *const name = (Future<X> *)v->z;` is an alias of the cast expression
        for m in list(re.finditer(r"Future<(void|A)>\s*\*\s*(?:const\s+)?(\w+)\s*=\s*\(\s*Future<\1>\s*\*\s*\)\s*" + var + r"->z\s*;", body)):
            body = body.replace(m.group(0), "")
            body = re.sub(r"\b" + m.group(2) + r"\s*->", f"((Future<{m.group(1)}>*){var}->z)->", body)
        seq = []
        for st in [x.strip() for x in body.split(";") if x.strip()]:
            t = "".join(st.split())
            if t == f"{var}->call()":
                seq.append(".body")
            elif t == f"((Future<A>*){var}->z)->result={var}->call()":
                seq.append(".bodyIntoResult")
            elif t in (f"((Future<void>*){var}->z)->set()", f"((Future<A>*){var}->z)->future.set()"):
                seq.append(".set")
            elif t == f"delete{var}":
                seq.append(".deleteRecord")
            else:
                raise Refuse(f"Future<{key}>::proc: statement `{st}` is outside the understood forms")
        acts[key] = seq
    parts.append("/-! ### Future<void>::proc / Future<A>::proc: the order of their actions -/\n"
                 "inductive ProcAct where\n  | body | bodyIntoResult | set | deleteRecord\n  deriving DecidableEq, Repr\n"
                 f"def procVoid : List ProcAct := [{', '.join(acts['void'])}]\n"
                 f"def procA : List ProcAct := [{', '.join(acts['A'])}]")
    return parts, counts


HEADER = """/- generated by tools/gen_future.py from src/Future.cpp - do not edit -/
import Nstd.Future.Model

set_option linter.unusedVariables false

namespace Nstd.Generated.FutureBody
open Nstd.Future

/-- modelled callees of the translated bodies -/
inductive Callee where
  | sigSet | sigReset | sigWait      -- Signal::set / reset / wait of the object's Signal member
  | futJoin                          -- Future<void>::join of the same / the embedded future
  | pop                              -- the pool queue's pop(job): its result is in `retB` / `retJob` at the return address
  | fsSetEnq | fsResetEnq | fsWaitEnq | fsSetDeq   -- FastSignal operations on the pool's _enqueuedSignal / _dequeuedSignal
  | push                             -- the pool queue's push(job)
  | fsResetDeq | fsWaitDeq
  | poolRun                          -- threadPool->run(proc, args)
  | jobProc                          -- job.proc(job.args): Future<…>::proc for the call record of the popped job
  deriving DecidableEq, Repr

/-- what `Future<void>::startProc` touches: the two statics of `Private`, whether it constructed a pool, and its own object -/
structure StartSt where
  tp : Nat            -- Private::_threadPool (0 = null)
  tplock : Nat        -- Private::_threadPoolLock
  created : Bool      -- `new Private::ThreadPool` was executed
  fut : Fut

/-- outcome of one translated micro-step: continue at the shared access `pc`, return, call a modelled function and continue at `next`
    (`none` = the calls are the last action: the function returns when the last callee does; several calls in a row are one entry),
    or `stuck` (not a program counter of the body) -/
inductive GStep (L R : Type) where
  | goto (pc : Nat) (l : L)
  | ret (v : R) (l : L)
  | call (fs : List Callee) (next : Option Nat) (l : L)
  | stuck
"""


def generate(repo, out):
    src = strip_comments((Path(repo) / "src" / "Future.cpp").read_text())
    src = re.sub(r'NSTD_VERIF_YIELD\("[a-z]+",\s*&[^;()]*\);', "", src)      # markers of the verification hook: no effect
    src = strip_asserts(src)
    parts = [HEADER]
    counts = {}
    txt, n = compile_fn(src, "LockFreeQueue::push", r"LockFreeQueue<T>::push\(\s*const\s+T\s*&\s*data\s*\)", RING_ENV,
                        {"data": ("data", "data")}, "Bool", "pushStep", "{α : Type} (data : α)", "Ring α", "PushL", False)
    parts.append("/-! ### LockFreeQueue<T>::push -/\n" + txt)
    counts["push"] = n
    txt, n = compile_fn(src, "LockFreeQueue::pop", r"LockFreeQueue<T>::pop\(\s*T\s*&\s*result\s*\)", RING_ENV,
                        {"result": ("result", "out")}, "Bool", "popStep", "{α : Type}", "Ring α", "PopL", True)
    parts.append("/-! ### LockFreeQueue<T>::pop -/\n" + txt)
    counts["pop"] = n
    txt, n = compile_fn(src, "LockFreeQueue::size", r"LockFreeQueue<T>::size\(\s*\)\s*const", RING_ENV,
                        {}, "Nat", "sizeStep", "{α : Type}", "Ring α", "SizeL", False)
    parts.append("/-! ### LockFreeQueue<T>::size -/\n" + txt)
    counts["size"] = n
    for fn, ret in (("set", "Unit"), ("reset", "Unit"), ("wait", "Bool")):
        txt, n = compile_fn(src, f"FastSignal::{fn}", rf"FastSignal::{fn}\(\s*\)", FS_ENV, {}, ret,
                            f"fs{fn.capitalize()}Step", "(fs : Nat)", "Pool", f"Fs{fn.capitalize()}L", False)
        parts.append(f"/-! ### FastSignal::{fn} -/\n" + txt)
        counts["fs" + fn] = n
    txt, n = compile_fn(src, "ThreadContext::proc", r"uint\s+proc\(\s*\)", WORKER_ENV, {}, "Nat", "workerStep", "(t : Tid) (retB : Bool) (retJob : Job)",
                        "Pool", "WorkerL", False, prep=worker_prep)
    parts.append("/-! ### ThreadContext::proc (the worker loop) -/\n" + txt)
    counts["worker loop"] = n
    pool_cls = class_body(src, "class ThreadPool", r"class\s+ThreadPool\b(?!\s*[;*])")
    txt, n = compile_fn(src, "ThreadPool::run (push loop and counters)", r"void\s+run\(\s*void\s*\(\s*\*\s*proc\s*\)\s*\(\s*void\s*\*\s*\)\s*,\s*void\s*\*\s*args\s*\)",
                        RUN_ENV, {}, "Unit", "runPrefixStep", "(retB : Bool)", "Pool", "RunPrefixL", False, prep=run_prep, class_text=pool_cls)
    parts.append("/-! ### ThreadPool::run: the push loop with back-pressure and the three counter accesses -/\n" + txt)
    counts["run prefix"] = n
    parts.append("/-! ### LockFreeQueue<T>::LockFreeQueue -/\n" + gen_queue_ctor(src))
    parts.append("/-! ### ThreadPool::ThreadPool -/\n" + gen_pool_ctor(src))
    parts.append("/-! ### ThreadPool::run: counters and conditions -/\n" + gen_run_decision(src, pool_cls))
    sp, sc = gen_signal(repo)
    parts += sp
    counts.update(sc)
    hp, hc = gen_future_hpp(repo, src)
    parts += hp
    counts.update(hc)
    parts.append("end Nstd.Generated.FutureBody\n")
    text = "\n\n".join(parts)
    out = Path(out)
    out.parent.mkdir(parents=True, exist_ok=True)
    if not out.exists() or out.read_text() != text:
        out.write_text(text)
    return ", ".join(f"{k}: {v} micro-steps" for k, v in counts.items()) + "; queue/pool constructors; run() conditions"


if __name__ == "__main__":
    repo = sys.argv[1] if len(sys.argv) > 1 else "/repo"
    out = sys.argv[2] if len(sys.argv) > 2 else str(Path(__file__).resolve().parent.parent / "lean/Nstd/Generated/FutureBody.lean")
    try:
        print(generate(repo, out))
    except Refuse as e:
        print("REFUSED:", e)
        sys.exit(1)
