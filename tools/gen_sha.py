#!/usr/bin/env python3
"""Translator of the Sha area (property C17).

Regenerates from the CURRENT sources of the repo (`src/Crypto/Sha256.cpp`, `include/nstd/Crypto/Sha256.hpp`)

  lean/Nstd/Generated/Sha256Tables.lean   the build configuration of the sources as they are
  lean/Nstd/Generated/Sha256U2.lean       the same sources compiled with -D_SHA256_UNROLL2

Each file holds: the round constants `K`, the initial state written by `reset()`, the header constants,
the side-effect-free macros (`rotrFixed S0 S1 s0 s1 Ch Maj` ...) as Lean `UInt32` functions, the statement
macros (`blk0 blk2 R RX_8`, the register macros `a..h` expanded exactly like the preprocessor does) as Lean
state transformers over the record `RS` of the local variables of `Transform`, and the BODY of
`Sha256::Private::Transform` (declarations, constant-bound `for` loops, assignments, macro statements)
as Lean definitions `Transform_for<n>_body`, `Transform_for<n>`, `Transform`.

Two views of the translation unit are taken from the real preprocessor, so conditional compilation is
resolved by g++ and not by this script:
  g++ -E -dD                      the active macro definitions
  g++ -E -dD -fdirectives-only    the function bodies with #if/#ifdef resolved and macro calls NOT expanded
A small C parser (expressions and the statement subset used by the functions) linearises the bodies.
Anything it cannot find or cannot translate faithfully (unknown operator, unsequenced side effects,
aliasing macro arguments, non-constant loop bounds, ...) is reported as a broken tie: `(False, message)`.
"""
import hashlib
import os
import re
import subprocess
import sys
from pathlib import Path

VERIF = Path(__file__).resolve().parents[1]
GEN = VERIF / "lean" / "Nstd" / "Generated"
OUT = GEN / "Sha256Tables.lean"
OUT_U2 = GEN / "Sha256U2.lean"
OUT_BODY = GEN / "Sha256Body.lean"
OUT_PROOFS = GEN / "Sha256BodyProofs.lean"
LAST_STATUS = {}
UNROLL2 = "_SHA256_UNROLL2"
UNROLL1 = "_SHA256_UNROLL"
OUT_U1 = GEN / "Sha256U1.lean"


class Untranslatable(Exception):
    pass


# ---- C parser ------------------------------------------------------------------------------------
TOK = re.compile(r"\s*(0[xX][0-9a-fA-F]+|\d+|[A-Za-z_]\w*|<<=|>>=|\+=|-=|&=|\|=|\^=|\+\+|--|->|::|>>|<<|<=|>=|==|!=|&&|\|\||"
                 r"[-+&|^~?:=()\[\],;<>*{}%/!.])")
TYPES = {"UInt32": "UInt32", "unsigned": "UInt32", "uint32": "UInt32", "UInt64": "UInt64", "uint64": "UInt64",
         "Byte": "UInt8", "byte": "UInt8", "usize": "USize", "CSha256": "Sha", "Sha256": "Sha", "int": "Int"}
COUNTER_TYPES = ("Int", "UInt32")   # declared types accepted for the counter of a constant-bound `for` loop
ASGOPS = ("=", "+=", "-=", "&=", "|=", "^=", "<<=", ">>=")


def tokenize(s):
    toks, pos = [], 0
    s = s.strip()
    while pos < len(s):
        m = TOK.match(s, pos)
        if not m:
            raise Untranslatable(f"cannot tokenize {s[pos:pos + 20]!r}")
        toks.append(m.group(1))
        pos = m.end()
    return toks


class Parser:
    def __init__(self, toks, consts=None):
        self.t, self.p = toks, 0
        self.consts = consts or {}      # named integral constants usable as array sizes (`blockSize`, `digestSize`)

    def peek(self, k=0):
        return self.t[self.p + k] if self.p + k < len(self.t) else None

    def eat(self, x=None):
        if self.p >= len(self.t):
            raise Untranslatable("unexpected end of input")
        t = self.t[self.p]
        if x is not None and t != x:
            raise Untranslatable(f"expected {x!r}, found {t!r}")
        self.p += 1
        return t

    # -- macro bodies: expressions separated by `;`
    def stmts(self):
        out = [self.assign()]
        while self.peek() == ";":
            self.eat()
            if self.peek() is None:
                break
            out.append(self.assign())
        if self.peek() is not None:
            raise Untranslatable(f"trailing token {self.peek()!r}")
        return out

    # -- function bodies
    def block_items(self):
        out = []
        while self.peek() is not None and self.peek() != "}":
            out.append(self.stmt())
        return out

    def stmt(self):
        t = self.peek()
        if t == "{":
            self.eat()
            b = self.block_items()
            self.eat("}")
            return ("block", b)
        if t == ";":
            self.eat()
            return ("block", [])
        if t == "for":
            self.eat()
            self.eat("(")
            if self.peek() in TYPES and re.match(r"[A-Za-z_]\w*$", self.peek(1) or "") and self.peek(2) == "=":
                # `for (int i = 0; …)`: the counter is declared by the loop
                if TYPES[self.eat()] not in COUNTER_TYPES:
                    raise Untranslatable("type of a loop counter declared in the for statement")
                init = self.assign()
            else:
                init = None if self.peek() == ";" else self.assign()
            self.eat(";")
            cond = None if self.peek() == ";" else self.assign()
            self.eat(";")
            step = None if self.peek() == ")" else self.assign()
            self.eat(")")
            return ("for", init, cond, step, self.stmt())
        if t == "while":
            self.eat()
            self.eat("(")
            c = self.assign()
            self.eat(")")
            return ("while", c, self.stmt())
        if t == "if":
            self.eat()
            self.eat("(")
            c = self.assign()
            self.eat(")")
            a = self.stmt()
            b = None
            if self.peek() == "else":
                self.eat()
                b = self.stmt()
            return ("if", c, a, b)
        if t == "return":
            self.eat()
            self.eat(";")
            return ("return",)
        if t == "const" or (t in TYPES and (re.match(r"[A-Za-z_]", self.peek(1) or "") or self.peek(1) == "*")):
            return self.decl()
        e = self.assign()
        self.eat(";")
        return ("expr", e)

    def decl(self):
        if self.peek() == "const":
            self.eat()
        ty = self.eat()
        if ty not in TYPES:
            raise Untranslatable(f"unknown type {ty!r}")
        items = []
        while True:
            ptr = False
            if self.peek() == "*":
                self.eat()
                ptr = True
            name = self.eat()
            if not re.match(r"[A-Za-z_]\w*$", name):
                raise Untranslatable(f"declarator {name!r}")
            n = None
            if self.peek() == "[":
                self.eat()
                n = self.array_size()
                self.eat("]")
            init = None
            if self.peek() == "=":
                self.eat()
                init = self.assign()
            items.append(("decl", TYPES[ty], ptr, name, n, init))
            if self.peek() == ",":
                self.eat()
                continue
            break
        self.eat(";")
        return items[0] if len(items) == 1 else ("block", items)

    def array_size(self):
        t = self.eat()
        if re.match(r"0[xX][0-9a-fA-F]+$|\d+$", t):
            return int(t, 0)
        if t in self.consts:
            return self.consts[t]
        raise Untranslatable(f"array size {t!r} is neither a literal nor a known constant")

    # -- expressions
    def assign(self):
        l = self.cond()
        if self.peek() in ASGOPS:
            op = self.eat()
            r = self.assign()
            return ("asg", op, l, r)
        return l

    def cond(self):
        c = self.lor()
        if self.peek() == "?":
            self.eat()
            a = self.assign()
            self.eat(":")
            b = self.cond()
            return ("cond", c, a, b)
        return c

    def _left(self, sub, ops):
        l = sub()
        while self.peek() in ops:
            o = self.eat()
            l = ("bin", o, l, sub())
        return l

    def lor(self):
        return self._left(self.land, ("||",))

    def land(self):
        return self._left(self.bor, ("&&",))

    def bor(self):
        return self._left(self.bxor, ("|",))

    def bxor(self):
        return self._left(self.band, ("^",))

    def band(self):
        return self._left(self.equal, ("&",))

    def equal(self):
        return self._left(self.rel, ("==", "!="))

    def rel(self):
        return self._left(self.shift, ("<", ">", "<=", ">="))

    def shift(self):
        return self._left(self.add, (">>", "<<"))

    def add(self):
        return self._left(self.mul, ("+", "-"))

    def mul(self):
        return self._left(self.unary, ("*", "/", "%"))

    def unary(self):
        t = self.peek()
        if t == "~":
            self.eat()
            return ("not", self.unary())
        if t == "!":
            self.eat()
            return ("lnot", self.unary())
        if t == "*":
            self.eat()
            return ("deref", self.unary())
        if t in ("++", "--"):
            self.eat()
            return ("pre", t, self.unary())
        if t == "(" and self.peek(1) in TYPES and self.peek(2) == "(" and self.peek(3) == "&" and self.peek(4) == ")" and self.peek(5) == "[":
            # `(byte (&)[N])expr`: the object seen as an array of N elements
            self.eat()
            ty = self.eat()
            for x in ("(", "&", ")", "["):
                self.eat(x)
            n = self.array_size()
            self.eat("]")
            self.eat(")")
            return ("refcast", TYPES[ty], n, self.unary())
        if t == "(" and self.peek(1) in TYPES and self.peek(2) == ")":
            self.eat()
            ty = self.eat()
            self.eat(")")
            return ("cast", TYPES[ty], self.unary())
        return self.postfix()

    def postfix(self):
        n = self.primary()
        while True:
            t = self.peek()
            if t == "[":
                self.eat()
                e = self.assign()
                self.eat("]")
                if n[0] == "var":
                    n = ("idx", n[1], e)
                elif n[0] == "mem":
                    n = ("idx", n[1] + "->" + n[2], e)
                else:
                    raise Untranslatable("indexing of something that is not a named array")
            elif t == "->":
                self.eat()
                f = self.eat()
                if n[0] != "var":
                    raise Untranslatable("-> on something that is not a variable")
                n = ("mem", n[1], f)
            elif t in ("++", "--"):
                self.eat()
                n = ("post", t, n)
            elif t == ".":
                self.eat()
                f = self.eat()
                if n[0] != "var" or self.peek() != "(":
                    raise Untranslatable("`.` that is not a method call on a variable")
                self.eat()
                args = []
                if self.peek() != ")":
                    args.append(self.assign())
                    while self.peek() == ",":
                        self.eat()
                        args.append(self.assign())
                self.eat(")")
                n = ("mcall", n[1], f, args)
            else:
                return n

    def primary(self):
        t = self.eat()
        if t == "(":
            r = self.assign()
            self.eat(")")
            return r
        if re.match(r"0[xX]|\d", t):
            return ("num", int(t, 0))
        if not re.match(r"[A-Za-z_]", t):
            raise Untranslatable(f"unexpected token {t!r}")
        while self.peek() == "::":
            self.eat()
            t = ("Memory::" if t == "Memory" else "") + self.eat()
        if self.peek() == "(":
            self.eat()
            args = []
            if self.peek() != ")":
                args.append(self.assign())
                while self.peek() == ",":
                    self.eat()
                    args.append(self.assign())
            self.eat(")")
            return ("call", t, args)
        return ("var", t)


def parse(body):
    return Parser(tokenize(body)).stmts()


def parse_function(body, consts=None):
    p = Parser(tokenize(body), consts)
    items = p.block_items()
    if p.peek() is not None:
        raise Untranslatable(f"trailing token {p.peek()!r} in function body")
    return items


# ---- analysis ------------------------------------------------------------------------------------
def subst(n, env):
    k = n[0]
    if k == "var":
        return env.get(n[1], n)
    if k == "num":
        return n
    if k in ("not", "lnot", "deref"):
        return (k, subst(n[1], env))
    if k == "cast":
        return (k, n[1], subst(n[2], env))
    if k == "post":
        return (k, n[1], subst(n[2], env))
    if k == "idx":
        if n[1] in env:
            raise Untranslatable(f"macro parameter {n[1]} used as array")
        return ("idx", n[1], subst(n[2], env))
    if k == "call":
        return ("call", n[1], [subst(a, env) for a in n[2]])
    if k == "bin":
        return ("bin", n[1], subst(n[2], env), subst(n[3], env))
    if k == "cond":
        return ("cond", subst(n[1], env), subst(n[2], env), subst(n[3], env))
    if k == "asg":
        return ("asg", n[1], subst(n[2], env), subst(n[3], env))
    raise Untranslatable(str(n))


def union(xs):
    r, w, s, sw = set(), set(), set(), set()
    for x in xs:
        r, w, s, sw = r | x[0], w | x[1], s | x[2], sw | x[3]
    return r, w, s, sw


class Macros:
    """the function-like macros of one build configuration; `arrays`/`scalars` are the fields of the record
    `RS` (local variables of Transform that are assigned), set once the function has been analysed"""

    def __init__(self, defs):
        self.defs = defs            # name -> (params, body text)
        self.ast = {}
        self.kind = {}              # name -> pure | reader | proc
        self.arrays = []
        self.scalars = []

    def body(self, name):
        if name not in self.ast:
            if name not in self.defs:
                raise Untranslatable(f"macro {name} not found in the preprocessed source")
            self.ast[name] = parse(self.defs[name][1])
        return self.ast[name]

    def lvalue(self, l):
        while l[0] == "call" and self.classify(l[1]) == "reader":
            l = self.inline(l)
        return l

    def effects(self, n):
        """(arrays read, arrays written, scalars read, scalars written) of a node, looking through macro calls"""
        k = n[0]
        if k == "num":
            return set(), set(), set(), set()
        if k == "var":
            return set(), set(), {n[1]}, set()
        if k in ("not", "lnot"):
            return self.effects(n[1])
        if k == "cast":
            return self.effects(n[2])
        if k == "idx":
            r, w, s, sw = self.effects(n[2])
            return r | {n[1]}, w, s, sw
        if k == "call":
            params = self.defs.get(n[1], (None,))[0]
            if params is None:
                raise Untranslatable(f"call of {n[1]} which is not a function-like macro")
            if len(params) != len(n[2]):
                raise Untranslatable(f"macro {n[1]} called with {len(n[2])} arguments, defined with {len(params)}")
            r, w, s, sw = union(self.effects(a) for a in n[2])
            argmap = dict(zip(params, n[2]))
            for st in self.body(n[1]):
                x = self.effects(st)
                r, w, s = r | x[0], w | x[1], s | (x[2] - set(params))
                for v in x[3]:
                    if v in params:
                        a = argmap[v]
                        if a[0] != "var":
                            raise Untranslatable(f"macro {n[1]} assigns its parameter {v}, but the argument is not a variable")
                        sw = sw | {a[1]}
                    else:
                        sw = sw | {v}
            return r, w, s, sw
        if k == "bin":
            return union([self.effects(n[2]), self.effects(n[3])])
        if k == "cond":
            return union(self.effects(c) for c in n[1:])
        if k in ("asg", "post"):
            l = self.lvalue(n[2])
            r, w, s, sw = union([self.effects(l)] + ([self.effects(n[3])] if k == "asg" else []))
            if l[0] == "idx":
                w = w | {l[1]}
            elif l[0] == "var":
                sw = sw | {l[1]}
            else:
                raise Untranslatable("assignment to something that is neither an array element nor a variable")
            return r, w, s, sw
        raise Untranslatable(f"unsupported expression {n[0]}")

    def body_effects(self, name):
        return union(self.effects(st) for st in self.body(name))

    def classify(self, name):
        if name not in self.kind:
            r, w, s, sw = self.body_effects(name)
            self.kind[name] = "proc" if (w or sw) else ("reader" if r else "pure")
        return self.kind[name]

    def inline(self, call):
        params = self.defs[call[1]][0]
        b = self.body(call[1])
        if len(b) != 1:
            raise Untranslatable(f"macro {call[1]} used as an expression has several statements")
        return subst(b[0], dict(zip(params, call[2])))

    def procinfo(self, name):
        """how a statement macro becomes a Lean function: free immutable arrays, free scalars (parameters of the Lean
        function), parameters it assigns (passed by value, new values returned: sound because the call sites are checked
        to pass distinct plain variables for them), whether it yields a value"""
        params = self.defs[name][0]
        r, w, s, sw = self.body_effects(name)
        assigned = [p for p in params if p in sw]
        bad = (sw - set(params)) - set(self.scalars)
        if bad:
            raise Untranslatable(f"macro {name} assigns {sorted(bad)}, which is not a local scalar of the function")
        badw = w - set(self.arrays)
        if badw:
            raise Untranslatable(f"macro {name} assigns array(s) {sorted(badw)}, which are not local arrays of the function")
        arrays = sorted((r | w) - set(self.arrays))
        scal = sorted(s - set(params) - set(self.scalars))
        value = len(self.body(name)) == 1
        if value and assigned:
            raise Untranslatable(f"macro {name} yields a value and assigns its parameters")
        return arrays, scal, assigned, value


BINOP = {"+": "+", "-": "-", "&": "&&&", "|": "|||", "^": "^^^", ">>": ">>>", "<<": "<<<"}


class Emitter:
    """linearises expressions/assignments into Lean `let` lines over the state record `RS`"""

    def __init__(self, M, counter=None, st="st0", env=None, counters=(), hidden=()):
        self.M = M
        self.lines = []
        self.counter = counter if counter is not None else [0]
        self.st = st
        self.env = dict(env or {})      # macro parameters: name -> current Lean term (SSA)
        self.counters = list(counters)  # loop counters in scope (Lean `Nat`)
        self.hidden = set(hidden)       # loop counters of the function that are NOT in scope here
        self.reads = []                 # array reads not yet accounted for in `ok`: (array term, index term)

    def child(self):
        return Emitter(self.M, self.counter, self.st, self.env, self.counters, self.hidden)

    def flush(self):
        """fold the pending reads into the `ok` flag of the current state"""
        if self.reads:
            seen = []
            for r in self.reads:
                if r not in seen:
                    seen.append(r)
            new = self.fresh("st")
            cond = " && ".join([f"{self.st}.ok"] + [f"inb {a} {i}" for a, i in seen])
            self.lines.append(f"let {new} : RS := {{ {self.st} with ok := {cond} }}")
            self.st = new
            self.reads = []

    def fresh(self, p):
        self.counter[0] += 1
        return f"{p}{self.counter[0]}"

    def check_disjoint(self, parts, what):
        """C leaves the evaluation order of operands open: refuse when one operand writes something
        another operand reads or writes"""
        eff = [self.M.effects(p) for p in parts]
        for i, a in enumerate(eff):
            for j, b in enumerate(eff):
                if i != j and (a[1] & (b[0] | b[1]) or a[3] & (b[2] | b[3])):
                    raise Untranslatable(f"unsequenced side effect on {sorted((a[1] & (b[0] | b[1])) | (a[3] & (b[2] | b[3])))} in {what}")

    def var(self, name):
        if name in self.env:
            return self.env[name]
        if name in self.counters:
            return f"(UInt32.ofNat {name})"
        if name in self.hidden:
            raise Untranslatable(f"loop counter {name} is read outside its loop")
        if name in self.M.scalars:
            return f"{self.st}.{name}"
        return name

    def array(self, name):
        return f"{self.st}.{name}" if name in self.M.arrays else name

    def expr(self, n):
        k = n[0]
        if k == "num":
            return str(n[1])
        if k == "var":
            return self.var(n[1])
        if k == "not":
            return f"(~~~ {self.expr(n[1])})"
        if k == "idx":
            e = self.expr(n[2])
            if n[2][0] == "num":
                e = f"({e} : UInt32)"
            base = self.array(n[1])
            self.reads.append((base, f"({e}).toNat"))
            return f"({base}.getD ({e}).toNat 0)"
        if k == "bin":
            if n[1] not in BINOP:
                raise Untranslatable(f"operator {n[1]} is not translated")
            self.check_disjoint([n[2], n[3]], f"operands of {n[1]}")
            l = self.expr(n[2])
            r = self.expr(n[3])
            return f"({l} {BINOP[n[1]]} {r})"
        if k == "call":
            kind = self.M.classify(n[1])
            if kind == "reader":
                return self.expr(self.M.inline(n))
            if kind == "pure":
                for a in n[2]:
                    e = self.M.effects(a)
                    if e[1] or e[3]:
                        raise Untranslatable(f"argument of macro {n[1]} has side effects")
                return "(" + " ".join([n[1]] + [self.expr(a) for a in n[2]]) + ")"
            return self.call_proc(n)
        if k == "asg":
            return self.assign(n)
        if k == "cond":
            e = self.M.effects(n[1])
            if e[1] or e[3]:
                raise Untranslatable("condition with side effects")
            c = self.expr(n[1])
            ea, eb = self.M.effects(n[2]), self.M.effects(n[3])
            if ea[3] or eb[3]:
                raise Untranslatable("assignment to a scalar variable inside a conditional expression")
            if not (ea[0] or ea[1] or eb[0] or eb[1]):
                return f"(if {c} ≠ 0 then {self.expr(n[2])} else {self.expr(n[3])})"
            blocks = []
            for br in (n[2], n[3]):
                e = self.child()
                e.lines, e.reads = [], []
                val = e.expr(br)
                e.flush()
                blocks.append("(" + "; ".join(e.lines + [f"({e.st}, {val})"]) + ")")
            r = self.fresh("r")
            self.lines.append(f"let {r} : RS × UInt32 := if {c} ≠ 0 then {blocks[0]} else {blocks[1]}")
            self.st = self.fresh("st")
            self.lines.append(f"let {self.st} := {r}.1")
            return f"{r}.2"
        raise Untranslatable(f"unsupported expression {k}")

    def assign(self, n):
        op = n[1]
        if op not in ("=", "+="):
            raise Untranslatable(f"assignment operator {op} is not translated")
        l = self.M.lvalue(n[2])
        if l[0] == "idx":
            if l[1] not in self.M.arrays:
                raise Untranslatable(f"assignment target {l[1]}[..] is not an element of a local array")
            self.check_disjoint([l[2], n[3]], "assignment")
            if self.M.effects(n[3])[1] & {l[1]}:
                raise Untranslatable(f"right-hand side modifies the assigned array {l[1]}")
            rhs = self.expr(n[3])
            idx = self.expr(l[2])
            if l[2][0] == "num":
                idx = f"({idx} : UInt32)"
            v = self.fresh("v")
            if op == "+=":
                self.lines.append(f"let {v} := ({self.st}.{l[1]}.getD ({idx}).toNat 0) + {rhs}")
                self.reads.append((f"{self.st}.{l[1]}", f"({idx}).toNat"))
            else:
                self.lines.append(f"let {v} := {rhs}")
            self.flush()
            new = self.fresh("st")
            self.lines.append(f"let {new} : RS := {{ {self.st} with {l[1]} := wr {self.st}.{l[1]} ({idx}).toNat {v} }}")
            self.st = new
            return v
        if l[0] == "var":
            name = l[1]
            e = self.M.effects(n[3])
            if e[3]:
                raise Untranslatable("nested assignment to a scalar variable")
            rhs = self.expr(n[3])
            cur = self.var(name)
            v = self.fresh(name + "_")
            self.lines.append(f"let {v} := {cur} + {rhs}" if op == "+=" else f"let {v} := {rhs}")
            self.flush()
            self.store(name, v)
            return v
        raise Untranslatable("assignment target is neither an array element nor a variable")

    def store(self, name, v):
        if name in self.env:
            self.env[name] = v
        elif name in self.M.scalars:
            new = self.fresh("st")
            self.lines.append(f"let {new} : RS := {{ {self.st} with {name} := {v} }}")
            self.st = new
        else:
            raise Untranslatable(f"assignment to {name}, which is neither a macro parameter nor a local scalar of the function")

    def call_proc(self, n):
        name = n[1]
        params = self.M.defs[name][0]
        arrays, scal, assigned, value = self.M.procinfo(name)
        for a in n[2]:
            e = self.M.effects(a)
            if e[1] or e[3]:
                raise Untranslatable(f"argument of macro {name} has side effects")
        targets = []
        for p, a in zip(params, n[2]):
            if p in assigned:
                if a[0] != "var" or not (a[1] in self.env or a[1] in self.M.scalars):
                    raise Untranslatable(f"macro {name} assigns its parameter {p}; the argument must be a plain local variable")
                targets.append(a[1])
        # textual substitution = call by value + copy back only if the assigned variables are pairwise distinct, occur in
        # no other argument and are not free in the macro body
        for t in targets:
            occ = sum(1 for a in n[2] if t in self.M.effects(a)[2])
            if occ != 1 or t in scal:
                raise Untranslatable(f"macro {name}: the assigned argument {t} is aliased by another argument or a free variable")
        args = [self.expr(a) for a in n[2]]
        frees = [self.array(a) for a in arrays] + [self.var(s) for s in scal]
        self.flush()
        if not value and not assigned:
            new = self.fresh("st")
            self.lines.append(f"let {new} := {' '.join([name] + frees + args)} {self.st}")
            self.st = new
            return None
        r = self.fresh("r")
        self.lines.append(f"let {r} := {' '.join([name] + frees + args)} {self.st}")
        self.st = self.fresh("st")
        self.lines.append(f"let {self.st} := {r}.1")
        if value:
            return f"{r}.2"
        for i, t in enumerate(targets):
            proj = f"{r}.2" + ("" if len(targets) == 1 else ".2" * i + (".1" if i < len(targets) - 1 else ""))
            v = self.fresh(t + "_")
            self.lines.append(f"let {v} := {proj}")
            self.store(t, v)
        return None


def proc_def(M, name, doc=""):
    params, _ = M.defs[name]
    arrays, scal, assigned, value = M.procinfo(name)
    body = M.body(name)
    if len(body) > 1 and not assigned and all(st[0] == "call" and M.classify(st[1]) == "proc" for st in body):
        # a sequence of macro statements (RX_8): one definition per statement, the macro is their composition
        sig = ""
        if arrays:
            sig += f" ({' '.join(arrays)} : List UInt32)"
        if scal:
            sig += f" ({' '.join(scal)} : UInt32)"
        if params:
            sig += f" ({' '.join(params)} : UInt32)"
        args = "".join(" " + a for a in arrays + scal + params)
        out, comp = "", []
        for k, st in enumerate(body, 1):
            e = Emitter(M, env={p: p for p in params})
            e.expr(st)
            e.flush()
            out += (f"/-- statement {k} of `{name}` -/\ndef {name}_{k}{sig} (st0 : RS) : RS :=\n" +
                    "".join(f"  {l}\n" for l in e.lines) + f"  {e.st}\n\n")
            comp.append(f"  let st{k} := {name}_{k}{args} st{k - 1}\n")
        return out + doc + f"def {name}{sig} (st0 : RS) : RS :=\n" + "".join(comp) + f"  st{len(body)}\n"
    e = Emitter(M, env={p: p for p in params})
    val = None
    for st in M.body(name):
        val = e.expr(st)
        e.flush()
    sig = doc + f"def {name}"
    if arrays:
        sig += f" ({' '.join(arrays)} : List UInt32)"
    if scal:
        sig += f" ({' '.join(scal)} : UInt32)"
    if params:
        sig += f" ({' '.join(params)} : UInt32)"
    ret = "RS" + (" × UInt32" if value else "") + " × UInt32" * len(assigned)
    sig += f" (st0 : RS) : {ret} :=\n"
    body = "".join(f"  {l}\n" for l in e.lines)
    if value:
        body += f"  ({e.st}, {val})\n"
    elif assigned:
        body += "  (" + ", ".join([e.st] + [e.env[p] for p in assigned]) + ")\n"
    else:
        body += f"  {e.st}\n"
    return sig + body


def calls_in(n, acc):
    if not isinstance(n, tuple):
        return
    if n[0] == "call":
        acc.append(n[1])
        for a in n[2]:
            calls_in(a, acc)
        return
    for c in n[1:]:
        if isinstance(c, tuple):
            calls_in(c, acc)
        elif isinstance(c, list):
            for x in c:
                calls_in(x, acc)


def macro_closure(M, roots, want):
    """the macros of kind `want` reachable from `roots` (through macros of every kind), callees first"""
    order, seen = [], set()

    def visit(name, stack):
        if name in seen:
            return
        if name in stack:
            raise Untranslatable(f"recursive macro {name}")
        if name not in M.defs or M.defs[name][0] is None:
            return
        acc = []
        for st in M.body(name):
            calls_in(st, acc)
        for c in acc:
            visit(c, stack + [name])
        seen.add(name)
        if M.classify(name) == want:
            order.append(name)

    for r in roots:
        visit(r, [])
    return order


def pure_def(M, name):
    params, _ = M.defs[name]
    b = M.body(name)
    if len(b) != 1:
        raise Untranslatable(f"macro {name} has several statements")
    e = Emitter(M, env={p: p for p in params})
    # macro arguments are parenthesised in the body: `(x)` parses to the variable itself
    t = e.expr(b[0])
    return f"def {name} ({' '.join(params)} : UInt32) : UInt32 :=\n  {t}\n"


# ---- function bodies ---------------------------------------------------------------------------------
def flat_decls(items, acc):
    for s in items:
        if s[0] == "decl":
            acc.append(s)
        elif s[0] == "block":
            flat_decls(s[1], acc)
        elif s[0] == "for":
            flat_decls([s[4]], acc)
        elif s[0] == "while":
            flat_decls([s[2]], acc)
        elif s[0] == "if":
            flat_decls([s[2]] + ([s[3]] if s[3] else []), acc)
    return acc


def for_counters(items, acc):
    for s in items:
        if s[0] == "block":
            for_counters(s[1], acc)
        elif s[0] == "for":
            if s[1] and s[1][0] == "asg" and s[1][2][0] == "var":
                acc.add(s[1][2][1])
            for_counters([s[4]], acc)
        elif s[0] == "while":
            for_counters([s[2]], acc)
        elif s[0] == "if":
            for_counters([s[2]] + ([s[3]] if s[3] else []), acc)
    return acc


def stmt_effects(M, s):
    k = s[0]
    if k == "block":
        return union(stmt_effects(M, x) for x in s[1])
    if k == "decl":
        return M.effects(("asg", "=", ("var", s[3]), s[5])) if s[5] is not None else (set(), set(), set(), set())
    if k == "expr":
        return M.effects(s[1])
    if k == "for":
        return union([M.effects(x) for x in s[1:4] if x is not None] + [stmt_effects(M, s[4])])
    raise Untranslatable(f"statement `{k}` is not translated")


class FuncGen:
    """translates the body of one function into Lean definitions over `RS`"""

    def __init__(self, M, fname, immut, counters):
        self.M, self.fname, self.immut = M, fname, immut
        self.all_counters = set(counters)
        self.defs = []
        self.nloop = 0
        self.top = None             # the emitter of the function's top level
        self.nseg, self.seg_from, self.seg_in = 0, 0, "st0"

    def close_segment(self, e):
        """straight-line code of the top level between two loops becomes a definition of its own
        (`<function>_seg<n>`), so that the function is a composition of segments and loops"""
        e.flush()
        lines = e.lines[self.seg_from:]
        if lines:
            self.nseg += 1
            name = f"{self.fname}_seg{self.nseg}"
            imm = "".join(f" ({a} : List UInt32)" for a in self.immut)
            args = "".join(" " + a for a in self.immut)
            self.defs.append(f"/-- straight-line segment {self.nseg} of `{self.fname}` -/\n"
                             f"def {name}{imm} ({self.seg_in} : RS) : RS :=\n" + "".join(f"  {l}\n" for l in lines) + f"  {e.st}\n\n")
            new = e.fresh("st")
            e.lines[self.seg_from:] = [f"let {new} := {name}{args} {self.seg_in}"]
            e.st = new
        self.seg_from, self.seg_in = len(e.lines), e.st

    def stmt(self, s, e):
        k = s[0]
        if k == "block":
            for x in s[1]:
                self.stmt(x, e)
        elif k == "decl":
            if s[5] is not None:
                e.expr(("asg", "=", ("var", s[3]), s[5]))
                e.flush()
        elif k == "expr":
            e.expr(s[1])
            e.flush()
        elif k == "for":
            self.for_(s, e)
        else:
            raise Untranslatable(f"statement `{k}` is not translated")

    def for_(self, s, e):
        init, cond, step, body = s[1:]
        ok = (init and init[0] == "asg" and init[1] == "=" and init[2][0] == "var" and init[3][0] == "num"
              and cond and cond[0] == "bin" and cond[1] == "<" and cond[2] == init[2] and cond[3][0] == "num"
              and step and ((step[0] == "post" and step[1] == "++" and step[2] == init[2])
                            or (step[0] == "asg" and step[1] == "+=" and step[2] == init[2] and step[3][0] == "num" and step[3][1] > 0)))
        if not ok:
            raise Untranslatable(f"{self.fname}: only `for (v = const; v < const; v++ | v += const)` loops are translated")
        v, start, bound = init[2][1], init[3][1], cond[3][1]
        inc = 1 if step[0] == "post" else step[3][1]
        if v not in self.all_counters or v in e.counters or bound + inc >= 2 ** 32:
            raise Untranslatable(f"{self.fname}: loop counter {v}")
        if v in stmt_effects(self.M, body)[3]:
            raise Untranslatable(f"{self.fname}: the loop body assigns the loop counter {v}")
        self.nloop += 1
        name = f"{self.fname}_for{self.nloop}"
        outer = list(e.counters)
        be = Emitter(self.M, counters=outer + [v], hidden=self.all_counters - set(outer) - {v})
        self.stmt(body, be)
        be.flush()
        imm = "".join(f" ({a} : List UInt32)" for a in self.immut)
        cnt = "".join(f" ({c} : Nat)" for c in outer + [v])
        args = " ".join(self.immut + outer)
        args = (" " + args) if args else ""
        self.defs.append(f"/-- body of the loop `for ({v} = {start}; {v} < {bound}; {v} += {inc})` of `{self.fname}` -/\n"
                         f"def {name}_body{imm}{cnt} (st0 : RS) : RS :=\n" + "".join(f"  {l}\n" for l in be.lines) + f"  {be.st}\n\n"
                         f"/-- `for ({v} = {start}; {v} < {bound}; {v} += {inc}) …` of `{self.fname}`, entered with the counter at `{v}` -/\n"
                         f"def {name}{imm}{cnt} (st0 : RS) : RS :=\n"
                         f"  if {v} < {bound} then {name}{args} ({v} + {inc}) ({name}_body{args} {v} st0) else st0\n"
                         f"termination_by {bound} - {v}\n\n")
        if e is self.top:
            self.close_segment(e)
        e.flush()
        new = e.fresh("st")
        e.lines.append(f"let {new} := {name}{args} {start} {e.st}")
        e.st = new
        if e is self.top:
            self.seg_from, self.seg_in = len(e.lines), e.st


def strip_comments(text):
    text = re.sub(r"/\*.*?\*/", " ", text, flags=re.S)
    return re.sub(r"//[^\n]*", " ", text)


def function_text(code, header_rx, what):
    """(parameter list text, body text) of the function whose header matches `header_rx`"""
    m = re.search(header_rx, code)
    if not m:
        raise Untranslatable(f"{what} not found")
    i = code.index("{", m.end() - 1)
    depth, j = 0, i
    while j < len(code):
        if code[j] == "{":
            depth += 1
        elif code[j] == "}":
            depth -= 1
            if depth == 0:
                return m.group(1), code[i + 1:j]
        j += 1
    raise Untranslatable(f"{what}: unbalanced braces")


def transform_function(M, code):
    """analyse and translate `Sha256::Private::Transform`; returns (RS arrays, RS scalars, list of Lean defs)"""
    params, body = function_text(code, r"static\s+void\s+Transform\s*\(([^)]*)\)\s*\{", "Sha256::Private::Transform")
    ps = [re.sub(r"\s+", " ", p.strip()) for p in params.split(",")]
    ptr, immut = [], []
    for p in ps:
        m = re.match(r"(const )?UInt32 ?\* ?(\w+)$", p)
        if not m:
            raise Untranslatable(f"Transform: parameter `{p}` is not a UInt32 pointer")
        (immut if m.group(1) else ptr).append(m.group(2))
    items = parse_function(body)
    decls = flat_decls(items, [])
    counters = for_counters(items, set())
    arrays, scalars = [], []
    for d in decls:
        _, ty, isptr, name, n, init = d
        if ty != "UInt32" or isptr:
            raise Untranslatable(f"Transform: local `{name}` is not a 32-bit unsigned variable")
        if n is not None:
            arrays.append((name, n))
        elif name not in counters:
            scalars.append(name)
    M.arrays = sorted([a for a, _ in arrays] + ptr)
    M.scalars = scalars
    r, w, s, sw = union(stmt_effects(M, x) for x in items)
    for a in w:
        if a not in M.arrays:
            raise Untranslatable(f"Transform assigns `{a}`, which is neither a local array nor a non-const pointer parameter")
    for a in sw - counters:
        if a not in M.scalars:
            raise Untranslatable(f"Transform assigns `{a}`, which is not a local scalar")
    fg = FuncGen(M, "Transform", immut, counters)
    e = Emitter(M, hidden=counters)
    fg.top = e
    for x in items:
        fg.stmt(x, e)
    e.flush()
    if fg.nloop:
        fg.close_segment(e)
    imm = "".join(f" ({a} : List UInt32)" for a in immut)
    text = re.sub(r"\s+", " ", body).strip()
    fg.defs.append(f"/-- `Sha256::Private::Transform({params.strip()})`: `{text}`.\n"
                   f"The local variables and the array behind the non-const pointer are the fields of `RS`; the caller supplies\n"
                   f"`st0.{ptr[0] if ptr else 'state'}` and arbitrary values for the locals (they are uninitialised in C++). -/\n"
                   f"def Transform{imm} (st0 : RS) : RS :=\n" + "".join(f"  {l}\n" for l in e.lines) + f"  {e.st}\n\n")
    roots = []
    for x in items:
        calls_in(x, roots)
    return dict(arrays), ptr, immut, roots, fg.defs


# ---- object-level functions (WriteByteBlock, update, finalize): typed translation ---------------------
WIDTH = {"UInt8": 8, "UInt32": 32, "UInt64": 64}
FIELDS = {"state": ("array", "UInt32", 8), "count": ("scalar", "UInt64", None), "buffer": ("array", "UInt8", 64)}
SHA = "Nstd.Sha.Sha"
CMP = {"==": "=", "!=": "≠", "<": "<", ">": ">", "<=": "≤", ">=": "≥"}
ARITH = {"+": "+", "-": "-", "*": "*", "&": "&&&", "|": "|||", "^": "^^^"}
FUEL = 2 ** 32


class BE:
    """emission state of one straight-line region"""

    def __init__(self, counter, st="st0", counters=(), head=None):
        self.counter, self.st, self.counters, self.head = counter, st, list(counters), head
        self.lines, self.reads, self.pending = [], [], []
        self.used_head = self.size_dec = 0

    def fresh(self, p):
        self.counter[0] += 1
        return f"{p}{self.counter[0]}"


class BodyGen:
    """translates one function that works on a `Sha256` object into Lean definitions over a record `<f>_S` of the
    object (`p : Nstd.Sha.Sha`, ghost flag in `p.ok`), the function's local scalars/arrays and (finalize) the bytes
    written through the output pointer (`out`)"""

    def __init__(self, fname, items, obj, in_stream=None, out_ref=None, streams=None, consts=None, uninit_params=False,
                 segmented=False):
        self.fname, self.items, self.obj, self.in_stream, self.out_ref = fname, items, obj, in_stream, out_ref
        self.streams = dict(streams or {})          # input byte ranges handed over whole: pointer parameter -> its size parameter
        self.sizes = {v: k for k, v in self.streams.items()}
        self.consts = dict(consts or {})            # `static const usize` members of the class: name -> value
        self.uninit_params = uninit_params          # the initial content of local arrays is a parameter of the Lean function
        self.segmented = segmented                  # straight-line code between top-level loops becomes `<f>_seg<n>`
        self.S = f"{fname}_S"
        self.counters = for_counters(items, set())
        self.scalars, self.arrays, self.out_ptr, self.local_obj, self.out_direct = {}, {}, None, False, False
        for d in flat_decls(items, []):
            _, ty, isptr, name, n, init = d
            if ty == "Sha" and not isptr and n is None and init is None and self.obj is None:
                self.obj, self.local_obj = name, True     # `Sha256 sha256;`: constructed here (constructor = reset on fresh storage)
            elif isptr:
                if ty == "Sha" and init == ("var", "this"):
                    self.obj = name
                elif ty == "UInt8" and out_ref and init == ("var", out_ref):
                    self.out_ptr = name
                else:
                    raise Untranslatable(f"{fname}: pointer local `{name}` is not translated")
            elif n is not None:
                self.arrays[name] = (ty, n)
            elif name not in self.counters:
                if ty not in WIDTH:
                    raise Untranslatable(f"{fname}: local `{name}` of type {ty}")
                self.scalars[name] = ty
        if self.obj is None:
            raise Untranslatable(f"{fname}: no pointer to the object (`CSha256 *p = this;` or a `Sha256*` parameter)")
        self.defs, self.nloop, self.counter = [], 0, [0]

    # -- helpers
    def set_p(self, be, field, val):
        new = be.fresh("st")
        be.lines.append(f"let {new} : {self.S} := {{ {be.st} with p := {{ {be.st}.p with {field} := {val} }} }}")
        be.st = new

    def set_local(self, be, name, val):
        new = be.fresh("st")
        be.lines.append(f"let {new} : {self.S} := {{ {be.st} with {name} := {val} }}")
        be.st = new

    def flush(self, be):
        if be.reads:
            seen = []
            for r in be.reads:
                if r not in seen:
                    seen.append(r)
            be.reads = []
            self.set_p(be, "ok", " && ".join([f"{be.st}.p.ok"] + [(f"Sha256.inb {r[0]} {r[1]}" if len(r) == 2 else r[0]) for r in seen]))

    def finish_stmt(self, be):
        self.flush(be)
        for v in be.pending:
            self.set_local(be, v, f"{be.st}.{v} + 1")
        be.pending = []

    def array(self, name, be):
        if name.startswith(self.obj + "->"):
            f = name.split("->", 1)[1]
            if f in FIELDS and FIELDS[f][0] == "array":
                return f"{be.st}.p.{f}", FIELDS[f][1], ("p", f)
        if name in self.arrays:
            return f"{be.st}.{name}", self.arrays[name][0], ("local", name)
        raise Untranslatable(f"{self.fname}: `{name}[..]` is not an array of the object or a local array")

    def index(self, t, ty):
        if ty == "lit":
            return f"(({t} : UInt32)).toNat"
        if ty == "UInt32":
            return f"({t}).toNat"
        raise Untranslatable(f"{self.fname}: array index of type {ty}")

    def unify(self, a, b, what):
        if a == "lit":
            return b
        if b == "lit" or a == b:
            return a
        raise Untranslatable(f"{self.fname}: operands of {what} have different types {a}/{b} (implicit conversions are not translated)")

    # -- expressions: (Lean term, type)
    def ex(self, n, be):
        k = n[0]
        if k == "num":
            return str(n[1]), "lit"
        if k == "var":
            v = n[1]
            if v in be.counters:
                return f"(UInt32.ofNat {v})", "UInt32"
            if v in self.scalars:
                return f"{be.st}.{v}", self.scalars[v]
            if v in self.sizes:
                # the size parameter of an input byte range: the length of the list (a `Nat`; C type `usize`)
                return f"{self.sizes[v]}.length", "USize"
            if v in self.consts:
                return f"Sha256.{v}", "USize"
            raise Untranslatable(f"{self.fname}: variable `{v}` is not a local scalar or a loop counter in scope")
        if k == "mem":
            if n[1] != self.obj or n[2] not in FIELDS or FIELDS[n[2]][0] != "scalar":
                raise Untranslatable(f"{self.fname}: member access {n[1]}->{n[2]}")
            return f"{be.st}.p.{n[2]}", FIELDS[n[2]][1]
        if k == "idx":
            arr, ety, _ = self.array(n[1], be)
            i, ity = self.ex(n[2], be)
            idx = self.index(i, ity)
            be.reads.append((arr, idx))
            return f"({arr}.getD {idx} 0)", ety
        if k == "cast":
            t, sty = self.ex(n[2], be)
            if n[1] not in WIDTH:
                raise Untranslatable(f"{self.fname}: cast to {n[1]}")
            if sty == "lit":
                return f"({t} : {n[1]})", n[1]
            if sty not in WIDTH:
                raise Untranslatable(f"{self.fname}: cast of a {sty} value")
            return (t, sty) if sty == n[1] else (f"({t}).to{n[1]}", n[1])
        if k == "not":
            t, ty = self.ex(n[1], be)
            if ty in ("UInt8", "lit"):
                raise Untranslatable(f"{self.fname}: ~ on a promoted operand")
            return f"(~~~ {t})", ty
        if k == "bin" and n[1] in ARITH:
            l, lt = self.ex(n[2], be)
            r, rt = self.ex(n[3], be)
            ty = self.unify(lt, rt, n[1])
            if ty == "UInt8":
                # both operands are promoted to `int`; for & | ^ of two values in 0..255 the result is again in 0..255 and is
                # the bytewise operation, whatever it is converted to afterwards
                if n[1] in ("&", "|", "^") and all(x[0] != "num" or 0 <= x[1] < 256 for x in (n[2], n[3])):
                    return f"({l} {ARITH[n[1]]} {r})", "UInt8"
                raise Untranslatable(f"{self.fname}: arithmetic on byte operands (integer promotion is not translated)")
            if ty == "USize":
                # `usize` values are natural numbers here; a subtraction that would wrap clears the ghost flag instead
                if n[1] != "-":
                    raise Untranslatable(f"{self.fname}: operator {n[1]} on usize operands")
                be.reads.append((f"decide ({r} ≤ {l})",))
                return f"({l} - {r})", "USize"
            return f"({l} {ARITH[n[1]]} {r})", ty
        if k == "bin" and n[1] in ("<<", ">>"):
            l, lt = self.ex(n[2], be)
            if n[3][0] != "num" or lt not in WIDTH or lt == "UInt8" or n[3][1] >= WIDTH[lt]:
                raise Untranslatable(f"{self.fname}: shift whose amount is not a constant below the width of a 32/64-bit operand")
            return f"({l} {'<<<' if n[1] == '<<' else '>>>'} {n[3][1]})", lt
        if k == "post" and n[1] == "++" and n[2][0] == "var" and n[2][1] in self.scalars:
            v = n[2][1]
            if v in be.pending:
                raise Untranslatable(f"{self.fname}: `{v}++` twice in one statement")
            t = be.fresh(v + "_")
            be.lines.append(f"let {t} := {be.st}.{v}")
            be.pending.append(v)
            return t, self.scalars[v]
        if k == "deref" and self.in_stream and n[1] == ("post", "++", ("var", self.in_stream[0])) and be.head:
            be.used_head += 1
            return be.head, "UInt8"
        raise Untranslatable(f"{self.fname}: unsupported expression {n[0]} {n[1] if len(n) > 1 and isinstance(n[1], str) else ''}")

    def cond(self, n, be):
        if n[0] == "bin" and n[1] in CMP:
            l, lt = self.ex(n[2], be)
            r, rt = self.ex(n[3], be)
            self.unify(lt, rt, n[1])
            if lt == "lit" and rt == "lit":
                raise Untranslatable(f"{self.fname}: comparison of two literals")
            return f"{l} {CMP[n[1]]} {r}"
        if n[0] == "var" and (n[1] in self.sizes or n[1] in self.consts):
            t, _ = self.ex(n, be)
            return f"{t} ≠ 0"
        raise Untranslatable(f"{self.fname}: condition is not a comparison")

    # -- statements
    def assign(self, n, be):
        op, l, r = n[1], n[2], n[3]
        rt, rty = self.ex(r, be)

        def combine(cur, ty):
            self.unify(ty, rty, op)
            if op == "=":
                return rt if rty != "lit" else f"({rt} : {ty})"
            if op in ("<<=", ">>="):
                if r[0] != "num" or r[1] >= WIDTH[ty] or ty == "UInt8":
                    raise Untranslatable(f"{self.fname}: {op} with a non-constant or too large amount")
                return f"({cur} {'<<<' if op == '<<=' else '>>>'} {r[1]})"
            o = op[:-1]
            if o not in ARITH or ty == "UInt8":
                raise Untranslatable(f"{self.fname}: assignment operator {op}")
            return f"({cur} {ARITH[o]} {rt})"

        if l[0] == "var" and l[1] in self.scalars:
            v = be.fresh("v")
            be.lines.append(f"let {v} := {combine(f'{be.st}.{l[1]}', self.scalars[l[1]])}")
            self.flush(be)
            self.set_local(be, l[1], v)
        elif l[0] == "mem" and l[1] == self.obj and l[2] in FIELDS and FIELDS[l[2]][0] == "scalar":
            v = be.fresh("v")
            be.lines.append(f"let {v} := {combine(f'{be.st}.p.{l[2]}', FIELDS[l[2]][1])}")
            self.flush(be)
            self.set_p(be, l[2], v)
        elif l[0] == "idx":
            if op != "=":
                raise Untranslatable(f"{self.fname}: {op} on an array element")
            _, ety, where = self.array(l[1], be)
            it, ity = self.ex(l[2], be)
            idx = self.index(it, ity)
            v = be.fresh("v")
            be.lines.append(f"let {v} := {combine(None, ety)}")
            self.flush(be)
            if where[0] == "p":
                self.set_p(be, where[1], f"Sha256.wr {be.st}.p.{where[1]} {idx} {v}")
            else:
                self.set_local(be, where[1], f"Sha256.wr {be.st}.{where[1]} {idx} {v}")
        elif l[0] == "deref" and self.out_ptr and l[1] == ("post", "++", ("var", self.out_ptr)):
            if op != "=":
                raise Untranslatable(f"{self.fname}: {op} through the output pointer")
            v = be.fresh("v")
            be.lines.append(f"let {v} := {combine(None, 'UInt8')}")
            self.flush(be)
            self.set_local(be, "out", f"{be.st}.out ++ [{v}]")
        else:
            raise Untranslatable(f"{self.fname}: assignment target is not translated")
        self.finish_stmt(be)

    def call(self, n, be):
        name, args = n[1], n[2]
        if name == "WriteByteBlock" and args == [("var", self.obj)]:
            self.flush(be)
            new = be.fresh("st")
            be.lines.append(f"let {new} : {self.S} := {{ {be.st} with p := WriteByteBlock {be.st}.p }}")
            be.st = new
        elif name == "reset" and not args:
            self.flush(be)
            new = be.fresh("st")
            be.lines.append(f"let {new} : {self.S} := {{ {be.st} with p := Nstd.Sha.reset {be.st}.p }}")
            be.st = new
        elif name == "Transform" and len(args) == 2 and args[0] == ("mem", self.obj, "state") and args[1][0] == "var" \
                and self.arrays.get(args[1][1]) == ("UInt32", 16):
            self.flush(be)
            r = be.fresh("r")
            be.lines.append(f"let {r} := Transform_call {be.st}.p.state {be.st}.{args[1][1]}")
            new = be.fresh("st")
            be.lines.append(f"let {new} : {self.S} := {{ {be.st} with p := {{ {be.st}.p with state := {r}.1, ok := {be.st}.p.ok && {r}.2 }} }}")
            be.st = new
        elif name == "Memory::zero" and len(args) == 2:
            # documented behaviour of memset(buffer, 0, size) on a local byte array: checked block write
            arr, off = self.byte_target(args[0], be)
            cnt, cty = self.ex(args[1], be)
            if cty not in ("lit", "USize"):
                raise Untranslatable(f"{self.fname}: size argument of Memory::zero of type {cty}")
            self.flush(be)
            self.set_local(be, arr, f"Nstd.Sha.zeroAt {be.st}.{arr} {off} {cnt}")
        elif name == "Memory::copy" and len(args) == 3:
            # documented behaviour of memcpy(dest, src, count): dest a local byte array, src an input byte range
            arr, off = self.byte_target(args[0], be)
            if args[1][0] != "var" or args[1][1] not in self.streams:
                raise Untranslatable(f"{self.fname}: source of Memory::copy is not an input byte range")
            src = args[1][1]
            cnt, cty = self.ex(args[2], be)
            if cty not in ("lit", "USize"):
                raise Untranslatable(f"{self.fname}: size argument of Memory::copy of type {cty}")
            be.reads.append((f"decide ({cnt} ≤ {src}.length)",))
            self.flush(be)
            self.set_local(be, arr, f"Nstd.Sha.storeAt {be.st}.{arr} {off} ({src}.take {cnt})")
        else:
            raise Untranslatable(f"{self.fname}: call of {name} is not translated")

    def byte_target(self, n, be):
        """a destination pointer into a local byte array: `A` or `A + offset` -> (array, offset term : Nat)"""
        if n[0] == "var" and self.arrays.get(n[1], ("", 0))[0] == "UInt8":
            return n[1], "0"
        if n[0] == "bin" and n[1] == "+" and n[2][0] == "var" and self.arrays.get(n[2][1], ("", 0))[0] == "UInt8":
            t, ty = self.ex(n[3], be)
            if ty not in ("lit", "USize"):
                raise Untranslatable(f"{self.fname}: pointer offset of type {ty}")
            return n[2][1], t
        raise Untranslatable(f"{self.fname}: destination pointer is not (an offset into) a local byte array")

    def method_call(self, e, be):
        """`obj.update(range, size)` / `obj.finalize(dest)` on the local object"""
        new = be.fresh("st")
        a = e[3]
        if e[2] == "update" and len(a) == 2 and a[0][0] == "var":
            src = a[0][1]
            if self.in_stream and a == [("var", self.in_stream[0]), ("var", self.in_stream[1])]:
                be.lines.append(f"let {new} : {self.S} := {{ {be.st} with p := update {be.st}.p {src} }}")
            elif src in self.streams and a[1] == ("var", self.streams[src]):
                be.lines.append(f"let {new} : {self.S} := {{ {be.st} with p := update {be.st}.p {src} }}")
            elif self.arrays.get(src, ("", 0))[0] == "UInt8":
                cnt, cty = self.ex(a[1], be)
                if cty not in ("lit", "USize") or be.reads:
                    raise Untranslatable(f"{self.fname}: size argument of update")
                be.reads.append((f"decide ({cnt} ≤ {be.st}.{src}.length)",))      # the range read is inside the array
                self.flush(be)
                new = be.fresh("st")
                be.lines.append(f"let {new} : {self.S} := {{ {be.st} with p := update {be.st}.p ({be.st}.{src}.take {cnt}) }}")
            else:
                raise Untranslatable(f"{self.fname}: argument of update is not an input byte range or a local byte array")
        elif e[2] == "finalize" and len(a) == 1:
            r = be.fresh("r")
            d = a[0]
            if d[0] == "refcast":
                if d[1] != "UInt8" or d[2] != self.consts.get("digestSize"):
                    raise Untranslatable(f"{self.fname}: reference cast that is not to byte (&)[digestSize]")
                d = d[3]
            if self.out_ref and d == ("var", self.out_ref) and a[0][0] == "var":
                self.out_direct = True
                be.lines.append(f"let {r} := finalize {be.st}.p")
                be.lines.append(f"let {new} : {self.S} := {{ {be.st} with p := {r}.2, out := {be.st}.out ++ {r}.1 }}")
            elif d[0] == "var" and self.arrays.get(d[1], ("", 0))[0] == "UInt8" and \
                    (a[0][0] == "refcast" or self.arrays[d[1]][1] == self.consts.get("digestSize")):
                # the digest goes to the start of a local byte array (checked block write)
                be.lines.append(f"let {r} := finalize {be.st}.p")
                be.lines.append(f"let {new} : {self.S} := {{ {be.st} with p := {r}.2, {d[1]} := Nstd.Sha.storeAt {be.st}.{d[1]} 0 {r}.1 }}")
            else:
                raise Untranslatable(f"{self.fname}: destination of finalize is not translated")
        else:
            raise Untranslatable(f"{self.fname}: method call {e[1]}.{e[2]}(…) is not translated")
        be.st = new

    def stmt(self, s, be):
        k = s[0]
        if k == "block":
            for x in s[1]:
                self.stmt(x, be)
        elif k == "decl":
            _, ty, isptr, name, n, init = s
            if init is not None and not isptr:
                self.assign(("asg", "=", ("var", name), init), be)
        elif k == "expr":
            e = s[1]
            if e[0] == "asg":
                self.assign(e, be)
            elif e[0] == "call":
                self.call(e, be)
            elif e[0] == "mcall" and self.local_obj and e[1] == self.obj:
                self.flush(be)
                self.method_call(e, be)
            elif e[0] == "post" and e[1] == "--" and self.in_stream and e[2] == ("var", self.in_stream[1]) and be.head:
                be.size_dec += 1
            elif e[0] == "post" and e[1] == "++":
                self.assign(("asg", "+=", e[2], ("num", 1)), be)
            else:
                raise Untranslatable(f"{self.fname}: expression statement {e[0]}")
        elif k == "if":
            c = self.cond(s[1], be)
            self.flush(be)
            blocks = []
            for br in (s[2], s[3]):
                ch = BE(be.counter, be.st, be.counters, be.head)
                if br is not None:
                    self.stmt(br, ch)
                    self.flush(ch)
                    if ch.used_head or ch.size_dec:
                        raise Untranslatable(f"{self.fname}: the input stream is consumed under a condition")
                blocks.append("(" + "; ".join(ch.lines + [ch.st]) + ")" if ch.lines else ch.st)
            new = be.fresh("st")
            be.lines.append(f"let {new} : {self.S} := if {c} then {blocks[0]} else {blocks[1]}")
            be.st = new
        elif k == "for":
            self.for_(s, be)
        elif k == "while":
            self.while_(s, be)
        else:
            raise Untranslatable(f"{self.fname}: statement `{k}` is not translated")

    def cnt(self, cs):
        return "".join(f" ({c} : Nat)" for c in cs), "".join(" " + c for c in cs)

    def for_(self, s, be):
        init, cond, step, body = s[1:]
        ok = (init and init[0] == "asg" and init[1] == "=" and init[2][0] == "var" and init[3][0] == "num"
              and cond and cond[0] == "bin" and cond[1] == "<" and cond[2] == init[2] and cond[3][0] == "num"
              and step and step[0] in ("post", "pre") and step[1] == "++" and step[2] == init[2])
        if not ok:
            raise Untranslatable(f"{self.fname}: only `for (v = const; v < const; v++)` loops are translated")
        v, start, bound = init[2][1], init[3][1], cond[3][1]
        if v not in self.counters or v in be.counters or v in self.scalars or bound >= 2 ** 31:
            raise Untranslatable(f"{self.fname}: loop counter {v}")
        self.nloop += 1
        name = f"{self.fname}_for{self.nloop}"
        ch = BE(be.counter, "st0", be.counters + [v], be.head)
        self.stmt(body, ch)
        self.flush(ch)
        if ch.used_head or ch.size_dec:
            raise Untranslatable(f"{self.fname}: the input stream is consumed inside a for loop")
        sig, args = self.cnt(be.counters)
        self.defs.append(f"/-- body of the loop `for ({v} = {start}; {v} < {bound}; {v}++)` of `{self.fname}` -/\n"
                         f"def {name}_body{sig} ({v} : Nat) (st0 : {self.S}) : {self.S} :=\n" + "".join(f"  {l}\n" for l in ch.lines) + f"  {ch.st}\n\n"
                         f"/-- `for ({v} = {start}; {v} < {bound}; {v}++) …` of `{self.fname}`, entered with the counter at `{v}` -/\n"
                         f"def {name}{sig} ({v} : Nat) (st0 : {self.S}) : {self.S} :=\n"
                         f"  if {v} < {bound} then {name}{args} ({v} + 1) ({name}_body{args} {v} st0) else st0\n"
                         f"termination_by {bound} - {v}\n\n")
        self.flush(be)
        new = be.fresh("st")
        be.lines.append(f"let {new} := {name}{args} {start} {be.st}")
        be.st = new

    def while_(self, s, be):
        c, body = s[1], s[2]
        self.nloop += 1
        name = f"{self.fname}_while{self.nloop}"
        sig, args = self.cnt(be.counters)
        self.flush(be)
        if self.in_stream and c == ("bin", ">", ("var", self.in_stream[1]), ("num", 0)) and not be.head:
            ch = BE(be.counter, "st0", be.counters, "b")
            self.stmt(body, ch)
            self.flush(ch)
            if ch.used_head != 1 or ch.size_dec != 1:
                raise Untranslatable(f"{self.fname}: the loop `while ({self.in_stream[1]} > 0)` must read `*{self.in_stream[0]}++` and do `{self.in_stream[1]}--` exactly once per iteration")
            self.defs.append(f"/-- one iteration of `while ({self.in_stream[1]} > 0)` of `{self.fname}`; `b` is the byte `*{self.in_stream[0]}++` -/\n"
                             f"def {name}_body{sig} (b : UInt8) (st0 : {self.S}) : {self.S} :=\n" + "".join(f"  {l}\n" for l in ch.lines) + f"  {ch.st}\n\n"
                             f"/-- `while ({self.in_stream[1]} > 0) …` over the remaining input bytes -/\n"
                             f"def {name}{sig} : List UInt8 → {self.S} → {self.S}\n"
                             f"  | [], st0 => st0\n  | b :: rest, st0 => {name}{args} rest ({name}_body{args} b st0)\n\n")
            new = be.fresh("st")
            be.lines.append(f"let {new} := {name}{args} {self.in_stream[0]} {be.st}")
            be.st = new
            return
        probe = BE(be.counter, "st0", be.counters, be.head)
        ct = self.cond(c, probe)
        if probe.reads or probe.lines:
            raise Untranslatable(f"{self.fname}: loop condition with array reads or side effects")
        ch = BE(be.counter, "st0", be.counters, None)
        self.stmt(body, ch)
        self.flush(ch)
        self.defs.append(f"/-- one iteration of `while (…)` number {self.nloop} of `{self.fname}` -/\n"
                         f"def {name}_body{sig} (st0 : {self.S}) : {self.S} :=\n" + "".join(f"  {l}\n" for l in ch.lines) + f"  {ch.st}\n\n"
                         f"/-- the `while` loop with an iteration budget (`fuel`); running out of it clears the ghost flag `ok` (the theorems\n"
                         f"show that this does not happen: the loop ends long before) -/\n"
                         f"def {name}{sig} : Nat → {self.S} → {self.S}\n"
                         f"  | 0, st0 => {{ st0 with p := {{ st0.p with ok := false }} }}\n"
                         f"  | fuel + 1, st0 => if {ct} then {name}{args} fuel ({name}_body{args} st0) else st0\n\n")
        new = be.fresh("st")
        be.lines.append(f"let {new} := {name}{args} {FUEL} {be.st}")
        be.st = new

    def run(self, doc, result, params, seg_sig="", seg_args=""):
        be = BE(self.counter)
        seg = {"from": 0, "in": "st0", "n": 0}

        def close_segment():
            """straight-line code of the top level between two loops becomes a definition of its own (`<f>_seg<n>`)"""
            self.flush(be)
            lines = be.lines[seg["from"]:]
            if lines:
                seg["n"] += 1
                name = f"{self.fname}_seg{seg['n']}"
                self.defs.append(f"/-- straight-line part {seg['n']} of `{self.fname}` (the statements between two top-level loops) -/\n"
                                 f"def {name}{seg_sig} ({seg['in']} : {self.S}) : {self.S} :=\n" + "".join(f"  {l}\n" for l in lines) + f"  {be.st}\n\n")
                new = be.fresh("st")
                be.lines[seg["from"]:] = [f"let {new} := {name}{seg_args} {seg['in']}"]
                be.st = new
            seg["from"], seg["in"] = len(be.lines), be.st

        for x in self.items:
            loop = self.segmented and x[0] in ("for", "while")
            if loop:
                close_segment()
            self.stmt(x, be)
            if loop:
                seg["from"], seg["in"] = len(be.lines), be.st
        self.flush(be)
        if self.segmented:
            close_segment()
        has_out = bool(self.out_ptr) or self.out_direct
        fields = [f"  p : {SHA}\n"] + [f"  {a} : List {ty}\n" for a, (ty, n) in self.arrays.items()] + \
                 [f"  {v} : {ty}\n" for v, ty in self.scalars.items()] + (["  out : List UInt8\n"] if has_out else [])
        init = ["p := Nstd.Sha.init" if self.local_obj else "p := p"] + \
               [(f"{a} := {a}0" if self.uninit_params else f"{a} := List.replicate {n} 0") for a, (ty, n) in self.arrays.items()] + \
               [f"{v} := 0" for v in self.scalars] + (["out := []"] if has_out else [])
        head = (f"/-- the object, the local variables" + (" and the bytes written through the output pointer/reference" if (self.out_ptr or self.out_direct) else "") +
                f" of `{self.fname}` -/\nstructure {self.S} where\n" + "".join(fields) + "\n")
        main = (doc + f"def {self.fname} {params} :=\n  let st0 : {self.S} := {{ {', '.join(init)} }}\n" +
                "".join(f"  {l}\n" for l in be.lines) + f"  {result.format(st=be.st)}\n\n")
        return head + "".join(self.defs) + main


def rename_ast(n, ren):
    if isinstance(n, list):
        return [rename_ast(x, ren) for x in n]
    if not isinstance(n, tuple):
        return n
    k = n[0]
    if k == "var":
        return ("var", ren.get(n[1], n[1]))
    if k == "idx":
        name = n[1]
        if "->" in name:
            o, f = name.split("->", 1)
            name = ren.get(o, o) + "->" + f
        else:
            name = ren.get(name, name)
        return ("idx", name, rename_ast(n[2], ren))
    if k == "mem":
        return ("mem", ren.get(n[1], n[1]), n[2])
    if k == "mcall":
        return ("mcall", ren.get(n[1], n[1]), n[2], rename_ast(n[3], ren))
    if k == "decl":
        return ("decl", n[1], n[2], ren.get(n[3], n[3]), n[4], rename_ast(n[5], ren))
    if k == "call":
        return ("call", n[1], rename_ast(n[2], ren))
    return tuple([k] + [rename_ast(c, ren) if isinstance(c, (tuple, list)) else c for c in n[1:]])


def idents(n, acc):
    if isinstance(n, list):
        for x in n:
            idents(x, acc)
    elif isinstance(n, tuple):
        if n[0] in ("var", "mem", "mcall"):
            acc.add(n[1])
        elif n[0] == "idx":
            acc.add(n[1].split("->", 1)[0])
        elif n[0] == "decl":
            acc.add(n[3])
        for c in n[1:]:
            idents(c, acc)
    return acc


def canonical(items, params, local_names):
    """the names of parameters and locals do not matter: they are renamed to the names the proof templates use - parameters by
    position, locals by order of declaration (then the loop counters declared by their `for`).  Returns (items, names of the
    parameters to use); nothing is renamed when the number of locals differs or a new name would capture another identifier"""
    decls = [d[3] for d in flat_decls(items, [])]
    actual = decls + sorted(for_counters(items, set()) - set(decls))
    ren = {a: c for a, c in params}
    if len(actual) == len(local_names):
        ren.update(zip(actual, local_names))
    ren = {a: c for a, c in ren.items() if a != c}
    others = idents(items, set()) - set(ren)
    if len(set(ren.values())) != len(ren) or set(ren.values()) & others or set(ren) & {"this"}:
        return items, [a for a, _ in params]
    return rename_ast(items, ren), [c for _, c in params]


FALLBACK = {"reset": (f"(p : {SHA}) : {SHA}", "Nstd.Sha.reset p"),
            "WriteByteBlock": (f"(p : {SHA}) : {SHA}", "Nstd.Sha.writeByteBlock p"),
            "update": (f"(p : {SHA}) (data : List UInt8) : {SHA}", "Nstd.Sha.update p data"),
            "finalize": (f"(p : {SHA}) : List UInt8 × {SHA}", "Nstd.Sha.finalize p"),
            "hash": ("(data : List UInt8) : List UInt8", "Nstd.Sha.hash data"),
            "hmac": ("(hashKey0 oKeyPad0 iKeyPad0 hash0 key message : List UInt8) : List UInt8 × Bool", "Nstd.Sha.hmac key message")}
BODIES = ("reset", "WriteByteBlock", "update", "finalize", "hash", "hmac")
PROOFS = VERIF / "lean" / "Nstd" / "Sha" / "body_proofs"
FALLBACK_PROOF = {"reset": "theorem gen_reset_eq (p : Sha) (hs : p.state.length = 8) : Sha256Body.reset p = reset p := rfl\n",
                  "WriteByteBlock": "theorem WriteByteBlock_eq (p : Sha) : Sha256Body.WriteByteBlock p = writeByteBlock p := rfl\n",
                  "update": "theorem gen_update_eq (p : Sha) (data : List UInt8) : Sha256Body.update p data = update p data := rfl\n",
                  "finalize": "theorem gen_finalize_eq (p : Sha) : Sha256Body.finalize p = finalize p := rfl\n",
                  "hash": "theorem gen_hash_eq (data : List UInt8) : Sha256Body.hash data = hash data := rfl\n",
                  "hmac": ("theorem gen_hmac_spec (hashKey0 oKeyPad0 iKeyPad0 hash0 key msg : List UInt8) (h1 : hashKey0.length = 64) (h2 : oKeyPad0.length = 64)\n"
                           "    (h3 : iKeyPad0.length = 64) (h4 : hash0.length = 32) (hk : key.length < 2 ^ 61) (hm : msg.length + 64 < 2 ^ 61) :\n"
                           "    Sha256Body.hmac hashKey0 oKeyPad0 iKeyPad0 hash0 key msg = (Spec.hmacSha256 key msg, true) := hmac_eq key msg hk hm\n")}


def body_functions(raw, hdr):
    """(Lean text of WriteByteBlock, update, finalize translated from the directives-only view of the sources,
    {function: None | reason why its body was NOT translated}).  A body outside the translated C subset is not an
    error: that function falls back to the hand-written model function (its tie to the sources is then the
    correspondence run alone, as for `hash`/`hmac`/`reset`), and the fallback is reported in the evidence."""
    out, status = [], {}
    # class layout the model's `Sha` mirrors
    m = re.search(r"private:\s*uint32\s+state\s*\[\s*8\s*\]\s*;\s*uint64\s+count\s*;\s*byte\s+buffer\s*\[\s*(64|blockSize)\s*\]\s*;", raw)
    if not m or (m.group(1) == "blockSize" and hdr["blockSize"] != 64):
        raise Untranslatable("class Sha256: data members are not `uint32 state[8]; uint64 count; byte buffer[64];`")
    squeeze = lambda t: re.sub(r"\s+", " ", t).strip()
    # `Sha256 x;` is translated as `init` = `reset` on fresh storage: that is what the constructor must be
    ctor = re.search(r"\bSha256\s*\(\s*\)\s*\{\s*reset\s*\(\s*\)\s*;\s*\}", raw) is not None

    def one(name, fn):
        try:
            out.append(fn())
            status[name] = None
        except Untranslatable as ex:
            sig, rhs = FALLBACK[name]
            status[name] = str(ex)
            out.append(f"/-- NOT TRANSLATED this run ({str(ex).replace('-/', '- /')}): falls back to the hand-written model function -/\n"
                       f"def {name} {sig} := {rhs}\n\n")

    def wbb():
        params, body = function_text(raw, r"static\s+void\s+WriteByteBlock\s*\(([^)]*)\)\s*\{", "Sha256::Private::WriteByteBlock")
        mp = re.match(r"\s*Sha256\s*\*\s*(\w+)\s*$", params)
        if not mp:
            raise Untranslatable(f"WriteByteBlock: parameter list `{params}`")
        items, (pn,) = canonical(parse_function(body), [(mp.group(1), "p")], ["data32", "i"])
        g = BodyGen("WriteByteBlock", items, pn)
        return g.run(f"/-- `Sha256::Private::WriteByteBlock({squeeze(params)})`: `{squeeze(body)}` -/\n", "{st}.p", f"(p : {SHA}) : {SHA}")

    def upd():
        params, body = function_text(raw, r"void\s+Sha256::update\s*\(([^)]*)\)\s*\{", "Sha256::update")
        mp = re.match(r"\s*const\s+Byte\s*\*\s*(\w+)\s*,\s*usize\s+(\w+)\s*$", params)
        if not mp:
            raise Untranslatable(f"update: parameter list `{params}`")
        items, (dn, sn) = canonical(parse_function(body), [(mp.group(1), "data"), (mp.group(2), "size")], ["p", "curBufferPos"])
        g = BodyGen("update", items, None, in_stream=(dn, sn))
        return g.run(f"/-- `Sha256::update({squeeze(params)})`: `{squeeze(body)}`; the byte range is the list `{dn}` -/\n", "{st}.p",
                     f"(p : {SHA}) ({dn} : List UInt8) : {SHA}")

    def fin():
        params, body = function_text(raw, r"void\s+Sha256::finalize\s*\(([^{]*)\)\s*\{", "Sha256::finalize")
        mp = re.match(r"\s*byte\s*\(\s*&\s*(\w+)\s*\)\s*\[\s*digestSize\s*\]\s*$", params)
        if not mp:
            raise Untranslatable(f"finalize: parameter list `{params}`")
        items, (rn,) = canonical(parse_function(body), [(mp.group(1), "digestBuf")], ["p", "lenInBits", "curBufferPos", "i", "digest"])
        g = BodyGen("finalize", items, None, out_ref=rn)
        if g.out_ptr is None:
            raise Untranslatable("finalize: no output pointer initialised from the digest parameter")
        return g.run(f"/-- `Sha256::finalize({squeeze(params)})`: `{squeeze(body)}`; result: the bytes written through the output pointer, and the object -/\n",
                     "({st}.out, {st}.p)", f"(p : {SHA}) : List UInt8 × {SHA}")

    def rst():
        params, body = function_text(raw, r"void\s+Sha256::reset\s*\(([^)]*)\)\s*\{", "Sha256::reset")
        if params.strip():
            raise Untranslatable(f"reset: parameter list `{params}`")
        items, _ = canonical(parse_function(body), [], ["p"])
        g = BodyGen("reset", items, None)
        return g.run(f"/-- `Sha256::reset()`: `{squeeze(body)}` -/\n", "{st}.p", f"(p : {SHA}) : {SHA}")

    def hsh():
        params, body = function_text(raw, r"static\s+void\s+hash\s*\(([^{]*)\)\s*\{", "Sha256::hash")
        mp = re.match(r"\s*const\s+byte\s*\*\s*(\w+)\s*,\s*usize\s+(\w+)\s*,\s*byte\s*\(\s*&\s*(\w+)\s*\)\s*\[\s*digestSize\s*\]\s*$", params)
        if not mp:
            raise Untranslatable(f"hash: parameter list `{params}`")
        items, (dn, sn, rn) = canonical(parse_function(body), [(mp.group(1), "data"), (mp.group(2), "size"), (mp.group(3), "result")], ["sha256"])
        g = BodyGen("hash", items, None, in_stream=(dn, sn), out_ref=rn)
        if not g.local_obj:
            raise Untranslatable("hash: no local `Sha256` object")
        if not ctor:
            raise Untranslatable("hash: the constructor is not `Sha256() {reset();}` (a local object is translated as `init`)")
        return g.run(f"/-- `Sha256::hash({squeeze(params)})`: `{squeeze(body)}`; the local object is constructed by `Sha256()` = `init` -/\n",
                     "{st}.out", f"({dn} : List UInt8) : List UInt8")

    def hm():
        params, body = function_text(raw, r"static\s+void\s+hmac\s*\(([^{]*)\)\s*\{", "Sha256::hmac")
        mp = re.match(r"\s*const\s+byte\s*\*\s*(\w+)\s*,\s*usize\s+(\w+)\s*,\s*const\s+byte\s*\*\s*(\w+)\s*,\s*usize\s+(\w+)\s*,"
                      r"\s*byte\s*\(\s*&\s*(\w+)\s*\)\s*\[\s*digestSize\s*\]\s*$", params)
        if not mp:
            raise Untranslatable(f"hmac: parameter list `{params}`")
        consts = {"blockSize": hdr["blockSize"], "digestSize": hdr["digestSize"]}
        items, (key, ksz, msg, msz, res) = canonical(parse_function(body, consts), list(zip(mp.groups(), ("key", "keySize", "message", "messageSize", "result"))),
                                                     ["sha256", "hashKey", "oKeyPad", "iKeyPad", "hash", "i"])
        g = BodyGen("hmac", items, None, out_ref=res, streams={key: ksz, msg: msz}, consts=consts,
                    uninit_params=True, segmented=True)
        if not g.local_obj:
            raise Untranslatable("hmac: no local `Sha256` object")
        if not ctor:
            raise Untranslatable("hmac: the constructor is not `Sha256() {reset();}` (a local object is translated as `init`)")
        want = {"hashKey": ("UInt8", hdr["blockSize"]), "oKeyPad": ("UInt8", hdr["blockSize"]), "iKeyPad": ("UInt8", hdr["blockSize"]),
                "hash": ("UInt8", hdr["digestSize"])}
        if g.arrays != want or g.scalars or (key, msg) != ("key", "message"):
            # the signature of the Lean function (one parameter per uninitialised local array) is fixed by the proof
            raise Untranslatable(f"hmac: local arrays {g.arrays} / scalars {g.scalars} / parameters {key}, {msg}; expected {want}, none, key, message")
        return g.run(f"/-- `Sha256::hmac({squeeze(params)})`: `{squeeze(body)}`.\nThe local object is constructed by `Sha256()` = `init`; the local byte arrays are "
                     f"uninitialised in C++: their initial contents are the parameters `hashKey0 oKeyPad0 iKeyPad0 hash0`; `Memory::zero`/`Memory::copy` are "
                     f"`zeroAt`/`storeAt` (checked block writes); result: the bytes written through `{res}` and the ghost flag (no array read / block read out of range, no `usize` subtraction wrapped) -/\n",
                     "({st}.out, {st}.p.ok)", f"(hashKey0 oKeyPad0 iKeyPad0 hash0 : List UInt8) ({key} {msg} : List UInt8) : List UInt8 × Bool",
                     seg_sig=f" ({key} {msg} : List UInt8)", seg_args=f" {key} {msg}")

    one("reset", rst)
    one("WriteByteBlock", wbb)
    one("update", upd)
    one("finalize", fin)
    one("hash", hsh)
    one("hmac", hm)
    return "".join(out), status


def body_proofs(ns, status):
    """the proof file for the translated bodies: per function the proof template of lean/Nstd/Sha/body_proofs (Lean checks
    it against what was generated), or `rfl` for a function that fell back to the model function"""
    t = ("-- GENERATED by tools/gen_sha.py: proofs that the translated bodies (Sha256Body.lean) are the model functions;\n"
         "-- assembled from lean/Nstd/Sha/body_proofs/*.lean.in.  Do not edit.\n"
         f"import Nstd.Generated.{ns}Body\nimport Nstd.Sha.LemmasBodyAux\n"
         "namespace Nstd.Sha\nopen Nstd.Generated Nstd.Generated.Sha256\nset_option linter.unusedSimpArgs false\n\n"
         "theorem transform_call_eq (state data : List UInt32) : Sha256.Transform_call state data = transform state data := rfl\n\n")
    for name in BODIES:
        if status[name] is None:
            t += (PROOFS / f"{name}.lean.in").read_text() + "\n"
        else:
            t += f"/-- `{name}` was not translated this run: {status[name].replace('-/', '- /')} -/\n" + FALLBACK_PROOF[name] + "\n"
    t += ("/-- which bodies were translated this run (`true`) and which fell back to the model function -/\n"
          "def translatedBodies : List (String × Bool) := [" +
          ", ".join(f'("{n}", {"true" if status[n] is None else "false"})' for n in BODIES) + "]\n\n")
    return t + "end Nstd.Sha\n"


# ---- extraction ----------------------------------------------------------------------------------
PURE = ["rotrFixed", "S0", "S1", "s0", "s1", "Ch", "Maj"]


STRIP = re.compile(r"^[ \t]*#[ \t]*define[ \t]+_SHA256_UNROLL2?\b[^\n]*$", re.M)


def preprocess(repo, defines=(), directives_only=False, as_is=False):
    """the translation unit through the real preprocessor.  Unless `as_is`, the source is preprocessed from a scratch copy in
    which a `#define _SHA256_UNROLL[2]` of the file itself is blanked, so that the three build configurations (none,
    -D_SHA256_UNROLL, -D_SHA256_UNROLL2) can all be produced whichever of them the sources select themselves"""
    src = Path(repo) / "src" / "Crypto" / "Sha256.cpp"
    if not src.exists():
        raise Untranslatable(f"{src} does not exist")
    cmd = [os.environ.get("CXX", "g++"), "-E", "-dD"] + (["-fdirectives-only"] if directives_only else []) + \
          [f"-D{d}" for d in defines] + [f"-I{repo}/include", "-x", "c++", "-"]
    text = src.read_text(errors="replace")
    if not as_is:
        text = STRIP.sub("", text)
    p = subprocess.run(cmd, input=text, stdout=subprocess.PIPE, stderr=subprocess.PIPE, text=True)
    if p.returncode != 0:
        raise Untranslatable("preprocessor failed: " + p.stderr[-300:])
    return p.stdout


def as_is_config(repo):
    """which configuration the unmodified sources select: rolled | unroll | u2 (the names of the harness op `variant`)"""
    defs = macro_table(preprocess(repo, as_is=True))
    return "u2" if UNROLL2 in defs else ("unroll" if UNROLL1 in defs else "rolled")


def macro_table(pp):
    defs = {}
    for line in pp.splitlines():
        m = re.match(r"#define\s+([A-Za-z_]\w*)(\(([^)]*)\))?\s*(.*)$", line)
        if m:
            params = [x.strip() for x in m.group(3).split(",")] if m.group(2) else None
            if params == [""]:
                params = []
            defs[m.group(1)] = (params, m.group(4).strip())
        m = re.match(r"#undef\s+(\w+)", line)
        if m:
            defs.pop(m.group(1), None)
    return defs


def generate(repo, defines=(), ns="Sha256", suffix="", want_body=False):
    pp = preprocess(repo, defines)
    defs = macro_table(pp)
    code = "\n".join(l for l in pp.splitlines() if not l.startswith("#"))
    # the same translation unit with conditionals resolved and macro calls left in place; continuation lines of
    # #define directives are dropped with their directive
    raw = preprocess(repo, defines, directives_only=True)
    raw = re.sub(r"^[ \t]*#[^\n]*(\\\n[^\n]*)*", "", strip_comments(raw), flags=re.M)
    unroll2 = UNROLL2 in defs
    for mac in (UNROLL2, UNROLL1):
        if (mac in defs) != (mac in defines):
            raise Untranslatable(f"{mac} is defined by the sources themselves: the rolled configuration the model is proved against does not exist any more")
    m = re.search(r"Sha256::Private::K\s*\[\s*64\s*\]\s*=\s*\{(.*?)\}\s*;", code, re.S)
    if not m:
        raise Untranslatable("table Sha256::Private::K[64] not found")
    K = [int(x, 0) for x in re.findall(r"0[xX][0-9a-fA-F]+|\b\d+\b", m.group(1))]
    if len(K) != 64:
        raise Untranslatable(f"K has {len(K)} entries, expected 64")
    m = re.search(r"void\s+Sha256::reset\s*\(\s*\)\s*\{(.*?)\n\}", code, re.S)
    if not m:
        raise Untranslatable("Sha256::reset() not found")
    rbody = m.group(1)
    init = re.findall(r"(?:\w+\s*->\s*)?\bstate\s*\[\s*(\d+)\s*\]\s*=\s*(0[xX][0-9a-fA-F]+|\d+)\s*;", rbody)
    if [int(i) for i, _ in init] == list(range(8)):
        H0 = [int(v, 0) for _, v in init]
    else:
        # `for (i = 0; i < 8; i++) state[i] = TABLE[i];` with `const UInt32 …TABLE[8] = { eight literals };`
        mt = re.search(r"for\s*\(\s*(?:\w+\s+)?(\w+)\s*=\s*0\s*;\s*\1\s*<\s*8\s*;\s*(?:\1\s*\+\+|\+\+\s*\1)\s*\)\s*\{?\s*(?:\w+\s*->\s*)?state\s*\[\s*\1\s*\]\s*=\s*"
                       r"(?:\w+\s*::\s*)*(\w+)\s*\[\s*\1\s*\]\s*;", rbody)
        tab = re.search(r"const\s+\w+\s+(?:\w+\s*::\s*)*" + re.escape(mt.group(2)) + r"\s*\[\s*8\s*\]\s*=\s*\{(.*?)\}\s*;", code, re.S) if mt else None
        vals = re.findall(r"0[xX][0-9a-fA-F]+|\b\d+\b", tab.group(1)) if tab else []
        if len(vals) != 8:
            raise Untranslatable(f"reset(): neither assignments of literals to state[0..7] in order (found indices {[i for i, _ in init]}) nor a copy loop from a constant table of eight words")
        H0 = [int(v, 0) for v in vals]
    mc = re.search(r"(?:\w+\s*->\s*)?\bcount\s*=\s*(\d+)\s*;", rbody)
    if not mc:
        raise Untranslatable("reset(): assignment to count not found")
    count0 = int(mc.group(1))

    # constants of Sha256.hpp (the header is part of the preprocessed translation unit)
    hdr = {}
    for key, rx in (("blockSize", r"static\s+const\s+usize\s+blockSize\s*=\s*(\d+)\s*;"),
                    ("digestSize", r"static\s+const\s+usize\s+digestSize\s*=\s*(\d+)\s*;"),
                    ("hmacOpad", r"oKeyPad\s*\[\s*i\s*\]\s*=\s*hashKey\s*\[\s*i\s*\]\s*\^\s*(0[xX][0-9a-fA-F]+|\d+)\s*;"),
                    ("hmacIpad", r"iKeyPad\s*\[\s*i\s*\]\s*=\s*hashKey\s*\[\s*i\s*\]\s*\^\s*(0[xX][0-9a-fA-F]+|\d+)\s*;")):
        mm = re.findall(rx, code)
        if len(mm) != 1 and key in ("hmacOpad", "hmacIpad"):
            # renamed locals / named constants: the two statements `A[i] = K[i] ^ c;` of the pad loop (c a literal or a
            # `const byte c = literal;`); the pad whose array is handed to `update` first is the inner one
            pads = re.findall(r"\b(\w+)\s*\[\s*(\w+)\s*\]\s*=\s*(\w+)\s*\[\s*\2\s*\]\s*\^\s*(0[xX][0-9a-fA-F]+|\d+|[A-Za-z_]\w*)\s*;", code)
            if len(pads) == 2 and pads[0][2] == pads[1][2] and pads[0][0] != pads[1][0]:
                def val(t):
                    if re.match(r"\d", t):
                        return t
                    d = re.findall(r"\bconst\s+\w+\s+" + re.escape(t) + r"\s*=\s*(0[xX][0-9a-fA-F]+|\d+)\s*;", code)
                    return d[0] if len(d) == 1 else None
                first = {a: mu.start() for a in (pads[0][0], pads[1][0])
                         for mu in [re.search(r"\.\s*update\s*\(\s*" + re.escape(a) + r"\s*,", code)] if mu}
                if len(first) == 2:
                    inner = min(first, key=first.get)
                    v = val([pd for pd in pads if (pd[0] == inner) == (key == "hmacIpad")][0][3])
                    mm = [v] if v is not None else []
        if len(mm) != 1:
            raise Untranslatable(f"Sha256.hpp: constant {key} not found (or found {len(mm)} times)")
        hdr[key] = int(mm[0], 0)
    if hdr["hmacOpad"] > 255 or hdr["hmacIpad"] > 255:
        raise Untranslatable("HMAC pad constants do not fit a byte")

    M = Macros(defs)
    for name in PURE:
        if name not in defs:
            raise Untranslatable(f"macro {name} not found")
        if M.classify(name) != "pure":
            raise Untranslatable(f"macro {name} is expected to be side-effect free and array free")
    arrays, ptr, immut, roots, fdefs = transform_function(M, raw)
    want = {"W": 16, "T": 8} if not unroll2 else {"W": 16}
    if arrays != want or ptr != ["state"] or immut != ["data"]:
        raise Untranslatable(f"Transform: local arrays {arrays}, pointers {ptr}/{immut}; expected {want}, state, data")
    if unroll2 and M.scalars != list("abcdefgh"):
        raise Untranslatable(f"Transform ({UNROLL2}): local scalars {M.scalars}, expected a..h")
    if not unroll2 and M.scalars:
        raise Untranslatable(f"Transform: unexpected local scalars {M.scalars}")
    procs = macro_closure(M, roots, "proc")
    for need in ("blk0", "blk2", "R"):
        if need not in procs:
            raise Untranslatable(f"Transform does not use the statement macro {need}")
    if not unroll2:
        for name in "abcdefgh":
            if name not in defs or M.classify(name) != "reader":
                raise Untranslatable(f"register macro {name}(i) not found / not an array element")
    pures = macro_closure(M, PURE + roots, "pure")

    hx = lambda v: f"0x{v:08x}"
    cfg = "the sources as they are" if not defines else "the sources compiled with " + " ".join("-D" + d for d in defines)
    out = [f"-- GENERATED by tools/gen_sha.py from src/Crypto/Sha256.cpp (g++ -E -dD [-fdirectives-only]), configuration: {cfg}.  Do not edit.\n",
           f"set_option linter.unusedVariables false\nnamespace Nstd.Generated.{ns}\n\n",
           "/-- `Sha256::Private::K[64]` -/\n",
           "def K : List UInt32 := [\n  " + ",\n  ".join(", ".join(hx(v) for v in K[i:i + 8]) for i in range(0, 64, 8)) + "]\n\n",
           "/-- the state written by `Sha256::reset()` -/\n",
           "def H0 : List UInt32 := [" + ", ".join(hx(v) for v in H0) + "]\n\n",
           f"/-- the count written by `Sha256::reset()` -/\ndef count0 : UInt64 := {count0}\n\n",
           f"/-- `Sha256::blockSize`, `Sha256::digestSize` (Sha256.hpp) -/\ndef blockSize : Nat := {hdr['blockSize']}\ndef digestSize : Nat := {hdr['digestSize']}\n\n",
           f"/-- `oKeyPad[i] = hashKey[i] ^ …`, `iKeyPad[i] = hashKey[i] ^ …` in `Sha256::hmac` -/\n"
           f"def hmacOpad : UInt8 := 0x{hdr['hmacOpad']:02x}\ndef hmacIpad : UInt8 := 0x{hdr['hmacIpad']:02x}\n\n"]
    for name in pures:
        out.append(f"/-- `#define {name}({','.join(defs[name][0])}) {defs[name][1]}` -/\n")
        out.append(pure_def(M, name) + "\n")
    out.append("/-- unfolds every translated side-effect-free macro (used by the bit-level proofs, which must not\n"
               "depend on which helper macros the source uses) -/\n"
               f"macro \"sha_macro_unfold{suffix}\" : tactic =>\n  `(tactic| simp only [" +
               ", ".join(f"Nstd.Generated.{ns}.{n}" for n in pures) + "])\n\n")
    out.append("/-- checked array write: an out-of-range index destroys the array, so that no theorem about the\n"
               "results can hold by accident of a silently dropped write -/\n"
               "def wr {α : Type} (a : List α) (i : Nat) (v : α) : List α := if i < a.length then a.set i v else []\n\n"
               "/-- `i` is a valid index of `a`; every array read of the translated code is recorded with it in the\n"
               "`ok` flag of the state (`ok` = no array read so far was out of range) -/\n"
               "def inb {α : Type} (a : List α) (i : Nat) : Bool := decide (i < a.length)\n\n")
    out.append("/-- the variables `Transform` assigns: its local arrays " + ", ".join(f"`{a}[{n}]`" for a, n in sorted(arrays.items())) +
               ", the array behind its non-const pointer parameter `state`" +
               (", its local scalars " + " ".join(M.scalars) if M.scalars else "") + "; `ok` = no array read so far was out of range -/\n"
               "structure RS where\n" +
               "".join(f"  {a} : List UInt32\n" for a in M.arrays) + "".join(f"  {a} : UInt32\n" for a in M.scalars) + "  ok : Bool\n\n")
    for name in procs:
        doc = (f"/-- `#define {name}({','.join(defs[name][0])}) {defs[name][1]}`" +
               ("  (register macros: " + "; ".join(f"{r}(i) = {defs[r][1]}" for r in "abcdefgh") + ")" if name == "R" and not unroll2 else "") + " -/\n")
        out.append(proc_def(M, name, doc) + "\n")
    out += fdefs
    out.append("/-- a call `Transform(s, d)` from another function: the callee's uninitialised locals start as zeros; yields the array\n"
               "behind `state` afterwards and the callee's `ok` flag -/\n"
               "def Transform_call (state data : List UInt32) : List UInt32 × Bool :=\n"
               "  let s := Transform data { " + ", ".join([f"{a} := List.replicate {n} 0" for a, n in sorted(arrays.items())] + ["state := state"] +
                                                       [f"{v} := 0" for v in M.scalars] + ["ok := true"]) + " }\n  (s.state, s.ok)\n\n")
    out.append(f"end Nstd.Generated.{ns}\n")
    if want_body:
        body = ("-- GENERATED by tools/gen_sha.py from src/Crypto/Sha256.cpp (g++ -E -dD -fdirectives-only): the bodies of\n"
                "-- Sha256::reset, Sha256::Private::WriteByteBlock, Sha256::update, Sha256::finalize and (Sha256.hpp) Sha256::hash, Sha256::hmac.  Do not edit.\n"
                "import Nstd.Sha.Model\nset_option linter.unusedVariables false\n"
                f"namespace Nstd.Generated.{ns}Body\nopen Nstd.Generated.{ns} (Transform_call)\n\n")
        btext, status = body_functions(raw, hdr)
        body += btext + f"end Nstd.Generated.{ns}Body\n"
        return "".join(out), body, body_proofs(ns, status), status
    return "".join(out)


def diff_only(text, base, ns, base_ns):
    """a further build configuration as a delta of the base configuration: every definition whose generated text is
    identical to the base file's is dropped and taken from there (`open`), only what differs is kept"""
    def blocks(t):
        body = t.split("\n", 3)[3] if t.startswith("--") else t
        return [b for b in re.split(r"\n\n+", body) if b.strip()]

    have = set(blocks(base))
    all_blocks = [b for b in blocks(text) if not b.startswith("end ") and "macro \"sha_macro_unfold" not in b]
    name_of = lambda b: (re.search(r"^(?:def|structure)\s+(\w+)", b, re.M) or [None, None])[1]
    keep = [b for b in all_blocks if b not in have]
    # a definition that is the same text but mentions a definition that differs is a different function: keep it too
    changed = True
    while changed:
        changed = False
        names = {name_of(b) for b in keep} - {None}
        for b in all_blocks:
            code = re.sub(r"/--.*?-/", "", b, flags=re.S).split(":=", 1)[-1]
            if b not in keep and any(re.search(rf"\b{re.escape(n)}\b", code) for n in names):
                keep.append(b)
                changed = True
    keep = [b for b in all_blocks if b in keep]
    return (text.split("\n", 1)[0] + "\n-- Only what differs from Sha256Tables.lean is defined here; everything else is that file's.\n"
            f"import Nstd.Generated.Sha256Tables\nset_option linter.unusedVariables false\nnamespace Nstd.Generated.{ns}\nopen Nstd.Generated.{base_ns}\n\n" +
            "\n\n".join(keep) + f"\n\nend Nstd.Generated.{ns}\n")


def write_if_changed(path, text):
    path.parent.mkdir(parents=True, exist_ok=True)
    if not path.exists() or path.read_text() != text:
        path.write_text(text)


def run(repo=None):
    """returns (ok, message); writes the generated files only when their content changed"""
    if repo is None:
        import common
        repo = common.REPO
    try:
        text, body, proofs, status = generate(repo, want_body=True)
        text2 = generate(repo, defines=(UNROLL2,), ns="Sha256U2", suffix="_u2")
        text1 = diff_only(generate(repo, defines=(UNROLL1,), ns="Sha256U1", suffix="_u1"), text, "Sha256U1", "Sha256")
    except Untranslatable as ex:
        return False, f"gen_sha: {ex}"
    write_if_changed(OUT, text)
    write_if_changed(OUT_U2, text2)
    write_if_changed(OUT_U1, text1)
    write_if_changed(OUT_BODY, body)
    write_if_changed(OUT_PROOFS, proofs)
    global LAST_STATUS
    LAST_STATUS = dict(status)
    try:
        LAST_STATUS["config"] = as_is_config(repo)
    except Untranslatable as ex:
        return False, f"gen_sha: {ex}"
    fb = "; ".join(f"{n} NOT translated ({r})" for n, r in status.items() if r is not None)
    if LAST_STATUS["config"] != "rolled":
        fb = (fb + "; " if fb else "") + f"the sources select the configuration '{LAST_STATUS['config']}' themselves"
    return True, hashlib.sha1((text + text2 + text1 + body + proofs).encode()).hexdigest()[:12] + ("  [" + fb + "]" if fb else "")


def gen(ctx):
    ok, msg = run()
    if ok:
        ctx.notes.append(f"translator: Nstd/Generated/Sha256Tables.lean, Sha256U2.lean, Sha256Body.lean, Sha256BodyProofs.lean regenerated from the current sources (sha1 {msg})")
        ctx.cov["translated_bodies"] = {"Transform": "translated (it is the model)", "Transform -D_SHA256_UNROLL2": "translated",
                                        "Transform -D_SHA256_UNROLL": "translated", "configuration selected by the sources": LAST_STATUS.get("config"),
                                        **{n: (("translated, proved = RFC 2104 (and = the model) for every initial content of its local arrays" if n == "hmac" else "translated, proved equal to the model")
                                               if r is None else f"fallback: NOT translated this run, the hand-written model function is used instead and the differential run carries the tie ({r})")
                                           for n, r in LAST_STATUS.items() if n != "config"}}
    return ok, msg


if __name__ == "__main__":
    sys.path.insert(0, str(VERIF / "tools"))
    ok, msg = run(sys.argv[1] if len(sys.argv) > 1 else None)
    print(("ok " if ok else "FAILED ") + msg)
    sys.exit(0 if ok else 1)
