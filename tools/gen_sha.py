#!/usr/bin/env python3
"""Translator of the Sha area (property C17).

Regenerates `lean/Nstd/Generated/Sha256Tables.lean` from the CURRENT sources of the repo
(`src/Crypto/Sha256.cpp`): the round constants `K`, the initial state written by `reset()`, and
the side-effect-free macros (`rotrFixed S0 S1 s0 s1 Ch Maj`) as Lean `UInt32` functions, the
statement macros (`blk0 blk2 R`, with the register macros `a..h` expanded exactly like the
preprocessor does) as Lean state transformers over the arrays they assign (`T`, `W`).

The active macro definitions are taken from `g++ -E -dD`, so conditional compilation is resolved by
the real preprocessor.  A small C-expression translator linearises the bodies.  Anything it cannot
find or cannot translate faithfully (unknown operator, unsequenced side effects, the unrolled
variants of the code) is reported as a broken tie: `(False, message)`.
"""
import hashlib
import os
import re
import subprocess
import sys
from pathlib import Path

VERIF = Path(__file__).resolve().parents[1]
OUT = VERIF / "lean" / "Nstd" / "Generated" / "Sha256Tables.lean"


class Untranslatable(Exception):
    pass


# ---- C expression parser -------------------------------------------------------------------------
TOK = re.compile(r"\s*(0[xX][0-9a-fA-F]+|\d+|[A-Za-z_]\w*|\+=|>>|<<|[-+&|^~?:=()\[\],;])")


def tokenize(s):
    toks, pos = [], 0
    s = s.strip()
    while pos < len(s):
        m = TOK.match(s, pos)
        if not m:
            raise Untranslatable(f"cannot tokenize {s[pos:pos + 20]!r}")
        toks.append(m.group(1))
        pos = m.end()
    return toks


class Parser:
    def __init__(self, toks):
        self.t, self.p = toks, 0

    def peek(self):
        return self.t[self.p] if self.p < len(self.t) else None

    def eat(self, x=None):
        if self.p >= len(self.t):
            raise Untranslatable("unexpected end of macro body")
        t = self.t[self.p]
        if x is not None and t != x:
            raise Untranslatable(f"expected {x!r}, found {t!r}")
        self.p += 1
        return t

    def stmts(self):
        out = [self.assign()]
        while self.peek() == ";":
            self.eat()
            if self.peek() is None:
                break
            out.append(self.assign())
        if self.peek() is not None:
            raise Untranslatable(f"trailing token {self.peek()!r}")
        return out

    def assign(self):
        l = self.cond()
        if self.peek() in ("=", "+="):
            op = self.eat()
            r = self.assign()
            return ("asg", op, l, r)
        return l

    def cond(self):
        c = self.bor()
        if self.peek() == "?":
            self.eat()
            a = self.assign()
            self.eat(":")
            b = self.cond()
            return ("cond", c, a, b)
        return c

    def _left(self, sub, ops):
        l = sub()
        while self.peek() in ops:
            o = self.eat()
            l = ("bin", o, l, sub())
        return l

    def bor(self):
        return self._left(self.bxor, ("|",))

    def bxor(self):
        return self._left(self.band, ("^",))

    def band(self):
        return self._left(self.shift, ("&",))

    def shift(self):
        return self._left(self.add, (">>", "<<"))

    def add(self):
        return self._left(self.postfix, ("+", "-"))

    def postfix(self):
        t = self.eat()
        if t == "~":
            return ("not", self.postfix())
        if t == "(":
            r = self.assign()
            self.eat(")")
            return r
        if re.match(r"0[xX]|\d", t):
            return ("num", int(t, 0))
        if not re.match(r"[A-Za-z_]", t):
            raise Untranslatable(f"unexpected token {t!r}")
        if self.peek() == "(":
            self.eat()
            args = []
            if self.peek() != ")":
                args.append(self.assign())
                while self.peek() == ",":
                    self.eat()
                    args.append(self.assign())
            self.eat(")")
            return ("call", t, args)
        if self.peek() == "[":
            self.eat()
            e = self.assign()
            self.eat("]")
            return ("idx", t, e)
        return ("var", t)


def parse(body):
    return Parser(tokenize(body)).stmts()


# ---- analysis ------------------------------------------------------------------------------------
def subst(n, env):
    k = n[0]
    if k == "var":
        return env.get(n[1], n)
    if k == "num":
        return n
    if k == "not":
        return ("not", subst(n[1], env))
    if k == "idx":
        if n[1] in env:
            raise Untranslatable(f"macro parameter {n[1]} used as array")
        return ("idx", n[1], subst(n[2], env))
    if k == "call":
        return ("call", n[1], [subst(a, env) for a in n[2]])
    if k == "bin":
        return ("bin", n[1], subst(n[2], env), subst(n[3], env))
    if k == "cond":
        return ("cond", subst(n[1], env), subst(n[2], env), subst(n[3], env))
    if k == "asg":
        return ("asg", n[1], subst(n[2], env), subst(n[3], env))
    raise Untranslatable(str(n))


class Macros:
    def __init__(self, defs):
        self.defs = defs            # name -> (params, body text)
        self.ast = {}
        self.kind = {}              # name -> pure | reader | proc

    def body(self, name):
        if name not in self.ast:
            if name not in self.defs:
                raise Untranslatable(f"macro {name} not found in the preprocessed source")
            self.ast[name] = parse(self.defs[name][1])
        return self.ast[name]

    def effects(self, n):
        """(arrays read, arrays written, scalars) of a node, looking through macro calls"""
        k = n[0]
        if k == "num":
            return set(), set(), set()
        if k == "var":
            return set(), set(), {n[1]}
        if k == "not":
            return self.effects(n[1])
        if k == "idx":
            r, w, s = self.effects(n[2])
            return r | {n[1]}, w, s
        if k == "call":
            r, w, s = set(), set(), set()
            for a in n[2]:
                x = self.effects(a)
                r, w, s = r | x[0], w | x[1], s | x[2]
            params = self.defs.get(n[1], (None,))[0]
            if params is None:
                raise Untranslatable(f"call of {n[1]} which is not a function-like macro")
            if len(params) != len(n[2]):
                raise Untranslatable(f"macro {n[1]} called with {len(n[2])} arguments, defined with {len(params)}")
            for st in self.body(n[1]):
                x = self.effects(st)
                r, w, s = r | x[0], w | x[1], s | (x[2] - set(params))
            return r, w, s
        if k in ("bin", "cond", "asg"):
            r, w, s = set(), set(), set()
            for c in n[2:] if k != "cond" else n[1:]:
                x = self.effects(c)
                r, w, s = r | x[0], w | x[1], s | x[2]
            if k == "asg":
                l = n[2]
                while l[0] == "call" and self.classify(l[1]) == "reader":
                    l = self.inline(l)
                if l[0] != "idx":
                    raise Untranslatable("assignment to something that is not an array element")
                w = w | {l[1]}
                if n[1] == "=":
                    pass
            return r, w, s
        raise Untranslatable(str(n))

    def classify(self, name):
        if name not in self.kind:
            r, w, s = set(), set(), set()
            for st in self.body(name):
                x = self.effects(st)
                r, w = r | x[0], w | x[1]
            self.kind[name] = "proc" if w else ("reader" if r else "pure")
        return self.kind[name]

    def inline(self, call):
        params = self.defs[call[1]][0]
        b = self.body(call[1])
        if len(b) != 1:
            raise Untranslatable(f"macro {call[1]} used as an expression has several statements")
        return subst(b[0], dict(zip(params, call[2])))


BINOP = {"+": "+", "-": "-", "&": "&&&", "|": "|||", "^": "^^^", ">>": ">>>", "<<": "<<<"}


class Emitter:
    """linearises statements into Lean `let` lines over a state record `RS`"""

    def __init__(self, M, mutable, counter=None, st="st0"):
        self.M, self.mutable = M, mutable
        self.lines = []
        self.counter = counter if counter is not None else [0]
        self.st = st
        self.reads = []          # array reads not yet accounted for in `ok`: (array term, index term)

    def flush(self):
        """fold the pending reads into the `ok` flag of the current state"""
        if self.reads:
            seen = []
            for r in self.reads:
                if r not in seen:
                    seen.append(r)
            new = self.fresh("st")
            cond = " && ".join([f"{self.st}.ok"] + [f"inb {a} {i}" for a, i in seen])
            self.lines.append(f"let {new} : RS := {{ {self.st} with ok := {cond} }}")
            self.st = new
            self.reads = []

    def fresh(self, p):
        self.counter[0] += 1
        return f"{p}{self.counter[0]}"

    def check_disjoint(self, parts, what):
        """C leaves the evaluation order of operands open: refuse when one operand writes an array
        another operand reads or writes"""
        eff = [self.M.effects(p) for p in parts]
        for i, a in enumerate(eff):
            for j, b in enumerate(eff):
                if i != j and a[1] & (b[0] | b[1]):
                    raise Untranslatable(f"unsequenced side effect on {sorted(a[1] & (b[0] | b[1]))} in {what}")

    def expr(self, n):
        k = n[0]
        if k == "num":
            return str(n[1])
        if k == "var":
            return n[1]
        if k == "not":
            return f"(~~~ {self.expr(n[1])})"
        if k == "idx":
            e = self.expr(n[2])
            base = f"{self.st}.{n[1]}" if n[1] in self.mutable else n[1]
            self.reads.append((base, f"({e}).toNat"))
            return f"({base}.getD ({e}).toNat 0)"
        if k == "bin":
            self.check_disjoint([n[2], n[3]], f"operands of {n[1]}")
            l = self.expr(n[2])
            r = self.expr(n[3])
            return f"({l} {BINOP[n[1]]} {r})"
        if k == "call":
            kind = self.M.classify(n[1])
            if kind == "reader":
                return self.expr(self.M.inline(n))
            for a in n[2]:
                if self.M.effects(a)[1]:
                    raise Untranslatable(f"argument of macro {n[1]} has side effects")
            args = [self.expr(a) for a in n[2]]
            if kind == "pure":
                return "(" + " ".join([n[1]] + args) + ")"
            r = self.fresh("r")
            frees = proc_frees(self.M, n[1], self.mutable)
            self.lines.append(f"let {r} := {n[1]} {' '.join(frees + args)} {self.st}".replace("  ", " "))
            self.st = self.fresh("st")
            self.lines.append(f"let {self.st} := {r}.1")
            return f"{r}.2"
        if k == "asg":
            l = n[2]
            while l[0] == "call" and self.M.classify(l[1]) == "reader":
                l = self.M.inline(l)
            if l[0] != "idx" or l[1] not in self.mutable:
                raise Untranslatable("assignment target is not an element of a local array")
            self.check_disjoint([l[2], n[3]], "assignment")
            if self.M.effects(n[3])[1] & {l[1]}:
                raise Untranslatable(f"right-hand side modifies the assigned array {l[1]}")
            rhs = self.expr(n[3])
            idx = self.expr(l[2])
            v = self.fresh("v")
            if n[1] == "+=":
                self.lines.append(f"let {v} := ({self.st}.{l[1]}.getD ({idx}).toNat 0) + {rhs}")
                self.reads.append((f"{self.st}.{l[1]}", f"({idx}).toNat"))
            else:
                self.lines.append(f"let {v} := {rhs}")
            self.flush()
            new = self.fresh("st")
            self.lines.append(f"let {new} : RS := {{ {self.st} with {l[1]} := wr {self.st}.{l[1]} ({idx}).toNat {v} }}")
            self.st = new
            return v
        if k == "cond":
            if self.M.effects(n[1])[1]:
                raise Untranslatable("condition with side effects")
            c = self.expr(n[1])
            ea, eb = self.M.effects(n[2]), self.M.effects(n[3])
            if not (ea[0] or ea[1] or eb[0] or eb[1]):
                return f"(if {c} ≠ 0 then {self.expr(n[2])} else {self.expr(n[3])})"
            blocks = []
            for br in (n[2], n[3]):
                e = Emitter(self.M, self.mutable, self.counter, self.st)
                val = e.expr(br)
                e.flush()
                blocks.append("(" + "; ".join(e.lines + [f"({e.st}, {val})"]) + ")")
            r = self.fresh("r")
            self.lines.append(f"let {r} : RS × UInt32 := if {c} ≠ 0 then {blocks[0]} else {blocks[1]}")
            self.st = self.fresh("st")
            self.lines.append(f"let {self.st} := {r}.1")
            return f"{r}.2"
        raise Untranslatable(str(n))


def proc_frees(M, name, mutable):
    """free identifiers of a statement macro: immutable arrays first, then scalars (sorted)"""
    params = M.defs[name][0]
    r, w, s = set(), set(), set()
    for st in M.body(name):
        x = M.effects(st)
        r, w, s = r | x[0], w | x[1], s | x[2]
    arrays = sorted((r | w) - set(mutable))
    scal = sorted(s - set(params))
    return arrays + scal


def pure_closure(M, roots):
    """the side-effect-free macros reachable from `roots`, callees first"""
    order = []

    def calls(n, acc):
        if n[0] == "call":
            acc.append(n[1])
            for a in n[2]:
                calls(a, acc)
        elif n[0] in ("bin", "asg"):
            calls(n[2], acc)
            calls(n[3], acc)
        elif n[0] == "cond":
            for c in n[1:]:
                calls(c, acc)
        elif n[0] == "not":
            calls(n[1], acc)
        elif n[0] == "idx":
            calls(n[2], acc)

    def visit(name, stack):
        if name in order:
            return
        if name in stack:
            raise Untranslatable(f"recursive macro {name}")
        if M.classify(name) != "pure":
            return
        acc = []
        for st in M.body(name):
            calls(st, acc)
        for c in acc:
            visit(c, stack + [name])
        order.append(name)

    for r in roots:
        visit(r, [])
    return order


def pure_def(M, name):
    params, _ = M.defs[name]
    b = M.body(name)
    if len(b) != 1:
        raise Untranslatable(f"macro {name} has several statements")
    e = Emitter(M, [])
    # macro arguments are parenthesised in the body: `(x)` parses to the variable itself
    t = e.expr(b[0])
    return f"def {name} ({' '.join(params)} : UInt32) : UInt32 :=\n  {t}\n"


def proc_def(M, name, mutable, returns_value):
    params, _ = M.defs[name]
    frees = proc_frees(M, name, mutable)
    arrays = [f for f in frees if f not in proc_scalars(M, name)]
    scal = [f for f in frees if f in proc_scalars(M, name)]
    e = Emitter(M, mutable)
    val = None
    for st in M.body(name):
        val = e.expr(st)
    e.flush()
    sig = f"def {name}"
    if arrays:
        sig += f" ({' '.join(arrays)} : List UInt32)"
    if scal:
        sig += f" ({' '.join(scal)} : UInt32)"
    if params:
        sig += f" ({' '.join(params)} : UInt32)"
    sig += " (st0 : RS) : " + ("RS × UInt32" if returns_value else "RS") + " :=\n"
    body = "".join(f"  {l}\n" for l in e.lines)
    body += f"  ({e.st}, {val})\n" if returns_value else f"  {e.st}\n"
    return sig + body


def proc_scalars(M, name):
    params = M.defs[name][0]
    s = set()
    for st in M.body(name):
        s |= M.effects(st)[2]
    return s - set(params)


# ---- extraction ----------------------------------------------------------------------------------
PURE = ["rotrFixed", "S0", "S1", "s0", "s1", "Ch", "Maj"]
PROCS = [("blk0", True), ("blk2", True), ("R", False)]


def preprocess(repo):
    src = Path(repo) / "src" / "Crypto" / "Sha256.cpp"
    if not src.exists():
        raise Untranslatable(f"{src} does not exist")
    p = subprocess.run([os.environ.get("CXX", "g++"), "-E", "-dD", f"-I{repo}/include", str(src)],
                       stdout=subprocess.PIPE, stderr=subprocess.PIPE, text=True)
    if p.returncode != 0:
        raise Untranslatable("preprocessor failed: " + p.stderr[-300:])
    return p.stdout


def macro_table(pp):
    defs, undef = {}, set()
    for line in pp.splitlines():
        m = re.match(r"#define\s+([A-Za-z_]\w*)(\(([^)]*)\))?\s*(.*)$", line)
        if m:
            params = [x.strip() for x in m.group(3).split(",")] if m.group(2) else None
            if params == [""]:
                params = []
            defs[m.group(1)] = (params, m.group(4).strip())
        m = re.match(r"#undef\s+(\w+)", line)
        if m:
            defs.pop(m.group(1), None)
    return defs


def generate(repo):
    pp = preprocess(repo)
    defs = macro_table(pp)
    code = "\n".join(l for l in pp.splitlines() if not l.startswith("#"))
    # _SHA256_UNROLL only unrolls the `i` loop over the same macro R(i); _SHA256_UNROLL2 replaces the
    # array T by eight scalar variables and R by a nine-parameter macro, which is not modelled
    if "_SHA256_UNROLL2" in defs:
        raise Untranslatable("_SHA256_UNROLL2 is defined: the scalar-register variant of Transform is not modelled")
    m = re.search(r"Sha256::Private::K\s*\[\s*64\s*\]\s*=\s*\{(.*?)\}\s*;", code, re.S)
    if not m:
        raise Untranslatable("table Sha256::Private::K[64] not found")
    K = [int(x, 0) for x in re.findall(r"0[xX][0-9a-fA-F]+|\b\d+\b", m.group(1))]
    if len(K) != 64:
        raise Untranslatable(f"K has {len(K)} entries, expected 64")
    m = re.search(r"void\s+Sha256::reset\s*\(\s*\)\s*\{(.*?)\n\}", code, re.S)
    if not m:
        raise Untranslatable("Sha256::reset() not found")
    init = re.findall(r"p\s*->\s*state\s*\[\s*(\d+)\s*\]\s*=\s*(0[xX][0-9a-fA-F]+|\d+)\s*;", m.group(1))
    if [int(i) for i, _ in init] != list(range(8)):
        raise Untranslatable(f"reset(): expected assignments to state[0..7] in order, found indices {[i for i, _ in init]}")
    H0 = [int(v, 0) for _, v in init]
    mc = re.search(r"p\s*->\s*count\s*=\s*(\d+)\s*;", m.group(1))
    if not mc:
        raise Untranslatable("reset(): assignment to count not found")
    count0 = int(mc.group(1))

    # constants of Sha256.hpp (the header is part of the preprocessed translation unit)
    hdr = {}
    for key, rx in (("blockSize", r"static\s+const\s+usize\s+blockSize\s*=\s*(\d+)\s*;"),
                    ("digestSize", r"static\s+const\s+usize\s+digestSize\s*=\s*(\d+)\s*;"),
                    ("hmacOpad", r"oKeyPad\s*\[\s*i\s*\]\s*=\s*hashKey\s*\[\s*i\s*\]\s*\^\s*(0[xX][0-9a-fA-F]+|\d+)\s*;"),
                    ("hmacIpad", r"iKeyPad\s*\[\s*i\s*\]\s*=\s*hashKey\s*\[\s*i\s*\]\s*\^\s*(0[xX][0-9a-fA-F]+|\d+)\s*;")):
        mm = re.findall(rx, code)
        if len(mm) != 1:
            raise Untranslatable(f"Sha256.hpp: constant {key} not found (or found {len(mm)} times)")
        hdr[key] = int(mm[0], 0)
    if hdr["hmacOpad"] > 255 or hdr["hmacIpad"] > 255:
        raise Untranslatable("HMAC pad constants do not fit a byte")

    M = Macros(defs)
    for name in PURE:
        if name not in defs:
            raise Untranslatable(f"macro {name} not found")
        if M.classify(name) != "pure":
            raise Untranslatable(f"macro {name} is expected to be side-effect free and array free")
    for name in "abcdefgh":
        if name not in defs or M.classify(name) != "reader":
            raise Untranslatable(f"register macro {name}(i) not found / not an array element")
    for name, _ in PROCS:
        if name not in defs:
            raise Untranslatable(f"macro {name} not found")
        if M.classify(name) != "proc":
            raise Untranslatable(f"macro {name} is expected to assign array elements")
    if len(defs["R"][0]) != 1:
        raise Untranslatable("R has an unexpected number of parameters")
    mutable = set()
    for st in M.body("R"):
        mutable |= M.effects(st)[1]
    mutable = sorted(mutable)
    if mutable != ["T", "W"]:
        raise Untranslatable(f"R assigns arrays {mutable}, expected T and W")

    hx = lambda v: f"0x{v:08x}"
    out = ["-- GENERATED by tools/gen_sha.py from src/Crypto/Sha256.cpp (g++ -E -dD).  Do not edit.\n",
                      "namespace Nstd.Generated.Sha256\n\n",
           "/-- `Sha256::Private::K[64]` -/\n",
           "def K : List UInt32 := [\n  " + ",\n  ".join(", ".join(hx(v) for v in K[i:i + 8]) for i in range(0, 64, 8)) + "]\n\n",
           "/-- the state written by `Sha256::reset()` -/\n",
           "def H0 : List UInt32 := [" + ", ".join(hx(v) for v in H0) + "]\n\n",
           f"/-- the count written by `Sha256::reset()` -/\ndef count0 : UInt64 := {count0}\n\n",
           f"/-- `Sha256::blockSize`, `Sha256::digestSize` (Sha256.hpp) -/\ndef blockSize : Nat := {hdr['blockSize']}\ndef digestSize : Nat := {hdr['digestSize']}\n\n",
           f"/-- `oKeyPad[i] = hashKey[i] ^ …`, `iKeyPad[i] = hashKey[i] ^ …` in `Sha256::hmac` -/\n"
           f"def hmacOpad : UInt8 := 0x{hdr['hmacOpad']:02x}\ndef hmacIpad : UInt8 := 0x{hdr['hmacIpad']:02x}\n\n"]
    for name in pure_closure(M, PURE):
        out.append(f"/-- `#define {name}({','.join(defs[name][0])}) {defs[name][1]}` -/\n")
        out.append(pure_def(M, name) + "\n")
    out.append("/-- unfolds every translated side-effect-free macro (used by the bit-level proofs, which must not\n"
               "depend on which helper macros the source uses) -/\n"
               "macro \"sha_macro_unfold\" : tactic =>\n  `(tactic| simp only [" +
               ", ".join(f"Nstd.Generated.Sha256.{n}" for n in pure_closure(M, PURE)) + "])\n\n")
    out.append("/-- checked array write: an out-of-range index destroys the array, so that no theorem about the\n"
               "results can hold by accident of a silently dropped write -/\n"
               "def wr {α : Type} (a : List α) (i : Nat) (v : α) : List α := if i < a.length then a.set i v else []\n\n"
               "/-- `i` is a valid index of `a`; every array read of the translated macros is recorded with it in the\n"
               "`ok` flag of the state (`ok` = no array read so far was out of range) -/\n"
               "def inb {α : Type} (a : List α) (i : Nat) : Bool := decide (i < a.length)\n\n")
    out.append("/-- the local arrays assigned by the statement macros -/\nstructure RS where\n" +
               "".join(f"  {a} : List UInt32\n" for a in mutable) + "  ok : Bool\n\n")
    for name, rv in PROCS:
        out.append(f"/-- `#define {name}({','.join(defs[name][0])}) {defs[name][1]}`" +
                   ("  (register macros: " + "; ".join(f"{r}(i) = {defs[r][1]}" for r in "abcdefgh") + ")" if name == "R" else "") + " -/\n")
        out.append(proc_def(M, name, mutable, rv) + "\n")
    out.append("end Nstd.Generated.Sha256\n")
    return "".join(out)


def run(repo=None):
    """returns (ok, message); writes the generated file only when its content changed"""
    if repo is None:
        import common
        repo = common.REPO
    try:
        text = generate(repo)
    except Untranslatable as ex:
        return False, f"gen_sha: {ex}"
    OUT.parent.mkdir(parents=True, exist_ok=True)
    if not OUT.exists() or OUT.read_text() != text:
        OUT.write_text(text)
    return True, hashlib.sha1(text.encode()).hexdigest()[:12]


def gen(ctx):
    ok, msg = run()
    if ok:
        ctx.notes.append(f"translator: Nstd/Generated/Sha256Tables.lean regenerated from the current sources (sha1 {msg})")
    return ok, msg


if __name__ == "__main__":
    sys.path.insert(0, str(VERIF / "tools"))
    ok, msg = run(sys.argv[1] if len(sys.argv) > 1 else None)
    print(("ok " if ok else "FAILED ") + msg)
    sys.exit(0 if ok else 1)
