#!/usr/bin/env python3
"""Run seedtest.py / harmtest.py for many changes in parallel, one worker per group of properties, each worker on
its own scratch copy of the repository snapshot (NSTD_REPO), so that /repo itself is never touched.

  partest.py <workers> seed|harm [<id> ...]        (default ids: all of that kind)

Meant for `vp run --with-repo` snapshots (after `python3 tools/setup.py`): every worker gets a `git worktree` of /repo at the
commit of $VP_RUN_REPO (else of /repo HEAD).  Changes of one property always go to the same worker (they share the evidence
file and the generated Lean files of their area); areas that share a Lean area (C04/C05, C13/C14) share a worker.
Results land in seeded/<id>/result.json / harmless/<id>/result.json of the tree the command runs in.
"""
import json
import os
import shutil
import subprocess
import sys
import tempfile
from pathlib import Path

VERIF = Path(__file__).resolve().parents[1]
GROUP = {"C05": "C04", "C14": "C13"}


def main():
    n, kind = int(sys.argv[1]), sys.argv[2]
    base = VERIF / ("seeded" if kind == "seed" else "harmless")
    ids = sys.argv[3:] or sorted(d.name for d in base.iterdir() if (d / "patch.diff").exists() and not d.name.startswith("_"))
    byprop = {}
    for i in ids:
        p = json.loads((base / i / "meta.json").read_text())["property"]
        byprop.setdefault(GROUP.get(p, p), []).append(i)
    # longest groups first, greedy balance
    workers = [[] for _ in range(n)]
    for p in sorted(byprop, key=lambda q: -len(byprop[q])):
        min(workers, key=len).extend(byprop[p])
    src = os.environ.get("VP_RUN_REPO")
    head = subprocess.check_output(["git", "-C", src or "/repo", "rev-parse", "HEAD"], text=True).strip()
    tmp = Path(tempfile.mkdtemp(prefix="partest-", dir="/tmp"))
    procs = []
    for k, w in enumerate(workers):
        if not w:
            continue
        repo = tmp / f"repo{k}"
        # the snapshot is itself a worktree of /repo: take a further worktree at the same commit (a file copy would share its index)
        subprocess.run(["git", "-C", "/repo", "worktree", "add", "--detach", str(repo), head], check=True,
                       stdout=subprocess.DEVNULL, stderr=subprocess.DEVNULL)
        env = dict(os.environ, NSTD_REPO=str(repo), TMPDIR=str(tmp))
        cmd = ["python3", "tools/seedtest.py"] + w if kind == "seed" else ["python3", "tools/harmtest.py", "run"] + w
        procs.append((k, subprocess.Popen(cmd, cwd=VERIF, env=env, stdout=open(tmp / f"log{k}", "w"), stderr=subprocess.STDOUT)))
    for k, p in procs:
        p.wait()
        sys.stdout.write((tmp / f"log{k}").read_text())
        sys.stdout.flush()
    for k, _ in procs:
        subprocess.run(["git", "-C", "/repo", "worktree", "remove", "--force", str(tmp / f"repo{k}")])
    shutil.rmtree(tmp, ignore_errors=True)


if __name__ == "__main__":
    main()
