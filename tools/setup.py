#!/usr/bin/env python3
"""MANIFEST.setup_cmd: build, offline and from the files on disk, the Lean modules and model drivers
that the registered checks need (every area module lists them in LEAN_TARGETS)."""
import importlib
import subprocess
import sys
from pathlib import Path

VERIF = Path(__file__).resolve().parents[1]
sys.path.insert(0, str(VERIF / "tools"))


def main():
    targets = []
    for f in sorted((VERIF / "tools" / "areas").glob("*.py")):
        if f.stem.startswith("_"):
            continue
        mod = importlib.import_module("areas." + f.stem)
        if getattr(mod, "MANIFEST", None):
            pre = getattr(mod, "setup", None)
            if pre:
                pre()                      # e.g. regenerate translated tables
            for t in getattr(mod, "LEAN_TARGETS", []):
                if t not in targets:
                    targets.append(t)
    print("lake build", " ".join(targets), flush=True)
    r = subprocess.run(["lake", "build"] + targets, cwd=VERIF / "lean")
    return r.returncode


if __name__ == "__main__":
    sys.exit(main())
