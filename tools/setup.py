#!/usr/bin/env python3
"""MANIFEST.setup_cmd: build the Lean library and every model driver from the files on disk (offline)."""
import subprocess
import sys
from pathlib import Path

VERIF = Path(__file__).resolve().parents[1]
sys.path.insert(0, str(VERIF / "tools"))


def main():
    try:
        import gen_tables
        gen_tables.main([])
    except ImportError:
        pass
    r = subprocess.run(["lake", "build"], cwd=VERIF / "lean")
    if r.returncode != 0:
        return r.returncode
    # all driver executables
    import re
    exes = re.findall(r'name\s*=\s*"(drv_[a-z0-9_]+)"', (VERIF / "lean" / "lakefile.toml").read_text())
    r = subprocess.run(["lake", "build"] + exes, cwd=VERIF / "lean")
    return r.returncode


if __name__ == "__main__":
    sys.exit(main())
