#!/usr/bin/env python3
"""Translator for the relinking pointer code of List.hpp / PoolList.hpp (property C03).

Extracts from the CURRENT headers the bodies of
    List::insert(const Iterator&, const T&)   List::remove(const Iterator&)   List::swap(List&)
    PoolList::linkFreeItem(T*)                PoolList::remove(const T&)      PoolList::swap(PoolList&)
(tokenizer + recursive-descent parser for the C++ subset these bodies are written in) and writes them, statement by
statement, as Lean functions over the heap of lean/Nstd/Seq/PtrModel.lean (`Ptr.PList`: one list, sentinel address 0) resp.
lean/Nstd/Seq/PtrSwap.lean (`Ptr2.Heap` + two `Ptr2.Hdr`: two lists in one heap, for swap) into
lean/Nstd/Generated/SeqLink.lean.  lean/Nstd/Seq/PropsLink.lean proves that the generated functions are the hand-written
heap-model steps `Ptr.insert` / `Ptr.remove` / `Ptr.link` / `Ptr.unlink` / `Ptr2.swap` on every heap that represents a chain.

Anything outside the understood subset is REFUSED (exception -> the check reports a broken tie): unknown statements, members,
fields, loops, pointer arithmetic, iterator operators (`++it`), calls, address-of other than `&endItem`.

Semantics of the translation (assumptions, listed in the MANIFEST note):
  Item* (nullable)        -> Option Nat (none = null);   dereferencing null = fault: the whole function returns `none`
  _begin.item, &endItem, it.item / position.item (never null by the class invariant / precondition) -> Nat; storing a null
                             pointer into `_begin.item` is a fault
  usize _size, ItemBlock* blocks -> Nat (blocks: opaque handle)
  `if(!freeItem-or-local) { … new char[…] … }` / `if(!freeItem) helper();` with `new char[` inside the helper: the block
      allocation.  NOT translated: replaced by the model's `Ptr.refill` (tied by the executed constants probe and the white-box
      free-list comparison of the correspondence run); the block must end with `freeItem = <the tested local>;`
  `new(p) Item(value);`   -> p->value := value
  `p->~Item();` `((T*)(p + 1))->~T();` -> skipped (destructor of the element: no link is touched)
  `Item* item = (Item*)&value - 1;` (PoolList::remove) -> item := the header of the element, passed as the parameter `it`
  `return *t;` (PoolList::linkFreeItem) -> no value returned
  `(a = b)->f = c` : c, then b, then the stores (C++17 order; the older unsequenced rule gives the same result here because
      the inner store and the read of c concern different fields)
"""
import re
import sys
from pathlib import Path


class Refuse(Exception):
    pass


def strip_comments(src):
    src = re.sub(r"/\*.*?\*/", " ", src, flags=re.S)
    return re.sub(r"//[^\n]*", "", src)


TOK = re.compile(r"\s*(->|==|!=|<=|>=|&&|\|\||\+\+|--|[A-Za-z_]\w*|\d+|[{}()\[\];,<>=+\-*/!?:&.~|^%])")


def tokenize(text):
    toks, pos = [], 0
    text = text.rstrip()
    while pos < len(text):
        m = TOK.match(text, pos)
        if not m:
            if text[pos:].strip() == "":
                break
            raise Refuse(f"cannot tokenize at {text[pos:pos + 30]!r}")
        toks.append(m.group(1))
        pos = m.end()
    return toks


def balanced(src, start):
    depth = 0
    for i in range(start, len(src)):
        if src[i] == "{":
            depth += 1
        elif src[i] == "}":
            depth -= 1
            if depth == 0:
                return i + 1
    raise Refuse("unbalanced braces")


def extract(src, what, sig_rx):
    ms = list(re.finditer(sig_rx + r"\s*\{", src))
    if len(ms) != 1:
        raise Refuse(f"{what}: {len(ms)} definitions found, expected exactly one")
    m = ms[0]
    end = balanced(src, m.end() - 1)
    return src[m.end():end - 1]


def inline_helpers(toks, src, fn, depth=0):
    """normalisation before parsing: `T* const x` -> `T* x`; a call `name(ident)` of a one-parameter helper defined in the
    class as `R name(P param) {return EXPR;}` -> `(EXPR[param := ident])`; a statement `name(ident);` of a helper
    `void name(P param) {BODY}` -> `{BODY[param := ident]}` (helpers may use helpers; locals of a helper must not clash)"""
    if depth > 4:
        raise Refuse(f"{fn}: helper calls nested too deeply")
    out, i = [], 0
    while i < len(toks):
        t = toks[i]
        if t == "const" and out and out[-1] == "*":
            i += 1
            continue
        if (re.fullmatch(r"[A-Za-z_]\w*", t) and i + 3 < len(toks) and toks[i + 1] == "(" and toks[i + 3] == ")"
                and re.fullmatch(r"[A-Za-z_]\w*", toks[i + 2]) and (not out or out[-1] not in (".", "->", "new", "~"))):
            arg = toks[i + 2]
            ms = list(re.finditer(r"(?:static\s+)?(?:inline\s+)?(void|(?:const\s+)?\w+\s*[*&]?)\s+" + t +
                                  r"\s*\(\s*(?:const\s+)?\w+\s*[*&]?\s*(?:const\s+)?(\w+)\s*\)\s*(?:const\s*)?\{", src))
            if len(ms) == 1 and ms[0].group(1).strip() not in ("return", "else", "new"):
                m = ms[0]
                body = tokenize(src[m.end():balanced(src, m.end() - 1) - 1])
                body = [arg if b == m.group(2) else b for b in body]
                body = inline_helpers(body, src, fn, depth + 1)
                if m.group(1).strip() == "void":
                    if i + 4 < len(toks) and toks[i + 4] == ";" and (not out or out[-1] in (";", "{", "}", ")", "else")):
                        out += ["{"] + body + ["}"]
                        i += 5
                        continue
                elif body and body[0] == "return" and body[-1] == ";" and body.count(";") == 1:
                    out += ["("] + body[1:-1] + [")"]
                    i += 4
                    continue
        out.append(t)
        i += 1
    return out


# ---- parser ----------------------------------------------------------------------------------------------------------
class P:
    def __init__(self, toks, fn, src):
        self.t, self.i, self.fn, self.src = toks, 0, fn, src

    def peek(self, k=0):
        return self.t[self.i + k] if self.i + k < len(self.t) else None

    def eat(self, x=None):
        tok = self.peek()
        if tok is None or (x is not None and tok != x):
            raise Refuse(f"{self.fn}: expected {x!r}, found {tok!r}")
        self.i += 1
        return tok

    def upto_semicolon(self):
        j = self.i
        while j < len(self.t) and self.t[j] != ";":
            if self.t[j] in ("{", "}"):
                return None
            j += 1
        return "".join(self.t[self.i:j]) if j < len(self.t) else None

    def stmts(self):
        out = []
        while self.peek() is not None and self.peek() != "}":
            out.append(self.stmt())
        return out

    def substmt_tokens(self):
        """tokens of the statement that starts at the cursor (a block or up to ';'), without consuming"""
        j = self.i
        if self.t[j] == "{":
            depth = 0
            while True:
                if self.t[j] == "{":
                    depth += 1
                elif self.t[j] == "}":
                    depth -= 1
                    if depth == 0:
                        return self.t[self.i:j + 1]
                j += 1
        while self.t[j] != ";":
            j += 1
        return self.t[self.i:j + 1]

    def stmt(self):
        tok = self.peek()
        if tok == "{":
            self.eat("{")
            b = self.stmts()
            self.eat("}")
            return ("block", b)
        if tok == "if":
            self.eat("if"); self.eat("(")
            c = self.expr()
            self.eat(")")
            sub = self.substmt_tokens()
            alloc = self.allocation(c, sub)
            if alloc is not None:
                self.i += len(sub)
                if self.peek() == "else":
                    raise Refuse(f"{self.fn}: the allocation statement has an else branch")
                return alloc
            a = self.stmt()
            b = ("block", [])
            if self.peek() == "else":
                self.eat("else")
                b = self.stmt()
            return ("if", c, a, b)
        if tok == "return":
            if self.upto_semicolon() == "return*t":
                self.i += 3; self.eat(";")
                return ("return", None)
            self.eat("return")
            e = self.expr()
            self.eat(";")
            return ("return", e)
        if tok in ("for", "while", "do", "switch", "goto", "break", "continue", "delete"):
            raise Refuse(f"{self.fn}: statement `{tok}` is outside the translated subset")
        text = self.upto_semicolon()
        if text is not None:
            m = re.fullmatch(r"(\w+)->~Item\(\)", text) or re.fullmatch(r"\(\(T\*\)\((\w+)\+1\)\)->~T\(\)", text)
            if m:
                while self.eat() != ";":
                    pass
                return ("destroy", m.group(1))
            m = re.fullmatch(r"new\((\w+)\)Item\((\w+)\)", text)
            if m:
                while self.eat() != ";":
                    pass
                return ("construct", m.group(1), m.group(2))
            m = re.fullmatch(r"Item\*(\w+)=\(?\(Item\*\)&value-1\)?", text)
            if m:
                while self.eat() != ";":
                    pass
                return ("decl", "Item*", m.group(1), ("hdr_of_value",))
        if tok == "new":
            raise Refuse(f"{self.fn}: `new` expression outside the understood placement form")
        if tok == "const" and self.peek(1) in ("Item", "ItemBlock", "usize"):
            self.eat()
            tok = self.peek()
        if tok in ("Item", "ItemBlock", "usize") and self.peek(1) in ("*",) or (tok == "usize" and re.fullmatch(r"[A-Za-z_]\w*", self.peek(1) or "")):
            ty = self.eat()
            if self.peek() == "*":
                self.eat("*"); ty += "*"
            name = self.eat()
            if not re.fullmatch(r"[A-Za-z_]\w*", name) or self.peek() != "=":
                raise Refuse(f"{self.fn}: declarator of `{name}`")
            self.eat("=")
            e = self.expr()
            if self.peek() == ",":
                raise Refuse(f"{self.fn}: several declarators in one declaration")
            self.eat(";")
            return ("decl", ty, name, e)
        e = self.expr()
        self.eat(";")
        return ("expr", e)

    def allocation(self, cond, sub):
        """the block allocation `if(!x) { … new char[…] … freeItem = x; }` or `if(!freeItem) helper();`"""
        if cond[0] != "not" or cond[1][0] != "id":
            return None
        x = cond[1][1]
        if sub[0] == "{":
            if not any(sub[k] == "new" and sub[k + 1] == "char" for k in range(len(sub) - 1)):
                return None
            if sub[-5:] != ["freeItem", "=", x, ";", "}"] and x != "freeItem":
                raise Refuse(f"{self.fn}: the allocation block does not end with `freeItem = {x};`")
            return ("alloc", x)
        if len(sub) == 4 and sub[1:] == ["(", ")", ";"]:
            helper = sub[0]
            ms = list(re.finditer(r"void\s+" + helper + r"\s*\(\s*\)\s*\{", self.src))
            if len(ms) != 1:
                raise Refuse(f"{self.fn}: call of `{helper}()`: {len(ms)} definitions found")
            body = self.src[ms[0].end():balanced(self.src, ms[0].end() - 1)]
            if "new char[" not in re.sub(r"\s+", " ", body) or x != "freeItem":
                raise Refuse(f"{self.fn}: call of `{helper}()` is not the understood allocation helper")
            if not re.search(r"freeItem\s*=\s*\w+\s*;\s*\}\s*$", body):
                raise Refuse(f"{self.fn}: `{helper}()` does not end with an assignment to freeItem")
            return ("alloc", x)
        return None

    def expr(self):
        lhs = self.unary()
        if self.peek() == "=":
            self.eat("=")
            return ("assign", lhs, self.expr())
        if self.peek() in ("==", "!=", "<", ">", "+", "-", "*", "/", "&&", "||", "?", "[", "<=", ">="):
            raise Refuse(f"{self.fn}: operator `{self.peek()}` is outside the translated subset")
        return lhs

    def unary(self):
        tok = self.peek()
        if tok == "!":
            self.eat()
            return ("not", self.unary())
        if tok in ("++", "--"):
            self.eat()
            return ("pre" + ("inc" if tok == "++" else "dec"), self.unary())
        if tok == "&":
            self.eat()
            e = self.postfix()
            if e == ("id", "endItem"):
                return ("endptr", "this")
            if e == ("dot", ("id", "other"), "endItem"):
                return ("endptr", "other")
            raise Refuse(f"{self.fn}: address-of other than `&endItem`")
        if tok in ("*", "~", "-", "+"):
            raise Refuse(f"{self.fn}: operator `{tok}` is outside the translated subset")
        return self.postfix()

    def postfix(self):
        tok = self.eat()
        if tok == "(":
            a = self.expr()
            self.eat(")")
        elif tok == "0":
            a = ("null",)
        elif re.fullmatch(r"[A-Za-z_]\w*", tok):
            if self.peek() == "(":
                raise Refuse(f"{self.fn}: call of `{tok}` is outside the translated subset")
            a = ("id", tok)
        else:
            raise Refuse(f"{self.fn}: unexpected token {tok!r}")
        while self.peek() in ("->", ".", "[", "++", "--"):
            op = self.eat()
            if op not in ("->", "."):
                raise Refuse(f"{self.fn}: operator `{op}` is outside the translated subset")
            f = self.eat()
            if not re.fullmatch(r"[A-Za-z_]\w*", f) or self.peek() == "(":
                raise Refuse(f"{self.fn}: member `{f}` / member call is outside the translated subset")
            a = ("arrow" if op == "->" else "dot", a, f)
        return a


# ---- translation -------------------------------------------------------------------------------------------------------
# types: ptr = Option Nat, nn = Nat (non-null pointer), nat, val
HEAP_FIELDS = {"prev": "ptr", "next": "ptr", "value": "val"}
MEMBERS = {"freeItem": ("free", "ptr"), "_size": ("size", "nat"), "blocks": ("blocks", "nat")}


class Tr:
    """backend 'A': state `h : Ptr.PList` (sentinel address 0);  backend 'B': `H : Ptr2.Heap`, `A B : Ptr2.Hdr`, `eA eB`"""

    def __init__(self, fn, backend, params, returns):
        self.fn, self.backend, self.params, self.returns = fn, backend, params, returns
        self.n = 0

    def fresh(self, base):
        self.n += 1
        return f"{base}{self.n}"

    # --- state access
    def heapvar(self):
        return "h" if self.backend == "A" else "H"

    def objvar(self, obj):
        if self.backend == "A":
            if obj != "this":
                raise Refuse(f"{self.fn}: a second list object in a one-list function")
            return "h"
        return "A" if obj == "this" else "B"

    def sentinel(self, obj):
        if self.backend == "A":
            if obj != "this":
                raise Refuse(f"{self.fn}: a second list object in a one-list function")
            return "0"
        return "eA" if obj == "this" else "eB"

    def state(self):
        return "h" if self.backend == "A" else "(H, A, B)"

    def read_field(self, addr, f):
        if f not in HEAP_FIELDS:
            raise Refuse(f"{self.fn}: `{f}` is not a translated field of Item")
        hf = "val" if f == "value" else f
        return f"({self.heapvar()}.{hf} {addr})", HEAP_FIELDS[f]

    def write_field(self, addr, f, term, ty):
        if f not in HEAP_FIELDS:
            raise Refuse(f"{self.fn}: `{f}` is not a translated field of Item")
        want = HEAP_FIELDS[f]
        hf = "val" if f == "value" else f
        v = self.coerce(term, ty, want)
        hv = self.heapvar()
        return f"let {hv} := {{ {hv} with {hf} := Ptr.set {hv}.{hf} {addr} {v} }}"

    def coerce(self, term, ty, want):
        if ty == want:
            return term
        if ty == "nn" and want == "ptr":
            return f"(some {term})"
        if ty == "null" and want == "ptr":
            return "none"
        raise Refuse(f"{self.fn}: a value of type {ty} is stored where {want} is expected")

    def member(self, obj, name):
        """(kind, lean field, type) of a scalar member of a list object"""
        if name in MEMBERS:
            lf, ty = MEMBERS[name]
            if lf == "blocks" and self.backend == "A":
                raise Refuse(f"{self.fn}: `blocks` outside swap")
            return lf, ty
        raise Refuse(f"{self.fn}: unknown member `{name}`")

    # --- lvalues: ('local', name) | ('member', obj, leanfield, ty) | ('field', addr-expr, fieldname)
    def lvalue(self, e, env):
        k = e[0]
        if k == "id":
            x = e[1]
            if x in env:
                return ("local", x)
            lf, ty = self.member("this", x)
            return ("member", "this", lf, ty)
        if k == "dot":
            base, f = e[1], e[2]
            if base == ("id", "_begin") and f == "item":
                return ("member", "this", "begin", "nn")
            if base == ("dot", ("id", "other"), "_begin") and f == "item":
                return ("member", "other", "begin", "nn")
            if base == ("id", "other"):
                lf, ty = self.member("other", f)
                return ("member", "other", lf, ty)
            if base == ("id", "endItem"):
                return ("field", ("endptr", "this"), f)
            if base == ("dot", ("id", "other"), "endItem"):
                return ("field", ("endptr", "other"), f)
            raise Refuse(f"{self.fn}: `.{f}` on an expression that is not understood")
        if k == "arrow":
            return ("field", e[1], e[2])
        raise Refuse(f"{self.fn}: not an lvalue: {k}")

    # --- expressions in continuation-passing style: k(term, type, env, ind) -> lines
    def ev(self, e, env, ind, k):
        kind = e[0]
        if kind == "null":
            return k("none", "ptr", env, ind)
        if kind == "hdr_of_value":
            if "value_hdr" not in self.params:
                raise Refuse(f"{self.fn}: `(Item*)&value - 1` in a function without such a parameter")
            return k("it", "nn", env, ind)
        if kind == "endptr":
            return k(self.sentinel(e[1]), "nn", env, ind)
        if kind == "id" and e[1] in env:
            t, ty = env[e[1]]
            return k(t, ty, env, ind)
        if kind == "id" and e[1] == "value" and "value" in self.params:
            return k("value", "val", env, ind)
        if kind == "dot" and e[1][0] == "id" and e[1][1] in self.params and self.params[e[1][1]] == "iter" and e[2] == "item":
            return k(e[1][1], "nn", env, ind)
        if kind == "dot" and e[1] == ("id", "_end") and e[2] == "item":
            return k(self.sentinel("this"), "nn", env, ind)
        if kind in ("id", "dot", "arrow"):
            lv = self.lvalue(e, env)
            if lv[0] == "member":
                return k(f"{self.objvar(lv[1])}.{lv[2]}", lv[3], env, ind)
            if lv[0] == "field":
                def after(addr, env2, ind2):
                    t, ty = self.read_field(addr, lv[2])
                    return k(t, ty, env2, ind2)
                return self.deref(lv[1], env, ind, after)
        if kind == "assign":
            def after_rhs(t, ty, env2, ind2):
                name = self.fresh("t")
                lines = [f"{ind2}let {name} := {t}"]
                return lines + self.store(e[1], name, ty, env2, ind2, lambda env3, ind3: k(name, ty, env3, ind3))
            return self.ev(e[2], env, ind, after_rhs)
        if kind in ("preinc", "predec"):
            raise Refuse(f"{self.fn}: `++`/`--` used as a value (e.g. `return ++it`: an iterator operator) is outside the translated subset")
        raise Refuse(f"{self.fn}: expression `{kind}` is outside the translated subset")

    def deref(self, e, env, ind, k):
        """k(address term : Nat, env, ind); a null pointer is a fault"""
        def after(t, ty, env2, ind2):
            if ty == "nn":
                return k(t, env2, ind2)
            if ty != "ptr":
                raise Refuse(f"{self.fn}: `->` applied to a value of type {ty}")
            a = self.fresh("a")
            env3 = dict(env2)
            if e[0] == "id" and e[1] in env3:
                env3[e[1]] = (a, "nn")
            return ([f"{ind2}match {t} with", f"{ind2}| none => none", f"{ind2}| some {a} =>"] + k(a, env3, ind2 + "  "))
        return self.ev(e, env, ind, after)

    def store(self, lhs, term, ty, env, ind, k):
        """k(env, ind)"""
        lv = self.lvalue(lhs, env)
        if lv[0] == "local":
            env2 = dict(env)
            name = self.fresh("v_" + lv[1] + "_")
            env2[lv[1]] = (name, ty)
            return [f"{ind}let {name} := {term}"] + k(env2, ind)
        if lv[0] == "member":
            ov, lf, want = self.objvar(lv[1]), lv[2], lv[3]
            if want == "nn" and ty == "ptr":
                a = self.fresh("a")          # storing null into `_begin.item` is a fault
                return ([f"{ind}match {term} with", f"{ind}| none => none", f"{ind}| some {a} =>",
                         f"{ind}  let {ov} := {{ {ov} with {lf} := {a} }}"] + k(env, ind + "  "))
            v = self.coerce(term, ty, want)
            return [f"{ind}let {ov} := {{ {ov} with {lf} := {v} }}"] + k(env, ind)

        def after(addr, env2, ind2):
            return [ind2 + self.write_field(addr, lv[2], term, ty)] + k(env2, ind2)
        return self.deref(lv[1], env, ind, after)

    def cond(self, c, env, ind, kthen, kelse):
        if c[0] == "not":
            return self.cond(c[1], env, ind, kelse, kthen)

        def after(t, ty, env2, ind2):
            if ty != "ptr":
                raise Refuse(f"{self.fn}: condition of type {ty}")
            a = self.fresh("a")
            env3 = dict(env2)
            if c[0] == "id" and c[1] in env3:
                env3[c[1]] = (a, "nn")
            return ([f"{ind2}match {t} with", f"{ind2}| some {a} =>"] + kthen(env3, ind2 + "  ") +
                    [f"{ind2}| none =>"] + kelse(env2, ind2 + "  "))
        return self.ev(c, env, ind, after)

    # --- statements: the list `rest` is what follows (both branches of an `if` continue with it)
    def run(self, stmts, env, ind):
        if not stmts:
            if self.returns:
                raise Refuse(f"{self.fn}: control reaches the end of a function that returns a value")
            return [f"{ind}some {self.state()}"]
        s, rest = stmts[0], stmts[1:]
        go = lambda env2, ind2: self.run(rest, env2, ind2)
        k = s[0]
        if k == "block":
            return self.run(list(s[1]) + rest, env, ind)       # no declaration of the subset is shadowed by a block
        if k == "destroy":
            if s[1] not in env:
                raise Refuse(f"{self.fn}: destructor call on unknown `{s[1]}`")
            return go(env, ind)
        if k == "construct":
            return self.store(("arrow", ("id", s[1]), "value"), "value", "val", env, ind, go)
        if k == "decl":
            ty, name, e = s[1], s[2], s[3]
            if name in env:
                raise Refuse(f"{self.fn}: `{name}` declared twice")

            def after(t, ety, env2, ind2):
                want = {"Item*": ("ptr", "nn"), "usize": ("nat",), "ItemBlock*": ("nat",)}[ty]
                if ety not in want:
                    raise Refuse(f"{self.fn}: `{ty} {name}` initialised with a value of type {ety}")
                env3 = dict(env2)
                env3[name] = ("v_" + name, ety)
                return [f"{ind2}let v_{name} := {t}"] + go(env3, ind2)
            return self.ev(e, env, ind, after)
        if k == "alloc":
            x = s[1]
            if self.backend != "A":
                raise Refuse(f"{self.fn}: block allocation inside a two-list function")
            if x == "freeItem":
                return ([f"{ind}let h := if h.free.isNone then Ptr.refill h else h"] + go(env, ind))
            if x not in env or env[x][1] != "ptr":
                raise Refuse(f"{self.fn}: the allocation tests `{x}`, which is not a pointer variable")
            name = self.fresh("v_" + x + "_")
            env2 = dict(env)
            env2[x] = (name, "ptr")
            return ([f"{ind}let h := if {env[x][0]}.isNone then Ptr.refill h else h",
                     f"{ind}let {name} := if {env[x][0]}.isNone then h.free else {env[x][0]}"] + go(env2, ind))
        if k == "if":
            return self.cond(s[1], env, ind,
                             lambda env2, ind2: self.run([s[2]] + rest, env2, ind2),
                             lambda env2, ind2: self.run([s[3]] + rest, env2, ind2))
        if k == "return":
            if s[1] is None:
                return [f"{ind}some {self.state()}"]
            if not self.returns:
                raise Refuse(f"{self.fn}: value returned from a void function")

            def after(t, ty, env2, ind2):
                if ty == "nn":
                    return [f"{ind2}some ({self.state()}, some {t})"]
                if ty == "ptr":
                    return [f"{ind2}some ({self.state()}, {t})"]
                raise Refuse(f"{self.fn}: returns a value of type {ty}")
            return self.ev(s[1], env, ind, after)
        if k == "expr":
            e = s[1]
            if e[0] in ("preinc", "predec"):
                lv = self.lvalue(e[1], env)
                if lv[0] != "member" or lv[3] != "nat":
                    raise Refuse(f"{self.fn}: `++`/`--` on something that is not `_size` (e.g. an iterator)")
                ov = self.objvar(lv[1])
                op = "+" if e[0] == "preinc" else "-"
                return [f"{ind}let {ov} := {{ {ov} with {lv[2]} := {ov}.{lv[2]} {op} 1 }}"] + go(env, ind)
            if e[0] == "assign":
                return self.ev(e, env, ind, lambda t, ty, env2, ind2: go(env2, ind2))
            raise Refuse(f"{self.fn}: expression statement `{e[0]}` without effect / outside the subset")
        raise Refuse(f"{self.fn}: statement `{k}`")


FUNCS = [
    # (lean namespace, lean name, header, signature regex, backend, params (name -> kind), returns a pointer?, lean signature)
    ("List", "insert", "include/nstd/List.hpp",
     r"Iterator\s+insert\s*\(\s*const\s+Iterator\s*&\s*position\s*,\s*const\s+T\s*&\s*value\s*\)",
     "A", {"position": "iter", "value": "val"}, True, "(h : PList) (position : Nat) (value : Int) : Option (PList × Option Nat)"),
    ("List", "remove", "include/nstd/List.hpp",
     r"Iterator\s+remove\s*\(\s*const\s+Iterator\s*&\s*it\s*\)",
     "A", {"it": "iter"}, True, "(h : PList) (it : Nat) : Option (PList × Option Nat)"),
    ("List", "swap", "include/nstd/List.hpp", r"void\s+swap\s*\(\s*List\s*&\s*other\s*\)",
     "B", {}, False, "(H : Heap) (eA eB : Nat) (A B : Hdr) : Option (Heap × Hdr × Hdr)"),
    ("PoolList", "linkFreeItem", "include/nstd/PoolList.hpp", r"T\s*&\s*linkFreeItem\s*\(\s*T\s*\*\s*t\s*\)",
     "A", {}, False, "(h : PList) : Option PList"),
    ("PoolList", "remove", "include/nstd/PoolList.hpp", r"void\s+remove\s*\(\s*const\s+T\s*&\s*value\s*\)",
     "A", {"value_hdr": "hdr"}, False, "(h : PList) (it : Nat) : Option PList"),
    ("PoolList", "swap", "include/nstd/PoolList.hpp", r"void\s+swap\s*\(\s*PoolList\s*&\s*other\s*\)",
     "B", {}, False, "(H : Heap) (eA eB : Nat) (A B : Hdr) : Option (Heap × Hdr × Hdr)"),
]


def check_append_overloads(src):
    """every `PoolList::append` overload must be `T& append(A a, B b, …) {return linkFreeItem(new (allocateFreeItem()) T(a, b, …));}`
    with the parameters handed to T's constructor in their order (`T` without parentheses for no parameter): the linking of all
    arities is then the translated `linkFreeItem`.  Returns the list of arities found."""
    arities = []
    for m in re.finditer(r"T\s*&\s*append\s*\(([^)]*)\)\s*\{([^}]*)\}", src):
        params = [p.strip() for p in m.group(1).split(",") if p.strip()]
        names = []
        for prm in params:
            mm = re.fullmatch(r"([A-Z])\s+([a-z])", prm)
            if not mm:
                raise Refuse(f"PoolList::append: parameter `{prm}` is not of the understood form `A a`")
            names.append(mm.group(2))
        body = re.sub(r"\s+", "", m.group(2))
        want = "returnlinkFreeItem(new(allocateFreeItem())T" + ("(" + ",".join(names) + ")" if names else "") + ");"
        if body != want:
            raise Refuse(f"PoolList::append with {len(names)} parameter(s): body `{body}` is not `{want}`")
        arities.append(len(names))
    if not arities:
        raise Refuse("PoolList::append: no overload found")
    # allocateFreeItem: take the head of the free list (allocating a block when it is empty) and return the element slot
    # behind its header, leaving `freeItem` pointing at it for linkFreeItem
    body = re.sub(r"\s+", "", extract(src, "PoolList::allocateFreeItem", r"T\s*\*\s*allocateFreeItem\s*\(\s*\)"))
    body = "".join(inline_helpers(tokenize(extract(src, "PoolList::allocateFreeItem", r"T\s*\*\s*allocateFreeItem\s*\(\s*\)")), src,
                                  "PoolList::allocateFreeItem"))
    if not re.fullmatch(r"Item\*item=freeItem;if\(!item\)\{.*newchar\[.*freeItem=item;\}return\(?\(T\*\)\(item\+1\)\)?;", body):
        raise Refuse("PoolList::allocateFreeItem is not `Item* item = freeItem; if(!item) {<block allocation> freeItem = item;} "
                     "return (T*)(item + 1);`")
    if sorted(arities) != list(range(len(arities))):
        raise Refuse(f"PoolList::append: arities {sorted(arities)} are not 0..n")
    return sorted(arities)


def generate(repo, out_path):
    """writes out_path (only when the content changes); returns a one-line summary; raises Refuse"""
    repo = Path(repo)
    srcs = {}
    parts = ["/- generated by tools/gen_seq.py from include/nstd/{List,PoolList}.hpp - do not edit -/",
             "import Nstd.Seq.PtrModel", "import Nstd.Seq.PtrSwap", "", "set_option linter.unusedVariables false", "",
             "namespace Nstd.Generated.SeqLink", "open Nstd.Seq", "open Nstd.Seq.Ptr (PList)", "open Nstd.Seq.Ptr2 (Heap Hdr)", ""]
    summary = []
    cur = None
    for ns, name, header, rx, backend, params, returns, sig in FUNCS:
        if header not in srcs:
            srcs[header] = strip_comments((repo / header).read_text())
        src = srcs[header]
        fn = f"{ns}::{name}"
        body = extract(src, fn, rx)
        p = P(inline_helpers(tokenize(body), src, fn), fn, src)
        stmts = p.stmts()
        if p.peek() is not None:
            raise Refuse(f"{fn}: trailing tokens")
        tr = Tr(fn, backend, params, returns)
        lines = tr.run(stmts, {}, "  ")
        if cur != ns:
            if cur is not None:
                parts += [f"end {cur}", ""]
            parts += [f"/-! ### {header} -/", f"namespace {ns}", ""]
            cur = ns
        parts += [f"def {name} {sig} :=" ] + lines + [""]
        summary.append(f"{fn}:{len(stmts)} stmts")
    ar = check_append_overloads(srcs["include/nstd/PoolList.hpp"])
    parts += ["/-- the arities of `PoolList::append`; every overload is `linkFreeItem(new (allocateFreeItem()) T(a, b, …))` with the",
              "    parameters in their order (checked by the translator) -/",
              f"def appendArities : List Nat := {ar}", ""]
    summary.append(f"PoolList::append arities {ar[0]}..{ar[-1]} of the shape linkFreeItem(new (allocateFreeItem()) T(params in order))")
    parts += [f"end {cur}", "", "end Nstd.Generated.SeqLink", ""]
    text = "\n".join(parts)
    out_path = Path(out_path)
    out_path.parent.mkdir(parents=True, exist_ok=True)
    if not out_path.exists() or out_path.read_text() != text:
        out_path.write_text(text)
    return ", ".join(summary)



# ======================================================================================================================
# Part 2: the loops of include/nstd/Array.hpp -> lean/Nstd/Generated/SeqArr.lean
#
# Translated member functions (each becomes a Lean function over the checked memory of lean/Nstd/Seq/ArrMem.lean, loops
# become functions recursive in a fuel argument, running out of fuel is `none`):
#     reserve(usize)  [from the allocation statement on: growth loop, delete[], re-pointing]      reserve(usize, const T*)
#     resize(usize, const T&)   clear()   append(const T&)   append(const T*, usize)   remove(usize)   remove(const Iterator&)
# lean/Nstd/Seq/PropsArr.lean proves each of them equal to the cell-level model function of RawArray.lean on every memory
# that represents a model state.
#
# Semantics (assumptions, listed in the MANIFEST note):
#   T* / const T* / Iterator::item -> Option (allocation id × offset) (none = null); usize -> Nat (no wrap-around)
#   `const T& value` parameter -> the pointer `&value`; `return *p;` of a function returning `T&` -> returns `p`
#   `new(p) T(*q)` -> AM.rd then AM.con;  `p->~T()` -> AM.des;  `*p = *q` -> AM.rd then AM.asg;  `delete[] (char*)p` -> AM.del
#   `(T*)new char[sizeof(T) * n]` (with or without the overflow guard of fix 0003) -> AM.alloc of n raw cells; never fails
#   `#ifdef VERIFY  VERIFY(X == p);  #else  X;  #endif` -> X (the two branches must be the same placement-new)
#   evaluation order: right operand of `=` first (C++17); operands of other binary operators must be free of side effects
#   NOT translated: the guard and the capacity rounding of reserve(usize) (everything in front of the allocation statement;
#   only `_capacity` may be assigned there): replaced by the model's rule `size > cap || (!begin && size > 0)`,
#   `cap = max(size, cap) | mask`, which is tied to the sources by the executed probe (SeqConst.lean)
ATOK = re.compile(r"\s*(->|==|!=|<=|>=|&&|\|\||\+\+|--|\|=|\+=|-=|&=|0[xX][0-9a-fA-F]+|[A-Za-z_]\w*|\d+|[{}()\[\];,<>=+\-*/!?:&.~|^%])")
IDENT = re.compile(r"[A-Za-z_]\w*$")


def atokenize(text):
    toks, pos = [], 0
    text = text.rstrip()
    while pos < len(text):
        m = ATOK.match(text, pos)
        if not m:
            if text[pos:].strip() == "":
                break
            raise Refuse(f"cannot tokenize at {text[pos:pos + 30]!r}")
        toks.append(m.group(1))
        pos = m.end()
    return toks


def resolve_verify(src):
    """`#ifdef VERIFY  VERIFY(<placement new> == p);  #else  <placement new>;  #endif`  ->  `<placement new>;`"""
    def rep(m):
        a = re.sub(r"\s+", "", m.group(1))
        b = re.sub(r"\s+", "", m.group(2))
        mm = re.fullmatch(r"VERIFY\((.*)==(\w+)\);", a)
        if not mm or mm.group(1) + ";" != b or not b.startswith("new(" + mm.group(2) + ")"):
            raise Refuse(f"#ifdef VERIFY: the two branches `{a}` / `{b}` are not the same placement-new")
        return m.group(2)
    return re.sub(r"#ifdef[ \t]+VERIFY[ \t]*\n(.*?)#else[ \t]*\n(.*?)#endif[^\n]*\n", rep, src, flags=re.S)


class AP:
    """parser of the statement / expression subset of the Array member functions"""

    def __init__(self, toks, fn):
        self.t, self.i, self.fn = toks, 0, fn

    def peek(self, k=0):
        return self.t[self.i + k] if self.i + k < len(self.t) else None

    def eat(self, x=None):
        tok = self.peek()
        if tok is None or (x is not None and tok != x):
            raise Refuse(f"{self.fn}: expected {x!r}, found {tok!r}")
        self.i += 1
        return tok

    def stmts(self):
        out = []
        while self.peek() is not None and self.peek() != "}":
            out.append(self.stmt())
        return out

    def is_decl(self):
        j = 1 if self.peek() == "const" else 0
        return self.peek(j) in ("T", "usize", "Item", "Iterator") and (self.peek(j + 1) in ("*", "&") or IDENT.match(self.peek(j + 1) or ""))

    def decl(self):
        if self.peek() == "const":
            self.eat()
        base = self.eat()
        ds = []
        while True:
            ptr = ref = False
            if self.peek() == "*":
                self.eat(); ptr = True
            elif self.peek() == "&":
                self.eat(); ref = True
            name = self.eat()
            if not IDENT.match(name):
                raise Refuse(f"{self.fn}: declarator `{name}`")
            if base == "usize" and (ptr or ref):
                raise Refuse(f"{self.fn}: `usize* {name}` is outside the translated subset")
            if base == "Item" and not ptr:
                raise Refuse(f"{self.fn}: `Item {name}` is outside the translated subset")
            init = None
            if self.peek() == "=":
                self.eat()
                init = self.assign()
            if base == "Iterator" and (ptr or ref):
                raise Refuse(f"{self.fn}: `Iterator* {name}` is outside the translated subset")
            ty = ("item" if ptr else "?") if base == "Item" else ("iter" if base == "Iterator" else
                                                                  "nat" if base == "usize" else ("ptr" if ptr else "ref" if ref else "val"))
            ds.append((ty, name, init))
            if self.peek() == ",":
                self.eat()
                continue
            break
        return ("decl", ds)

    def stmt(self):
        tok = self.peek()
        if tok == "{":
            self.eat("{")
            b = self.stmts()
            self.eat("}")
            return ("block", b)
        if tok == "if":
            self.eat("if"); self.eat("(")
            c = self.expr()
            self.eat(")")
            a = self.stmt()
            b = ("block", [])
            if self.peek() == "else":
                self.eat("else")
                b = self.stmt()
            return ("if", c, a, b)
        if tok == "for":
            self.eat("for"); self.eat("(")
            init = None
            if self.peek() != ";":
                init = self.decl() if self.is_decl() else ("expr", self.expr())
            self.eat(";")
            cond = None if self.peek() == ";" else self.expr()
            self.eat(";")
            steps = []
            if self.peek() != ")":
                steps.append(self.assign())
                while self.peek() == ",":
                    self.eat()
                    steps.append(self.assign())
            self.eat(")")
            return ("for", init, cond, steps, self.stmt())
        if tok == "return":
            self.eat("return")
            e = None if self.peek() == ";" else self.expr()
            self.eat(";")
            return ("return", e)
        if tok == "delete":
            self.eat("delete"); self.eat("["); self.eat("]")
            e = self.unary()
            self.eat(";")
            return ("delete", e)
        if tok == "do":
            self.eat("do")
            body = self.stmt()
            self.eat("while"); self.eat("(")
            c = self.expr()
            self.eat(")"); self.eat(";")
            return ("dowhile", body, c)
        if tok == "while":
            self.eat("while"); self.eat("(")
            c = self.expr()
            self.eat(")")
            return ("for", None, c, [], self.stmt())
        if tok in ("switch", "goto", "break", "continue", "try", "throw"):
            raise Refuse(f"{self.fn}: statement `{tok}` is outside the translated subset")
        if self.is_decl():
            d = self.decl()
            self.eat(";")
            return d
        e = self.expr()
        self.eat(";")
        return ("expr", e)

    def expr(self):
        e = self.assign()
        if self.peek() == ",":
            raise Refuse(f"{self.fn}: comma operator outside a for-step")
        return e

    def assign(self):
        lhs = self.lor()
        if self.peek() == "=":
            self.eat()
            return ("assign", lhs, self.assign())
        if self.peek() in ("|=", "+=", "-=", "&=", "?"):
            raise Refuse(f"{self.fn}: operator `{self.peek()}` is outside the translated subset")
        return lhs

    def lor(self):
        a = self.land()
        while self.peek() == "||":
            self.eat()
            a = ("bin", "||", a, self.land())
        return a

    def land(self):
        a = self.equality()
        while self.peek() == "&&":
            self.eat()
            a = ("bin", "&&", a, self.equality())
        return a

    def equality(self):
        a = self.relational()
        while self.peek() in ("==", "!="):
            op = self.eat()
            a = ("bin", op, a, self.relational())
        return a

    def relational(self):
        a = self.additive()
        while self.peek() in ("<", ">", "<=", ">="):
            op = self.eat()
            a = ("bin", op, a, self.additive())
        return a

    def additive(self):
        a = self.unary()
        while self.peek() in ("+", "-"):
            op = self.eat()
            a = ("bin", op, a, self.unary())
        if self.peek() in ("*", "/", "%", "&", "|", "^"):
            raise Refuse(f"{self.fn}: operator `{self.peek()}` is outside the translated subset")
        return a

    def unary(self):
        tok = self.peek()
        if tok == "!":
            self.eat()
            return ("not", self.unary())
        if tok in ("++", "--"):
            self.eat()
            return ("preinc" if tok == "++" else "predec", self.unary())
        if tok == "*":
            self.eat()
            return ("deref", self.unary())
        if tok == "&":
            self.eat()
            return ("addr", self.unary())
        if tok == "(":
            # a cast `(T*)`, `(const T*)`, `(char*)`: pointer representation unchanged
            j = 1
            if self.peek(j) == "const":
                j += 1
            if self.peek(j) in ("T", "char") and self.peek(j + 1) == "*" and self.peek(j + 2) == ")":
                self.i += j + 3
                return self.unary()
        if tok == "new":
            self.eat()
            if self.peek() == "char":
                self.eat(); self.eat("[")
                depth, j = 1, self.i
                while depth:
                    if self.t[j] == "[":
                        depth += 1
                    elif self.t[j] == "]":
                        depth -= 1
                    j += 1
                text = "".join(self.t[self.i:j - 1])
                self.i = j
                m = (re.fullmatch(r"sizeof\(T\)\*(\w+)", text) or re.fullmatch(r"(\w+)\*sizeof\(T\)", text) or
                     re.fullmatch(r"(\w+)>\(usize\)-1/sizeof\(T\)\?\(usize\)-1:sizeof\(T\)\*\1", text))
                if not m:
                    raise Refuse(f"{self.fn}: allocation size `{text}` is not `sizeof(T) * n` (optionally with the overflow guard)")
                return ("alloc", ("id", m.group(1)))
            self.eat("(")
            dest = self.expr()
            self.eat(")"); self.eat("T"); self.eat("(")
            src = self.expr()
            self.eat(")")
            if src[0] != "deref":
                raise Refuse(f"{self.fn}: placement-new whose argument is not `*pointer`")
            return ("construct", dest, src[1])
        if tok in ("~", "-", "+", "sizeof", "delete"):
            raise Refuse(f"{self.fn}: operator `{tok}` is outside the translated subset")
        return self.postfix()

    def postfix(self):
        tok = self.eat()
        if tok == "(":
            a = self.expr()
            self.eat(")")
        elif re.fullmatch(r"\d+|0[xX][0-9a-fA-F]+", tok):
            a = ("num", int(tok, 0))
        elif IDENT.match(tok):
            if self.peek() == "(":
                self.eat("(")
                args = []
                if self.peek() != ")":
                    args.append(self.assign())
                    while self.peek() == ",":
                        self.eat()
                        args.append(self.assign())
                self.eat(")")
                a = ("call", tok, args)
            else:
                a = ("id", tok)
        else:
            raise Refuse(f"{self.fn}: unexpected token {tok!r}")
        while self.peek() in ("->", ".", "[", "++", "--"):
            op = self.eat()
            if op == "->" and self.peek() == "~":
                self.eat("~")
                if self.eat() not in ("T", "Item"):
                    raise Refuse(f"{self.fn}: destructor call of an unknown type")
                self.eat("("); self.eat(")")
                a = ("destroy", a)
                continue
            if op not in (".", "->"):
                raise Refuse(f"{self.fn}: operator `{op}` is outside the translated subset")
            f = self.eat()
            if IDENT.match(f) and op == "." and self.peek() == "(" and self.peek(1) == ")":
                self.eat("("); self.eat(")")
                a = ("mcall", a, f)
                continue
            if not IDENT.match(f) or self.peek() == "(":
                raise Refuse(f"{self.fn}: member `{f}` / member call is outside the translated subset")
            a = ("dot" if op == "." else "arrow", a, f)
        return a


LEAN_TY = {"ptr": "Option P", "nat": "Nat", "arr": "Option Arr"}
EFFECTS = ("assign", "preinc", "predec", "call", "alloc", "construct", "destroy")


def has_effects(e):
    if not isinstance(e, tuple):
        return False
    if e[0] in EFFECTS:
        return True
    return any(has_effects(x) for x in e[1:] if isinstance(x, (tuple, list)))


class TrA:
    """C++ member function of Array -> Lean function `fuel M A params… : Option (Mem × Arr [× result])`"""

    def __init__(self, fn, lean_name, params, ret, callees, loops):
        self.fn, self.lean_name, self.params, self.ret, self.callees, self.loops = fn, lean_name, params, ret, callees, loops
        self.n = 0
        self.nloop = 0
        self.in_loop = 0

    def fresh(self):
        self.n += 1
        return f"t{self.n}"

    def result(self, extra=None):
        return "some (M, A)" if extra is None else f"some (M, A, {extra})"

    # ---- conditions: side-effect free, cannot fault
    accessors = {}

    def inline_accessors(self, e, env):
        """`size()` / `x.size()` / `x.capacity()` … -> the accessor's return expression, re-based on the object"""
        if not isinstance(e, tuple):
            return e
        if e[0] == "mcall" or (e[0] == "call" and not e[2] and e[1] in self.accessors):
            name = e[2] if e[0] == "mcall" else e[1]
            if name not in self.accessors:
                raise Refuse(f"{self.fn}: call of `{name}()` is outside the translated subset")
            body = self.accessors[name]
            if e[0] == "call":
                return body
            obj = e[1]
            if obj[0] != "id" or env.get(obj[1]) != "arr":
                raise Refuse(f"{self.fn}: `.{name}()` on something that is not an Array parameter")

            def rebase(x):
                if not isinstance(x, tuple):
                    return x
                if x[0] == "id" and x[1] in ("_begin", "_end", "_capacity"):
                    return ("dot", obj, x[1])
                return tuple(rebase(y) if isinstance(y, tuple) else y for y in x)
            return rebase(body)
        return tuple(self.inline_accessors(y, env) if isinstance(y, tuple) else
                     ([self.inline_accessors(z, env) for z in y] if isinstance(y, list) else y) for y in e)

    def atom(self, e, env):
        k = e[0]
        if k == "num":
            return str(e[1]), "nat"
        if k == "id":
            if e[1] in env:
                if env[e[1]] == "arr":
                    raise Refuse(f"{self.fn}: Array parameter `{e[1]}` used as a value")
                return "v_" + e[1], env[e[1]]
            if e[1] == "_capacity":
                return "A.cap", "nat"
            raise Refuse(f"{self.fn}: unknown identifier `{e[1]}`")
        if k == "dot" and e[2] == "_capacity" and e[1][0] == "id" and env.get(e[1][1]) == "arr":
            return f"(AM.oth v_{e[1][1]} A).cap", "nat"
        if k == "dot" and e[2] == "item" and e[1][0] == "dot" and e[1][2] in ("_begin", "_end") and e[1][1][0] == "id" \
                and env.get(e[1][1][1]) == "arr":
            return f"(AM.oth v_{e[1][1][1]} A).{'begin' if e[1][2] == '_begin' else 'end_'}", "ptr"
        if k == "dot" and e[2] == "item" and e[1][0] == "id":
            b = e[1][1]
            if b == "_begin":
                return "A.begin", "ptr"
            if b == "_end":
                return "A.end_", "ptr"
            if self.params.get(b) == "iter":
                return "v_" + b, "ptr"
        if k == "addr" and e[1][0] == "id" and self.params.get(e[1][1]) == "ref":
            return "v_" + e[1][1], "ptr"
        return None

    guard_helper = None

    def bterm(self, e, env):
        k = e[0]
        if k == "call" and self.guard_helper and e[1] == self.guard_helper and len(e[2]) == 1:
            a = self.atom(e[2][0], env)
            if a is None or a[1] != "nat":
                raise Refuse(f"{self.fn}: argument of `{e[1]}`")
            return f"(!AM.needGrow A {a[0]})"     # the guard of reserve(usize): the model's rule (executed probe)
        if k == "bin" and e[1] in ("==", "!=") and e[2] == ("id", "this") and e[3][0] == "addr" and e[3][1][0] == "id" \
                and env.get(e[3][1][1]) == "arr":
            t = f"(v_{e[3][1][1]}).isNone"           # the argument is the object itself
            return t if e[1] == "==" else f"(!{t})"
        if k == "not":
            return f"(!{self.bterm(e[1], env)})"
        if k == "bin" and e[1] in ("&&", "||"):
            return f"({self.bterm(e[2], env)} {e[1]} {self.bterm(e[3], env)})"
        if k == "bin" and e[1] in ("<", ">", "<=", ">=", "==", "!="):
            a, b = self.atom(e[2], env), self.atom(e[3], env)
            if a is None or b is None:
                raise Refuse(f"{self.fn}: comparison of something other than variables / members / numbers")
            (ta, tya), (tb, tyb) = a, b
            op = e[1]
            if tya == "ptr" and tyb == "nat" and tb == "0":
                tb, tyb = "none", "ptr"
            if tya == "ptr" and tyb == "ptr":
                f = {"<": f"AM.plt {ta} {tb}", ">": f"AM.plt {tb} {ta}", ">=": f"AM.pge {ta} {tb}", "<=": f"AM.pge {tb} {ta}",
                     "==": f"AM.peq {ta} {tb}", "!=": f"AM.pne {ta} {tb}"}[op]
                return f"({f})"
            if tya == "nat" and tyb == "nat":
                lop = {"<": "<", ">": ">", "<=": "≤", ">=": "≥", "==": "=", "!=": "≠"}[op]
                return f"(decide ({ta} {lop} {tb}))"
            raise Refuse(f"{self.fn}: comparison `{op}` between {tya} and {tyb}")
        a = self.atom(e, env)
        if a is None:
            raise Refuse(f"{self.fn}: condition `{e[0]}` is outside the translated subset")
        t, ty = a
        if ty == "ptr":
            return f"({t}).isSome"
        if ty == "nat":
            return f"(decide ({t} ≠ 0))"
        raise Refuse(f"{self.fn}: condition of type {ty}")

    # ---- expressions, continuation-passing: k(term, type, ind) -> lines
    def fault(self, call, pat, ind, k):
        return [f"{ind}match {call} with", f"{ind}| none => none", f"{ind}| some {pat} =>"] + k(ind + "  ")

    def ev(self, e, env, ind, k):
        kind = e[0]
        a = self.atom(e, env)
        if a is not None:
            return k(a[0], a[1], ind)
        if kind == "deref":
            def after(t, ty, i):
                if ty != "ptr":
                    raise Refuse(f"{self.fn}: `*` applied to a value of type {ty}")
                x = self.fresh()
                return self.fault(f"AM.rd M {t}", x, i, lambda i2: k(x, "val", i2))
            return self.ev(e[1], env, ind, after)
        if kind == "bin":
            op, ea, eb = e[1], e[2], e[3]
            if op not in ("+", "-"):
                return k(self.bterm(e, env), "bool", ind)
            if has_effects(ea) or has_effects(eb):
                raise Refuse(f"{self.fn}: operand of `{op}` with a side effect")

            def after_a(ta, tya, i1):
                def after_b(tb, tyb, i2):
                    x = self.fresh()
                    if op == "+" and tya == "nat" and tyb == "nat":
                        return k(f"({ta} + {tb})", "nat", i2)
                    if op == "+" and tya == "ptr" and tyb == "nat":
                        return self.fault(f"AM.padd {ta} {tb}", x, i2, lambda i3: k(x, "ptr", i3))
                    if op == "+" and tya == "nat" and tyb == "ptr":
                        return self.fault(f"AM.padd {tb} {ta}", x, i2, lambda i3: k(x, "ptr", i3))
                    if op == "-" and tya == "ptr" and tyb == "ptr":
                        return self.fault(f"AM.pdiff {ta} {tb}", x, i2, lambda i3: k(x, "nat", i3))
                    if op == "-" and tya == "ptr" and tb == "1":
                        return self.fault(f"AM.pdec {ta}", x, i2, lambda i3: k(x, "ptr", i3))
                    raise Refuse(f"{self.fn}: `{tya} {op} {tyb}` is outside the translated subset")
                return self.ev(eb, env, i1, after_b)
            return self.ev(ea, env, ind, after_a)
        if kind in ("preinc", "predec"):
            lv = self.lvalue(e[1], env)
            t, ty = self.atom(e[1], env)
            if ty == "nat":
                if kind == "predec":
                    raise Refuse(f"{self.fn}: `--` on a usize")
                x = self.fresh()
                return [f"{ind}let {x} := {t} + 1"] + self.store(lv, x, "nat", env, ind, lambda i: k(x, "nat", i))
            x = self.fresh()
            call = f"AM.padd {t} 1" if kind == "preinc" else f"AM.pdec {t}"
            return self.fault(call, x, ind, lambda i: self.store(lv, x, "ptr", env, i, lambda i2: k(x, "ptr", i2)))
        if kind == "assign":
            lhs, rhs = e[1], e[2]
            if lhs[0] == "deref":
                if has_effects(lhs[1]):
                    raise Refuse(f"{self.fn}: assignment through a pointer expression with a side effect")

                def after_rhs(t, ty, i):
                    if ty != "val":
                        raise Refuse(f"{self.fn}: a value of type {ty} assigned to an element")
                    return self.ev(lhs[1], env, i, lambda tp, typ, i2: self.fault(f"AM.asg M {tp} {t}", "M", i2, lambda i3: k(t, "val", i3)))
                return self.ev(rhs, env, ind, after_rhs)
            lv = self.lvalue(lhs, env)

            def after_rhs2(t, ty, i):
                if lv[2] == "ptr" and ty == "nat" and t == "0":
                    t, ty = "none", "ptr"
                x = self.fresh()
                return [f"{i}let {x} := {t}"] + self.store(lv, x, ty, env, i, lambda i2: k(x, ty, i2))
            return self.ev(rhs, env, ind, after_rhs2)
        if kind == "alloc":
            def after_n(t, ty, i):
                if ty != "nat":
                    raise Refuse(f"{self.fn}: allocation size of type {ty}")
                x = self.fresh()
                return [f"{i}let {x} := AM.allocPtr M", f"{i}let M := AM.alloc M {t}"] + k(x, "ptr", i)
            return self.ev(e[1], env, ind, after_n)
        if kind == "call":
            name, args = e[1], e[2]
            key = (name, len(args))
            if key not in self.callees:
                raise Refuse(f"{self.fn}: call of `{name}` with {len(args)} argument(s) is outside the translated subset")
            lean, ptys, rty = self.callees[key]
            if any(has_effects(x) for x in args):
                raise Refuse(f"{self.fn}: argument of `{name}` with a side effect")
            terms = []

            def go(j, i):
                if j == len(args):
                    call = f"{lean} fuel M A " + " ".join(terms)
                    if rty is None:
                        return self.fault(call, "(M, A)", i, lambda i2: k("()", "void", i2))
                    x = self.fresh()
                    return self.fault(call, f"(M, A, {x})", i, lambda i2: k(x, rty, i2))

                def after(t, ty, i2):
                    if ty != ptys[j]:
                        raise Refuse(f"{self.fn}: argument {j + 1} of `{name}` has type {ty}, expected {ptys[j]}")
                    terms.append(t if re.fullmatch(r"[\w.]+", t) else f"({t})")
                    return go(j + 1, i2)
                return self.ev(args[j], env, i, after)
            return go(0, ind)
        raise Refuse(f"{self.fn}: expression `{kind}` is outside the translated subset")

    def lvalue(self, e, env):
        """('local', name, ty) | ('member', field, ty)"""
        if e[0] == "id" and e[1] in env:
            return ("local", e[1], env[e[1]])
        if e[0] == "id" and e[1] == "_capacity":
            return ("member", "cap", "nat")
        if e[0] == "dot" and e[2] == "item" and e[1] == ("id", "_begin"):
            return ("member", "begin", "ptr")
        if e[0] == "dot" and e[2] == "item" and e[1] == ("id", "_end"):
            return ("member", "end_", "ptr")
        raise Refuse(f"{self.fn}: `{e[0]}` is not an assignable variable / member of the translated subset")

    def store(self, lv, term, ty, env, ind, k):
        if ty != lv[2]:
            raise Refuse(f"{self.fn}: a value of type {ty} stored into `{lv[1]}` of type {lv[2]}")
        if lv[0] == "local":
            return [f"{ind}let v_{lv[1]} := {term}"] + k(ind)
        return [f"{ind}let A := {{ A with {lv[1]} := {term} }}"] + k(ind)

    # ---- statements
    @staticmethod
    def restrict(env, outer):
        return {n: t for n, t in env.items() if n in outer}

    def run(self, stmts, env, ind, tail):
        if not stmts:
            return tail(env, ind)
        s, rest = stmts[0], stmts[1:]
        cont = lambda env2, ind2: self.run(rest, env2, ind2, tail)
        k = s[0]
        if k in ("expr", "return", "delete") and s[1] is not None:
            s = (k, self.inline_accessors(s[1], env))
        elif k == "if":
            s = (k, self.inline_accessors(s[1], env), s[2], s[3])
        elif k == "for":
            s = (k, s[1], self.inline_accessors(s[2], env) if s[2] else None, [self.inline_accessors(x, env) for x in s[3]], s[4])
        elif k == "decl":
            s = (k, [(ty, n, self.inline_accessors(i, env) if i is not None else None) for ty, n, i in s[1]])
        if k == "block":
            return self.run(list(s[1]), dict(env), ind, lambda env2, ind2: cont(self.restrict(env2, env), ind2))
        if k == "decl":
            def go(j, env2, i):
                if j == len(s[1]):
                    return cont(env2, i)
                ty, name, init = s[1][j]
                if ty not in ("ptr", "nat"):
                    raise Refuse(f"{self.fn}: local `{name}` that is neither a `T*` nor a `usize` is outside the translated subset")
                if name in env2 or name in ("M", "A", "fuel"):
                    raise Refuse(f"{self.fn}: `{name}` declared twice")
                env3 = dict(env2)
                env3[name] = ty
                if init is None:
                    if ty != "ptr":
                        raise Refuse(f"{self.fn}: uninitialised `usize {name}`")
                    return [f"{i}let v_{name} : Option P := none"] + go(j + 1, env3, i)

                def after(t, ety, i2):
                    if ty == "ptr" and ety == "nat" and t == "0":
                        t, ety = "none", "ptr"
                    if ety != ty:
                        raise Refuse(f"{self.fn}: `{name}` ({ty}) initialised with a value of type {ety}")
                    return [f"{i2}let v_{name} := {t}"] + go(j + 1, env3, i2)
                return self.ev(init, env2, i, after)
            return go(0, env, ind)
        if k == "if":
            c = self.bterm(s[1], env)
            back = lambda env2, ind2: cont(self.restrict(env2, env), ind2)
            return ([f"{ind}if {c} then"] + self.run([s[2]], dict(env), ind + "  ", back) +
                    [f"{ind}else"] + self.run([s[3]], dict(env), ind + "  ", back))
        if k == "return":
            if self.in_loop:
                raise Refuse(f"{self.fn}: `return` inside a loop is outside the translated subset")
            if self.ret == "self":
                if s[1] != ("deref", ("id", "this")):
                    raise Refuse(f"{self.fn}: returns something other than `*this`")
                return [f"{ind}{self.result()}"]
            if s[1] is None:
                if self.ret not in (None, "ctor"):
                    raise Refuse(f"{self.fn}: `return;` in a function that returns a value")
                return [f"{ind}{self.result()}"]
            if self.ret is None:
                raise Refuse(f"{self.fn}: value returned from a void function")
            e = s[1]
            if self.ret == "ref":
                if e[0] != "deref":
                    raise Refuse(f"{self.fn}: a reference is returned that is not `*pointer`")
                e = e[1]

            def after(t, ty, i):
                if ty != "ptr":
                    raise Refuse(f"{self.fn}: returns a value of type {ty}")
                return [f"{i}{self.result(t)}"]
            return self.ev(e, env, ind, after)
        if k == "delete":
            return self.ev(s[1], env, ind, lambda t, ty, i: self.fault(f"AM.del M {t}", "M", i, lambda i2: cont(env, i2)))
        if k == "expr":
            e = s[1]
            if e[0] == "construct":
                if has_effects(e[1]) or has_effects(e[2]):
                    raise Refuse(f"{self.fn}: placement-new with a side effect in its operands")

                def after_src(ts, tys, i):
                    v = self.fresh()
                    return self.fault(f"AM.rd M {ts}", v, i, lambda i2: self.ev(
                        e[1], env, i2, lambda td, tyd, i3: self.fault(f"AM.con M {td} {v}", "M", i3, lambda i4: cont(env, i4))))
                return self.ev(e[2], env, ind, after_src)
            if e[0] == "destroy":
                return self.ev(e[1], env, ind, lambda t, ty, i: self.fault(f"AM.des M {t}", "M", i, lambda i2: cont(env, i2)))
            if not has_effects(e):
                raise Refuse(f"{self.fn}: expression statement without effect")
            return self.ev(e, env, ind, lambda t, ty, i: cont(env, i))
        if k == "for":
            init, cond, steps, body = s[1], s[2], s[3], s[4]
            if cond is None:
                raise Refuse(f"{self.fn}: loop without a condition")

            def after_init(env1, ind1):
                self.nloop += 1
                name = f"{self.lean_name}_loop{self.nloop}"
                vs = list(env1.items())
                names = " ".join("v_" + n for n, _ in vs)
                tup = ", ".join(["M", "A"] + ["v_" + n for n, _ in vs])
                rty = " × ".join(["Mem", "Arr"] + [LEAN_TY[t] for _, t in vs])
                c = self.bterm(cond, env1)
                self.in_loop += 1
                inner = self.run([body] + [("expr", x) for x in steps], dict(env1), "      ",
                                 lambda env2, ind2: [f"{ind2}{name} fuel M A {names}".rstrip()])
                self.in_loop -= 1
                sig = " → ".join(["Nat", "Mem", "Arr"] + [LEAN_TY[t] for _, t in vs] + [f"Option ({rty})"])
                self.loops.append([f"def {name} : {sig}",
                                   "  | 0, " + ", ".join(["_"] * (2 + len(vs))) + " => none",
                                   f"  | fuel + 1, {tup} =>",
                                   f"    if {c} then"] + inner + ["    else", f"      some ({tup})", ""])
                return ([f"{ind1}match {name} fuel M A {names} with".replace("  with", " with"), f"{ind1}| none => none",
                         f"{ind1}| some ({tup}) =>"] + cont(self.restrict(env1, env), ind1 + "  "))
            return self.run([init] if init else [], dict(env), ind, after_init)
        raise Refuse(f"{self.fn}: statement `{k}`")


def split_reserve(toks):
    """body of reserve(usize) = `if(<guard>) { <capacity policy> T* x = (T*)new char[…]; <rest> }` -> tokens from the
    allocation statement on.  The guard and the policy may only read `size`, `_capacity`, `_begin.item` and assign `_capacity`."""
    fn = "Array::reserve"
    if toks[:2] != ["if", "("]:
        raise Refuse(f"{fn}: the body does not start with `if(`")
    depth, j = 0, 1
    while True:
        if toks[j] == "(":
            depth += 1
        elif toks[j] == ")":
            depth -= 1
            if depth == 0:
                break
        j += 1
    guard = toks[2:j]
    if toks[j + 1] != "{" or toks[-1] != "}":
        raise Refuse(f"{fn}: the guarded statement is not one block that ends the function")
    return split_block(guard, toks[j + 2:-1])


POLICY_ALLOWED = {"if", "else", "(", ")", "{", "}", "size", "_capacity", "_begin", ".", "item", "!", "&&", "||", ">", "<", ">=", "<=",
                  "==", "!=", "?", ":", ";", "+", "-", "&", "|", "^", "~", "*", "/", "%", "=", "|=", "+=", "-=", "&="}


def policy_only(policy, fn):
    for q, tok in enumerate(policy):
        if tok not in POLICY_ALLOWED and not re.fullmatch(r"\d+|0[xX][0-9a-fA-F]+", tok):
            raise Refuse(f"{fn}: token `{tok}` in the guard / capacity computation (only size, _capacity, _begin.item may be used)")
        if tok in ("=", "|=", "+=", "-=", "&=") and (q == 0 or policy[q - 1] != "_capacity"):
            raise Refuse(f"{fn}: the guard / capacity computation assigns something other than `_capacity`")


def split_block(guard, inner):
    """`<capacity policy> T* x = (T*)new char[…]; <rest>` -> the tokens from the allocation statement on"""
    fn = "Array::reserve"
    depth = 0
    for k in range(len(inner)):
        if inner[k] == "{":
            depth += 1
        elif inner[k] == "}":
            depth -= 1
        if depth < 0:
            raise Refuse(f"{fn}: statements after the guarded block")
    pat = ["T", "*", None, "=", "(", "T", "*", ")", "new", "char", "["]
    at = None
    depth = 0
    for k in range(len(inner) - len(pat)):
        if inner[k] == "{":
            depth += 1
        elif inner[k] == "}":
            depth -= 1
        if depth == 0 and (k == 0 or inner[k - 1] in (";", "}")) and all(p is None or inner[k + q] == p for q, p in enumerate(pat)):
            at = k
            break
    if at is None:
        raise Refuse(f"{fn}: no statement `T* x = (T*)new char[…];` at the top level of the guarded block")
    policy_only(guard + inner[:at], fn)
    return inner[at:]


def reserve_parts(src, toks):
    """reserve(usize) is either `if(<guard>) { <policy> <allocation> <rest> }` or `if(!G(size)) H(size);` with the helpers
    `bool G(usize size) const {return <guard expression>;}` and `void H(usize size) { <policy> <allocation> <rest> }`.
    Returns (tokens from the allocation statement on, name of H or None, name of G or None)."""
    fn = "Array::reserve"
    if len(toks) == 13 and toks[:3] == ["if", "(", "!"] and toks[4:8] == ["(", "size", ")", ")"] and toks[9:] == ["(", "size", ")", ";"]:
        g, hname = toks[3], toks[8]
        mg = list(re.finditer(r"bool\s+" + g + r"\s*\(\s*usize\s+size\s*\)\s*(?:const\s*)?\{\s*return\s+([^;{}]*);\s*\}", src))
        mh = list(re.finditer(r"void\s+" + hname + r"\s*\(\s*usize\s+size\s*\)\s*\{", src))
        if len(mg) != 1 or len(mh) != 1:
            raise Refuse(f"{fn}: helpers `{g}` / `{hname}` not found in the understood form")
        guard = atokenize(mg[0].group(1))
        body = src[mh[0].end():balanced(src, mh[0].end() - 1) - 1]
        if "#" in body:
            raise Refuse(f"{fn}: preprocessor directive inside `{hname}`")
        return split_block(guard, atokenize(body)), hname, g
    return split_reserve(toks), None, None


AFUNCS = [
    # (C++ name for messages, lean name, signature regex, params [(name, kind)], return kind)
    ("Array::reserve(usize)", "reserve", r"void\s+reserve\s*\(\s*usize\s+size\s*\)", [("size", "nat")], None),
    ("Array::reserve(usize, const T*)", "reserve2", r"const\s+T\s*\*\s*reserve\s*\(\s*usize\s+size\s*,\s*const\s+T\s*\*\s*ref\s*\)",
     [("size", "nat"), ("ref", "ptr")], "ptr"),
    ("Array::resize", "resize", r"void\s+resize\s*\(\s*usize\s+size\s*,\s*const\s+T\s*&\s*value(?:\s*=\s*T\s*\(\s*\))?\s*\)",
     [("size", "nat"), ("value", "ref")], None),
    ("Array::clear", "clear", r"void\s+clear\s*\(\s*\)", [], None),
    ("Array::append(const T&)", "appendValue", r"T\s*&\s*append\s*\(\s*const\s+T\s*&\s*value\s*\)", [("value", "ref")], "ref"),
    ("Array::append(const T*, usize)", "appendPtr", r"void\s+append\s*\(\s*const\s+T\s*\*\s*values\s*,\s*usize\s+size\s*\)",
     [("values", "ptr"), ("size", "nat")], None),
    ("Array::append(const Array&)", "appendArray", r"void\s+append\s*\(\s*const\s+Array\s*&\s*values\s*\)", [("values", "arr")], None),
    ("Array::remove(usize)", "removeIndex", r"void\s+remove\s*\(\s*usize\s+index\s*\)", [("index", "nat")], None),
    ("Array::remove(const Iterator&)", "removeIter", r"Iterator\s+remove\s*\(\s*const\s+Iterator\s*&\s*it\s*\)", [("it", "iter")], "ptr"),
    ("Array::Array(const Array&)", "copyCtor", r"Array\s*\(\s*const\s+Array\s*&\s*other\s*\)\s*:\s*_capacity\s*\(\s*0\s*\)",
     [("other", "arr")], "ctor"),
    ("Array::operator=", "assign", r"Array\s*&\s*operator\s*=\s*\(\s*const\s+Array\s*&\s*other\s*\)", [("other", "arr")], "self"),
]
ACALLEES = {("reserve", 1): ("reserve", ["nat"], None), ("reserve", 2): ("reserve2", ["nat", "ptr"], "ptr"),
            ("clear", 0): ("clear", [], None)}


def generate_array(repo, out_path):
    """include/nstd/Array.hpp -> out_path (written only when the content changes); returns a summary; raises Refuse"""
    src = resolve_verify(strip_comments((Path(repo) / "include/nstd/Array.hpp").read_text()))
    parts = ["/- generated by tools/gen_seq.py from include/nstd/Array.hpp - do not edit -/",
             "import Nstd.Seq.ArrMem", "", "set_option linter.unusedVariables false", "",
             "namespace Nstd.Generated.SeqArr", "open Nstd.Seq", "open Nstd.Seq.AM (Mem Arr P)", "open Nstd.Seq.Raw (Cells)", "",
             "variable [ArrCfg]", ""]
    summary = []
    callees = dict(ACALLEES)
    TrA.guard_helper = None
    for fn, lean, rx, params, ret in AFUNCS:
        body = extract(src, fn, rx)
        if "#" in body:
            raise Refuse(f"{fn}: preprocessor directive inside the body")
        toks = atokenize(body)
        header = []
        if lean == "reserve":
            toks, grow_name, guard_name = reserve_parts(src, toks)
            callees = dict(ACALLEES)
            if grow_name:
                callees[(grow_name, 1)] = ("grow", ["nat"], None)
            TrA.guard_helper = guard_name
        p = AP(toks, fn)
        stmts = p.stmts()
        if p.peek() is not None:
            raise Refuse(f"{fn}: trailing tokens")
        loops = []
        tr = TrA(fn, "grow" if lean == "reserve" else lean, {n: k for n, k in params}, ret, callees, loops)
        env = {n: ("ptr" if k in ("ptr", "ref", "iter") else "arr" if k == "arr" else "nat") for n, k in params}
        TrA.accessors = {}
        for acc in ("size", "capacity"):
            mm = re.search(r"usize\s+" + acc + r"\s*\(\s*\)\s*const\s*\{\s*return\s+([^;{}]*);\s*\}", src)
            if mm:
                ap = AP(atokenize(mm.group(1)), "Array::" + acc)
                TrA.accessors[acc] = ap.expr()
                if ap.peek() is not None:
                    raise Refuse(f"Array::{acc}(): trailing tokens")

        def tail(env2, ind2, tr=tr, fn=fn):
            if tr.ret not in (None, "ctor"):
                raise Refuse(f"{fn}: control reaches the end of a function that returns a value")
            return [f"{ind2}{tr.result()}"]
        sig = "".join(f" (v_{n} : {LEAN_TY[env[n]]})" for n, _ in params)
        rty = "Option (Mem × Arr)" if ret in (None, "ctor", "self") else "Option (Mem × Arr × Option P)"
        if lean == "reserve":
            lines = tr.run(stmts, env, "    ", tail)
            lines = (["  -- capacity rounding: NOT translated (the model's rule; tied by the executed probe, SeqConst.lean)",
                      "  let A := { A with cap := (if v_size > A.cap then v_size else A.cap) ||| ArrCfg.mask }"] +
                     [l[2:] for l in lines])
        else:
            lines = tr.run(stmts, env, "  ", tail)
            if ret == "ctor":
                lines = ["  -- a fresh object: the two iterators are default-constructed (null), `_capacity(0)` from the initialiser list",
                         "  let A : Arr := { begin := none, end_ := none, cap := 0 }"] + lines
        parts += [f"/-! ### {fn} -/"]
        for l in loops:
            parts += l
        if lean == "reserve":
            parts += ["/-- the part of `reserve(usize)` behind its guard (in the header: the guarded block, or a helper function) -/",
                      f"def grow (fuel : Nat) (M : Mem) (A : Arr){sig} : {rty} :="] + lines + [""]
            parts += ["/-- the guard is NOT translated: the model's rule `AM.needGrow` (tied by the executed probe) -/",
                      f"def reserve (fuel : Nat) (M : Mem) (A : Arr){sig} : {rty} :=",
                      "  if AM.needGrow A v_size then grow fuel M A v_size else some (M, A)", ""]
        else:
            parts += [f"def {lean} (fuel : Nat) (M : Mem) (A : Arr){sig} : {rty} :="] + lines + [""]
        summary.append(f"{fn}:{len(stmts)} stmts/{len(loops)} loop(s)")
    parts += ["end Nstd.Generated.SeqArr", ""]
    text = "\n".join(parts)
    out_path = Path(out_path)
    out_path.parent.mkdir(parents=True, exist_ok=True)
    if not out_path.exists() or out_path.read_text() != text:
        out_path.write_text(text)
    return ", ".join(summary)



# ======================================================================================================================
# Part 3: the quicksort of List::sort (struct QuickSort: swap, sort) -> lean/Nstd/Generated/SeqSort.lean
#
# Functions over the heap `PtrG.GHeap α` (value : address → α, next : address → Option address) of lean/Nstd/Seq/PtrSortG.lean,
# generic in the element type, `operator<` = the parameter `lt`.  An `Item*` local / parameter is a non-null address (Nat):
# assigning a null `x->next` to it is a fault (`none`); `const T& pivot = left->value` is a reference: every use re-reads
# `left->value`; `T tmp = a->value` is a value.  The do-while loop and the recursion take a fuel argument.
# lean/Nstd/Seq/PropsSortT.lean proves: translated swap = `PtrG.swapVal`, translated partition loop = `PtrG.ploopG`,
# translated sort = `PtrG.qsortG` — for every heap, comparison function and element type.
class TrS:
    def __init__(self, fn, lean_name, recursive, helpers=None, outs=(), ret_item=False):
        self.fn, self.lean_name, self.recursive = fn, lean_name, recursive
        self.helpers = helpers or {}          # name -> (number of in-parameters, number of out-parameters, returns an item)
        self.outs, self.ret_item = list(outs), ret_item
        self.in_tail = 0
        self.used_dowhile = False
        self.n = 0
        self.nloop = 0
        self.loops = []
        self.in_loop = 0

    def fresh(self):
        self.n += 1
        return f"t{self.n}"

    def fuel_here(self):
        return "fuel" if (self.in_loop or not self.recursive) else "(fuel + 1)"

    # env: name -> ("item", assigned) | ("val",) | ("ref", address variable)
    def pure(self, e, env):
        """side-effect free, non-faulting term: (term, type)"""
        if e[0] == "id" and e[1] in env:
            k = env[e[1]]
            if k[0] == "item":
                if not k[1]:
                    raise Refuse(f"{self.fn}: `{e[1]}` used before it is assigned")
                return "v_" + e[1], "item"
            if k[0] == "val":
                return "v_" + e[1], "val"
            return f"(p.val v_{k[1]})", "val"
        if e[0] == "arrow" and e[2] == "value":
            t, ty = self.pure(e[1], env)
            if ty != "item":
                raise Refuse(f"{self.fn}: `->value` on a {ty}")
            return f"(p.val {t})", "val"
        raise Refuse(f"{self.fn}: expression `{e[0]}` is outside the translated subset (or not free of faults here)")

    def cond(self, e, env):
        if e[0] == "bin" and e[1] in ("<", "!=", "=="):
            (ta, tya), (tb, tyb) = self.pure(e[2], env), self.pure(e[3], env)
            if e[1] == "<" and tya == tyb == "val":
                return f"lt {ta} {tb}"
            if e[1] in ("!=", "==") and tya == tyb == "item":
                return f"{ta} {'≠' if e[1] == '!=' else '='} {tb}"
        raise Refuse(f"{self.fn}: condition outside the translated subset (`<` on values, `!=`/`==` on item pointers)")

    def ev(self, e, env, ind, k):
        """k(term, type, env, ind)"""
        if e[0] == "arrow" and e[2] == "next":
            t, ty = self.pure(e[1], env)
            if ty != "item":
                raise Refuse(f"{self.fn}: `->next` on a {ty}")
            x = self.fresh()
            return [f"{ind}match p.next {t} with", f"{ind}| none => none", f"{ind}| some {x} =>"] + k(x, "item", env, ind + "  ")
        if e[0] == "assign":
            lhs, rhs = e[1], e[2]

            def after(t, ty, env2, i):
                if lhs[0] == "id" and lhs[1] in env2 and env2[lhs[1]][0] in ("item", "val"):
                    kind = env2[lhs[1]][0]
                    if kind != ty:
                        raise Refuse(f"{self.fn}: a {ty} assigned to the {kind} `{lhs[1]}`")
                    if any(v[0] == "ref" and v[1] == lhs[1] for v in env2.values()):
                        raise Refuse(f"{self.fn}: `{lhs[1]}` is assigned while a reference is bound through it")
                    env3 = dict(env2)
                    if kind == "item":
                        env3[lhs[1]] = ("item", True)
                    return [f"{i}let v_{lhs[1]} := {t}"] + k(f"v_{lhs[1]}", ty, env3, i)
                if lhs[0] == "arrow" and lhs[2] == "value":
                    a, aty = self.pure(lhs[1], env2)
                    if aty != "item" or ty != "val":
                        raise Refuse(f"{self.fn}: assignment `{aty}->value = {ty}`")
                    x = self.fresh()
                    return [f"{i}let {x} := {t}", f"{i}let p := {{ p with val := Ptr.set p.val {a} {x} }}"] + k(x, "val", env2, i)
                raise Refuse(f"{self.fn}: assignment to something that is not a local or `->value`")
            return self.ev(rhs, env, ind, after)
        if e[0] == "call" and e[1] in self.helpers:
            name, args = e[1], e[2]
            nin, nout, ritem = self.helpers[name]
            if len(args) != nin + nout:
                raise Refuse(f"{self.fn}: `{name}` called with {len(args)} arguments")
            ts = []
            for a in args[:nin]:
                t, ty = self.pure(a, env)
                if ty != "item":
                    raise Refuse(f"{self.fn}: argument of `{name}` is not an item pointer")
                ts.append(t)
            onames = []
            for a in args[nin:]:
                if a[0] != "id" or env.get(a[1], ("?",))[0] != "item" or a[1] in onames:
                    raise Refuse(f"{self.fn}: out-argument of `{name}` is not a distinct item pointer variable")
                if any(v[0] == "ref" and v[1] == a[1] for v in env.values()):
                    raise Refuse(f"{self.fn}: `{a[1]}` is passed by reference while a reference is bound through it")
                onames.append(a[1])
            x = self.fresh()
            env2 = dict(env)
            for o in onames:
                env2[o] = ("item", True)
            pat = ", ".join(["p"] + ([x] if ritem else []) + ["v_" + o for o in onames])
            return ([f"{ind}match {name} lt {self.fuel_here()} p {' '.join(ts)} with", f"{ind}| none => none", f"{ind}| some ({pat}) =>"] +
                    k(x if ritem else "()", "item" if ritem else "void", env2, ind + "  "))
        if e[0] == "call":
            name, args = e[1], e[2]
            if name not in ("swap", "sort") or len(args) != 2:
                raise Refuse(f"{self.fn}: call of `{name}` is outside the translated subset")
            ts = []
            for a in args:
                t, ty = self.pure(a, env)
                if ty != "item":
                    raise Refuse(f"{self.fn}: argument of `{name}` is not an item pointer")
                ts.append(t)
            if name == "sort":
                if not self.recursive or self.in_loop:
                    raise Refuse(f"{self.fn}: recursive call in an unexpected place")
                call = f"sort lt fuel p {ts[0]} {ts[1]}"
            else:
                call = f"swap p {ts[0]} {ts[1]}"
            return [f"{ind}match {call} with", f"{ind}| none => none", f"{ind}| some p =>"] + k("()", "void", env, ind + "  ")
        t, ty = self.pure(e, env)
        return k(t, ty, env, ind)

    @staticmethod
    def restrict(env, outer):
        return {n: (env[n] if n in env else outer[n]) for n in outer}

    def finish(self, e, env, ind):
        """`return [e];` / the end of the function: the heap, the returned item, the out-parameters"""
        for o in self.outs:
            if not env[o][1]:
                raise Refuse(f"{self.fn}: out-parameter `{o}` is not assigned on every path")
        extra = ["v_" + o for o in self.outs]
        if self.ret_item:
            if e is None:
                raise Refuse(f"{self.fn}: `return;` in a function that returns an item")
            t, ty = self.pure(e, env)
            if ty != "item":
                raise Refuse(f"{self.fn}: returns a {ty}")
            extra = [t] + extra
        elif e is not None:
            raise Refuse(f"{self.fn}: value returned from a void function")
        return [f"{ind}some " + ("p" if not extra else "(" + ", ".join(["p"] + extra) + ")")]

    def run(self, stmts, env, ind, tail):
        if not stmts:
            return tail(env, ind)
        s, rest = stmts[0], stmts[1:]
        cont = lambda env2, ind2: self.run(rest, env2, ind2, tail)
        k = s[0]
        if k == "block":
            return self.run(list(s[1]), dict(env), ind, lambda env2, ind2: cont(self.restrict(env2, env), ind2))
        if k == "decl":
            def go(j, env2, i):
                if j == len(s[1]):
                    return cont(env2, i)
                ty, name, init = s[1][j]
                if name in env2 or name in ("p", "fuel", "lt"):
                    raise Refuse(f"{self.fn}: `{name}` declared twice")
                env3 = dict(env2)
                if ty == "item":
                    if init is None:
                        env3[name] = ("item", False)
                        return go(j + 1, env3, i)

                    def after(t, ety, env4, i2):
                        if ety != "item":
                            raise Refuse(f"{self.fn}: `Item* {name}` initialised with a {ety}")
                        env5 = dict(env4)
                        env5[name] = ("item", True)
                        return [f"{i2}let v_{name} := {t}"] + go(j + 1, env5, i2)
                    return self.ev(init, env2, i, after)
                if ty == "val":
                    if init is None:
                        raise Refuse(f"{self.fn}: uninitialised `T {name}`")

                    def after(t, ety, env4, i2):
                        if ety != "val":
                            raise Refuse(f"{self.fn}: `T {name}` initialised with a {ety}")
                        env5 = dict(env4)
                        env5[name] = ("val",)
                        return [f"{i2}let v_{name} := {t}"] + go(j + 1, env5, i2)
                    return self.ev(init, env2, i, after)
                if ty == "ref":
                    if init is None or init[0] != "arrow" or init[2] != "value" or init[1][0] != "id" or \
                            env2.get(init[1][1], ("?",))[0] != "item":
                        raise Refuse(f"{self.fn}: reference `{name}` not bound to `<item pointer variable>->value`")
                    env3[name] = ("ref", init[1][1])
                    return go(j + 1, env3, i)
                raise Refuse(f"{self.fn}: declaration of `{name}` is outside the translated subset")
            return go(0, env, ind)
        if k == "if":
            c = self.cond(s[1], env)
            back = lambda env2, ind2: cont(self.restrict(env2, env), ind2)
            return ([f"{ind}if {c} then"] + self.run([s[2]], dict(env), ind + "  ", back) +
                    [f"{ind}else"] + self.run([s[3]], dict(env), ind + "  ", back))
        if k == "expr":
            if s[1][0] not in ("assign", "call"):
                raise Refuse(f"{self.fn}: expression statement without effect")
            return self.ev(s[1], env, ind, lambda t, ty, env2, i: cont(env2, i))
        if k == "return":
            if self.in_loop:
                raise Refuse(f"{self.fn}: `return` inside a loop that is not the function's outer `for(;;)`")
            return self.finish(s[1], env, ind)
        if k == "for" and s[2] is None:
            # `for(;;) { … }` as the whole rest of a recursive function: one turn = one invocation; falling off the body = the
            # (tail) call of the function itself with the current values of its parameters, `return` = return
            if s[1] is not None or s[3] or rest or not self.recursive or self.in_loop or self.in_tail:
                raise Refuse(f"{self.fn}: `for(;;)` that is not the whole remaining body of the recursive function")
            self.in_tail += 1
            out = self.run([s[4]], dict(env), ind, lambda env2, ind2: [f"{ind2}{self.lean_name} lt fuel p v_left v_right"])
            self.in_tail -= 1
            return out
        if k == "for":
            init, c, steps, body = s[1], s[2], s[3], s[4]

            def after_init(env1, ind1):
                items = [n for n, v in env1.items() if v[0] == "item" and v[1]]
                if any(v[0] == "val" for v in env1.values()):
                    raise Refuse(f"{self.fn}: value local alive across the loop")
                self.nloop += 1
                name = f"{self.lean_name}_loop{self.nloop}"
                names = " ".join("v_" + n for n in items)
                tup = ", ".join(["p"] + ["v_" + n for n in items])
                self.in_loop += 1
                inner = self.run([body] + [("expr", x) for x in steps], dict(env1), "      ",
                                 lambda env2, ind2: [f"{ind2}{name} lt fuel p {names}"])
                self.in_loop -= 1
                sig = " → ".join(["Nat", "GHeap α"] + ["Nat"] * len(items) + ["Option (" + " × ".join(["GHeap α"] + ["Nat"] * len(items)) + ")"])
                self.loops.append([f"def {name} (lt : α → α → Bool) : {sig}",
                                   "  | 0, " + ", ".join(["_"] * (1 + len(items))) + " => none",
                                   f"  | fuel + 1, {tup} =>", f"    if {self.cond(c, env1)} then"] + inner +
                                  ["    else", f"      some ({tup})", ""])
                return ([f"{ind1}match {name} lt {self.fuel_here()} p {names} with", f"{ind1}| none => none", f"{ind1}| some ({tup}) =>"] +
                        cont(self.restrict(env1, env), ind1 + "  "))
            return self.run([init] if init else [], dict(env), ind, after_init)
        if k == "dowhile":
            self.used_dowhile = True
            body, c = s[1], s[2]
            items = [n for n, v in env.items() if v[0] == "item" and v[1]]
            if False:
                raise Refuse(f"{self.fn}: an item pointer is unassigned at the loop entry")
            if any(v[0] == "val" for v in env.values()):
                raise Refuse(f"{self.fn}: value local alive across the loop")
            self.nloop += 1
            name = f"{self.lean_name}_loop{self.nloop}"
            names = " ".join("v_" + n for n in items)
            tup = ", ".join(["p"] + ["v_" + n for n in items])

            def loop_tail(env2, ind2):
                cc = self.cond(c, env2)
                return [f"{ind2}if {cc} then {name} lt fuel p {names}", f"{ind2}else some ({tup})"]
            self.in_loop += 1
            inner = self.run([body], dict(env), "    ", lambda env2, ind2: loop_tail(self.restrict(env2, env), ind2))
            self.in_loop -= 1
            sig = " → ".join(["Nat", "GHeap α"] + ["Nat"] * len(items) + ["Option (" + " × ".join(["GHeap α"] + ["Nat"] * len(items)) + ")"])
            self.loops.append([f"def {name} (lt : α → α → Bool) : {sig}",
                               "  | 0, " + ", ".join(["_"] * (1 + len(items))) + " => none",
                               f"  | fuel + 1, {tup} =>"] + inner + [""])
            return ([f"{ind}match {name} lt {self.fuel_here()} p {names} with", f"{ind}| none => none", f"{ind}| some ({tup}) =>"] +
                    cont(env, ind + "  "))
        raise Refuse(f"{self.fn}: statement `{k}` is outside the translated subset")


def generate_sort(repo, out_path):
    """struct QuickSort of List::sort in include/nstd/List.hpp -> out_path; returns a summary; raises Refuse"""
    src = strip_comments((Path(repo) / "include/nstd/List.hpp").read_text())
    parts = ["/- generated by tools/gen_seq.py from include/nstd/List.hpp (List::sort, struct QuickSort) - do not edit -/",
             "import Nstd.Seq.PtrSortG", "", "set_option linter.unusedVariables false", "",
             "namespace Nstd.Generated.SeqSort", "open Nstd.Seq", "open Nstd.Seq.PtrG (GHeap)", "", "variable {α : Type}", ""]
    summary = []
    m0 = re.search(r"struct\s+QuickSort\s*\{", src)
    if not m0:
        raise Refuse("List::sort(): no `struct QuickSort`")
    sbody = src[m0.end():balanced(src, m0.end() - 1) - 1]
    funcs = []
    for m in re.finditer(r"static\s+(void|Item\s*\*)\s+(\w+)\s*\(([^)]*)\)\s*\{", sbody):
        ins, outs = [], []
        for prm in m.group(3).split(","):
            mm = re.fullmatch(r"\s*Item\s*\*\s*(&?)\s*(\w+)\s*", prm)
            if not mm or (mm.group(1) == "" and outs):
                raise Refuse(f"QuickSort::{m.group(2)}: parameter `{prm.strip()}` (understood: `Item* x` … then `Item*& y` …)")
            (outs if mm.group(1) else ins).append(mm.group(2))
        funcs.append((m.group(2), m.group(1) != "void", ins, outs, sbody[m.end():balanced(sbody, m.end() - 1) - 1]))
    names = [f[0] for f in funcs]
    if names.count("swap") != 1 or names.count("sort") != 1 or names[-1] != "sort" or names[0] != "swap":
        raise Refuse(f"struct QuickSort: functions {names} (expected swap first, sort last, helpers between)")
    helpers = {}
    for name, ritem, ins, outs, body in funcs:
        fn = "QuickSort::" + name
        rec = name == "sort"
        if (name == "swap" and (ritem or ins != ["a", "b"] or outs)) or (rec and (ritem or ins != ["left", "right"] or outs)):
            raise Refuse(f"{fn}: unexpected signature")
        pz = AP(atokenize(body), fn)
        stmts = pz.stmts()
        if pz.peek() is not None:
            raise Refuse(f"{fn}: trailing tokens")
        tr = TrS(fn, name, rec, helpers=dict(helpers), outs=outs, ret_item=ritem)
        env = {n: ("item", True) for n in ins}
        env.update({n: ("item", False) for n in outs})
        lines = tr.run(stmts, env, "    " if rec else "  ", lambda env2, ind2, tr=tr: tr.finish(None, env2, ind2))
        for l in tr.loops:
            parts += l
        ps = " ".join("v_" + n for n in ins)
        if rec:
            parts += [f"def {name} (lt : α → α → Bool) : Nat → GHeap α → Nat → Nat → Option (GHeap α)",
                      "  | 0, _, _, _ => none", f"  | fuel + 1, p, {', '.join('v_' + n for n in ins)} =>"] + lines + [""]
        elif name == "swap":
            parts += [f"def {name} (p : GHeap α) ({ps} : Nat) : Option (GHeap α) :="] + lines + [""]
        else:
            rty = " × ".join(["GHeap α"] + ["Nat"] * ((1 if ritem else 0) + len(outs)))
            parts += [f"def {name} (lt : α → α → Bool) (fuel : Nat) (p : GHeap α) ({ps} : Nat) : Option ({rty}) :="] + lines + [""]
            helpers[name] = (len(ins), len(outs), ritem)
        summary.append(f"{fn}:{len(stmts)} stmts/{len(tr.loops)} loop(s)")
        if rec:
            dw = (not helpers) and tr.used_dowhile and len(tr.loops) == 1
            parts += ["/-- the shape of `QuickSort::sort` in the header: one do-while partition loop inside `sort` and two recursive calls",
                      "    (the spelling for which `gen_sort_exact` states the fault-for-fault equality with the model) -/",
                      f"def sortIsDoWhile : Bool := {'true' if dw else 'false'}", ""]
            summary.append("do-while shape" if dw else "other shape (helpers / for loops)")
    # the public sort(): early return for 0 / 1 element, then QuickSort::sort(_begin.item, endItem.prev)
    pub = re.sub(r"\s+", "", extract(src, "List::sort()", r"void\s+sort\s*\(\s*\)"))
    if not (pub.startswith("if(endItem.prev==0||_begin.item==endItem.prev)return;structQuickSort{") and
            pub.endswith("};QuickSort::sort(_begin.item,endItem.prev);")):
        raise Refuse("List::sort(): not `if(endItem.prev == 0 || _begin.item == endItem.prev) return; struct QuickSort {…}; "
                     "QuickSort::sort(_begin.item, endItem.prev);`")
    parts += ["end Nstd.Generated.SeqSort", ""]
    text = "\n".join(parts)
    out_path = Path(out_path)
    out_path.parent.mkdir(parents=True, exist_ok=True)
    if not out_path.exists() or out_path.read_text() != text:
        out_path.write_text(text)
    return ", ".join(summary) + ", List::sort() wrapper shape checked"



# ======================================================================================================================
# Part 4: loops of List.hpp over the one-list heap `Ptr.PList` -> lean/Nstd/Generated/SeqList.lean
#     List::insert(const Iterator&, const List&) with `list` = the list ITSELF (`l.insert(pos, l)`)      List::clear()
# `Item*` / `Iterator` locals: non-null address (Nat) or nullable (Option Nat, when initialised from a `prev`/`next` field);
# assigning a null pointer to a non-null variable is a fault.  Calls of `insert(position, value)` become the heap-model step
# `Ptr.insert`, which `gen_list_insert` (PropsLink.lean) proves equal to the translated body of that function on every heap
# that represents a chain.  `list.<member>` is `<member>` (the argument is `*this`).
class TrL:
    def __init__(self, fn, lean_name, params, ret):
        self.fn, self.lean_name, self.params, self.ret = fn, lean_name, params, ret
        self.n = 0
        self.nloop = 0
        self.loops = []
        self.in_loop = 0

    def fresh(self):
        self.n += 1
        return f"t{self.n}"

    @staticmethod
    def strip_list(e):
        """`list.x` -> `x` (the argument is `*this`)"""
        if isinstance(e, tuple):
            if e[0] == "dot" and e[1] == ("id", "list"):
                return ("id", e[2])
            return tuple(TrL.strip_list(x) if isinstance(x, tuple) else x for x in e)
        return e

    def pure(self, e, env):
        e = self.strip_list(e)
        k = e[0]
        if k == "num" and e[1] == 0:
            return "none", "ptr"
        if k == "id":
            if e[1] in env:
                return "v_" + e[1], env[e[1]]
            if e[1] == "freeItem":
                return "h.free", "ptr"
            if e[1] == "_end":
                return "0", "nn"
        if k == "dot" and e[2] == "item":
            if e[1] == ("id", "_begin"):
                return "h.begin", "nn"
            if e[1] == ("id", "_end"):
                return "0", "nn"
            if e[1][0] == "id" and env.get(e[1][1]) == "nn":
                return "v_" + e[1][1], "nn"
        if k == "dot" and e[1] == ("id", "endItem") and e[2] == "prev":
            return "(h.prev 0)", "ptr"
        if k == "addr" and e[1] == ("id", "endItem"):
            return "0", "nn"
        if k == "arrow" and e[2] in ("value", "next", "prev"):
            t, ty = self.pure(e[1], env)
            if ty != "nn":
                raise Refuse(f"{self.fn}: `->{e[2]}` through a pointer that may be null")
            return (f"(h.val {t})", "val") if e[2] == "value" else (f"(h.{e[2]} {t})", "ptr")
        raise Refuse(f"{self.fn}: expression `{k}` is outside the translated subset")

    def cond(self, e, env):
        if e[0] == "bin" and e[1] in ("==", "!="):
            (ta, tya), (tb, tyb) = self.pure(e[2], env), self.pure(e[3], env)
            op = "=" if e[1] == "==" else "≠"
            if tya == tyb and tya in ("nn", "ptr"):
                return f"{ta} {op} {tb}"
            if tya == "nn" and tyb == "ptr":
                return f"some {ta} {op} {tb}"
            if tya == "ptr" and tyb == "nn":
                return f"{ta} {op} some {tb}"
        raise Refuse(f"{self.fn}: condition outside the translated subset (`==` / `!=` on item pointers)")

    def ev(self, e, env, ind, k):
        """k(term, type, ind)"""
        if e[0] == "call" and e[1] == "insert" and len(e[2]) == 2:
            (tp, typ), (tv, tyv) = self.pure(e[2][0], env), self.pure(e[2][1], env)
            if typ != "nn" or tyv != "val":
                raise Refuse(f"{self.fn}: `insert({typ}, {tyv})`")
            x = self.fresh()
            return [f"{ind}match Ptr.insert h {tp} {tv} with", f"{ind}| none => none", f"{ind}| some (h, {x}) =>"] + k(x, "nn", ind + "  ")
        t, ty = self.pure(e, env)
        return k(t, ty, ind)

    def assign(self, lhs, t, ty, env, ind, k):
        lhs = self.strip_list(lhs)
        if lhs[0] == "id" and lhs[1] in env:
            want = env[lhs[1]]
            if want == ty:
                return [f"{ind}let v_{lhs[1]} := {t}"] + k(ind)
            if want == "nn" and ty == "ptr":
                x = self.fresh()
                return [f"{ind}match {t} with", f"{ind}| none => none", f"{ind}| some {x} =>", f"{ind}  let v_{lhs[1]} := {x}"] + k(ind + "  ")
            if want == "ptr" and ty == "nn":
                return [f"{ind}let v_{lhs[1]} := some {t}"] + k(ind)
            raise Refuse(f"{self.fn}: a {ty} assigned to the {want} `{lhs[1]}`")
        opt = lambda: t if ty == "ptr" else f"some {t}" if ty == "nn" else None
        if lhs == ("id", "freeItem") and opt():
            return [f"{ind}let h := {{ h with free := {opt()} }}"] + k(ind)
        if lhs == ("dot", ("id", "_begin"), "item") and ty == "nn":
            return [f"{ind}let h := {{ h with begin := {t} }}"] + k(ind)
        if lhs == ("id", "_size") and ty == "ptr" and t == "none":
            return [f"{ind}let h := {{ h with size := 0 }}"] + k(ind)
        if lhs == ("dot", ("id", "endItem"), "prev") and opt():
            return [f"{ind}let h := {{ h with prev := Ptr.set h.prev 0 {opt()} }}"] + k(ind)
        if lhs[0] == "arrow" and lhs[2] in ("prev", "next") and opt():
            a, aty = self.pure(lhs[1], env)
            if aty != "nn":
                raise Refuse(f"{self.fn}: store through a pointer that may be null")
            return [f"{ind}let h := {{ h with {lhs[2]} := Ptr.set h.{lhs[2]} {a} {opt()} }}"] + k(ind)
        raise Refuse(f"{self.fn}: assignment outside the translated subset")

    def run(self, stmts, env, ind, tail):
        if not stmts:
            return tail(env, ind)
        s, rest = stmts[0], stmts[1:]
        cont = lambda env2, ind2: self.run(rest, env2, ind2, tail)
        restrict = lambda e2, outer: {n: t for n, t in e2.items() if n in outer}
        k = s[0]
        if k == "block":
            return self.run(list(s[1]), dict(env), ind, lambda env2, ind2: cont(restrict(env2, env), ind2))
        if k == "decl":
            def go(j, env2, i):
                if j == len(s[1]):
                    return cont(env2, i)
                ty, name, init = s[1][j]
                if ty not in ("item", "iter") or init is None or name in env2 or name in ("h", "fuel"):
                    raise Refuse(f"{self.fn}: declaration of `{name}` is outside the translated subset")

                def after(t, ety, i2):
                    if ety not in ("nn", "ptr") or (ty == "iter" and ety != "nn"):
                        raise Refuse(f"{self.fn}: `{name}` initialised with a {ety}")
                    env3 = dict(env2)
                    env3[name] = ety
                    return [f"{i2}let v_{name} := {t}"] + go(j + 1, env3, i2)
                return self.ev(init, env2, i, after)
            return go(0, env, ind)
        if k == "if":
            c = self.cond(s[1], env)
            back = lambda env2, ind2: cont(restrict(env2, env), ind2)
            return ([f"{ind}if {c} then"] + self.run([s[2]], dict(env), ind + "  ", back) +
                    [f"{ind}else"] + self.run([s[3]], dict(env), ind + "  ", back))
        if k == "return":
            if self.in_loop or self.ret is None or s[1] is None:
                raise Refuse(f"{self.fn}: this `return` is outside the translated subset")
            t, ty = self.pure(s[1], env)
            if ty != "nn":
                raise Refuse(f"{self.fn}: returns a {ty}")
            return [f"{ind}some (h, {t})"]
        if k == "expr":
            e = s[1]
            if e[0] == "destroy":
                self.pure(e[1], env)
                return cont(env, ind)
            if e[0] == "assign":
                return self.ev(e[2], env, ind, lambda t, ty, i: self.assign(e[1], t, ty, env, i, lambda i2: cont(env, i2)))
            if e[0] == "call":
                return self.ev(e, env, ind, lambda t, ty, i: cont(env, i))
            raise Refuse(f"{self.fn}: expression statement `{e[0]}`")
        if k == "for":
            init, c, steps, body = s[1], s[2], s[3], s[4]
            if c is None:
                raise Refuse(f"{self.fn}: loop without a condition")

            def after_init(env1, ind1):
                self.nloop += 1
                name = f"{self.lean_name}_loop{self.nloop}"
                vs = list(env1.items())
                names = " ".join("v_" + n for n, _ in vs)
                tup = ", ".join(["h"] + ["v_" + n for n, _ in vs])
                lty = {"nn": "Nat", "ptr": "Option Nat", "val": "Int"}
                self.in_loop += 1
                inner = self.run([body] + [("expr", x) for x in steps], dict(env1), "      ",
                                 lambda env2, ind2: [f"{ind2}{name} fuel h {names}".rstrip()])
                self.in_loop -= 1
                sig = " → ".join(["Nat", "PList"] + [lty[t] for _, t in vs] + ["Option (" + " × ".join(["PList"] + [lty[t] for _, t in vs]) + ")"])
                self.loops.append([f"def {name} : {sig}", "  | 0, " + ", ".join(["_"] * (1 + len(vs))) + " => none",
                                   f"  | fuel + 1, {tup} =>", f"    if {self.cond(c, env1)} then"] + inner +
                                  ["    else", f"      some ({tup})", ""])
                return ([f"{ind1}match {name} fuel h {names} with", f"{ind1}| none => none", f"{ind1}| some ({tup}) =>"] +
                        cont(restrict(env1, env), ind1 + "  "))
            return self.run([init] if init else [], dict(env), ind, after_init)
        raise Refuse(f"{self.fn}: statement `{k}` is outside the translated subset")


def generate_list(repo, out_path):
    src = strip_comments((Path(repo) / "include/nstd/List.hpp").read_text())
    parts = ["/- generated by tools/gen_seq.py from include/nstd/List.hpp (loops) - do not edit -/",
             "import Nstd.Seq.PtrModel", "", "set_option linter.unusedVariables false", "",
             "namespace Nstd.Generated.SeqList", "open Nstd.Seq", "open Nstd.Seq.Ptr (PList)", ""]
    summary = []
    specs = [("List::insert(position, list) [list = *this]", "insertSelf",
              r"Iterator\s+insert\s*\(\s*const\s+Iterator\s*&\s*position\s*,\s*const\s+List\s*&\s*list\s*\)", [("position", "nn")], "nn"),
             ("List::clear", "clear", r"void\s+clear\s*\(\s*\)", [], None)]
    for fn, lean, rx, params, ret in specs:
        body = extract(src, fn, rx)
        pz = AP(atokenize(body), fn)
        stmts = pz.stmts()
        if pz.peek() is not None:
            raise Refuse(f"{fn}: trailing tokens")
        tr = TrL(fn, lean, params, ret)

        def tail(env2, ind2, tr=tr, fn=fn):
            if tr.ret is not None:
                raise Refuse(f"{fn}: control reaches the end of a function that returns a value")
            return [f"{ind2}some h"]
        lines = tr.run(stmts, {n: t for n, t in params}, "  ", tail)
        for l in tr.loops:
            parts += l
        sig = "".join(f" (v_{n} : Nat)" for n, _ in params)
        parts += [f"/-- {fn} -/", f"def {lean} (fuel : Nat) (h : PList){sig} : Option ({'PList × Nat' if ret else 'PList'}) :="] + lines + [""]
        summary.append(f"{fn}:{len(stmts)} stmts/{len(tr.loops)} loop(s)")
    parts += ["end Nstd.Generated.SeqList", ""]
    text = "\n".join(parts)
    out_path = Path(out_path)
    out_path.parent.mkdir(parents=True, exist_ok=True)
    if not out_path.exists() or out_path.read_text() != text:
        out_path.write_text(text)
    return ", ".join(summary)


if __name__ == "__main__":
    repo = sys.argv[1] if len(sys.argv) > 1 else "/repo"
    gen_dir = Path(sys.argv[2]) if len(sys.argv) > 2 else Path(__file__).resolve().parents[1] / "lean/Nstd/Generated"
    try:
        print(generate(repo, gen_dir / "SeqLink.lean"))
        print(generate_array(repo, gen_dir / "SeqArr.lean"))
        print(generate_sort(repo, gen_dir / "SeqSort.lean"))
        print(generate_list(repo, gen_dir / "SeqList.lean"))
    except Refuse as e:
        print("REFUSED:", e)
        sys.exit(1)
