#!/usr/bin/env python3
"""Translator for the relinking pointer code of List.hpp / PoolList.hpp (property C03).

Extracts from the CURRENT headers the bodies of
    List::insert(const Iterator&, const T&)   List::remove(const Iterator&)   List::swap(List&)
    PoolList::linkFreeItem(T*)                PoolList::remove(const T&)      PoolList::swap(PoolList&)
(tokenizer + recursive-descent parser for the C++ subset these bodies are written in) and writes them, statement by
statement, as Lean functions over the heap of lean/Nstd/Seq/PtrModel.lean (`Ptr.PList`: one list, sentinel address 0) resp.
lean/Nstd/Seq/PtrSwap.lean (`Ptr2.Heap` + two `Ptr2.Hdr`: two lists in one heap, for swap) into
lean/Nstd/Generated/SeqLink.lean.  lean/Nstd/Seq/PropsLink.lean proves that the generated functions are the hand-written
heap-model steps `Ptr.insert` / `Ptr.remove` / `Ptr.link` / `Ptr.unlink` / `Ptr2.swap` on every heap that represents a chain.

Anything outside the understood subset is REFUSED (exception -> the check reports a broken tie): unknown statements, members,
fields, loops, pointer arithmetic, iterator operators (`++it`), calls, address-of other than `&endItem`.

Semantics of the translation (assumptions, listed in the MANIFEST note):
  Item* (nullable)        -> Option Nat (none = null);   dereferencing null = fault: the whole function returns `none`
  _begin.item, &endItem, it.item / position.item (never null by the class invariant / precondition) -> Nat; storing a null
                             pointer into `_begin.item` is a fault
  usize _size, ItemBlock* blocks -> Nat (blocks: opaque handle)
  `if(!freeItem-or-local) { … new char[…] … }` / `if(!freeItem) helper();` with `new char[` inside the helper: the block
      allocation.  NOT translated: replaced by the model's `Ptr.refill` (tied by the executed constants probe and the white-box
      free-list comparison of the correspondence run); the block must end with `freeItem = <the tested local>;`
  `new(p) Item(value);`   -> p->value := value
  `p->~Item();` `((T*)(p + 1))->~T();` -> skipped (destructor of the element: no link is touched)
  `Item* item = (Item*)&value - 1;` (PoolList::remove) -> item := the header of the element, passed as the parameter `it`
  `return *t;` (PoolList::linkFreeItem) -> no value returned
  `(a = b)->f = c` : c, then b, then the stores (C++17 order; the older unsequenced rule gives the same result here because
      the inner store and the read of c concern different fields)
"""
import re
import sys
from pathlib import Path


class Refuse(Exception):
    pass


def strip_comments(src):
    src = re.sub(r"/\*.*?\*/", " ", src, flags=re.S)
    return re.sub(r"//[^\n]*", "", src)


TOK = re.compile(r"\s*(->|==|!=|<=|>=|&&|\|\||\+\+|--|[A-Za-z_]\w*|\d+|[{}()\[\];,<>=+\-*/!?:&.~|^%])")


def tokenize(text):
    toks, pos = [], 0
    text = text.rstrip()
    while pos < len(text):
        m = TOK.match(text, pos)
        if not m:
            if text[pos:].strip() == "":
                break
            raise Refuse(f"cannot tokenize at {text[pos:pos + 30]!r}")
        toks.append(m.group(1))
        pos = m.end()
    return toks


def balanced(src, start):
    depth = 0
    for i in range(start, len(src)):
        if src[i] == "{":
            depth += 1
        elif src[i] == "}":
            depth -= 1
            if depth == 0:
                return i + 1
    raise Refuse("unbalanced braces")


def extract(src, what, sig_rx):
    ms = list(re.finditer(sig_rx + r"\s*\{", src))
    if len(ms) != 1:
        raise Refuse(f"{what}: {len(ms)} definitions found, expected exactly one")
    m = ms[0]
    end = balanced(src, m.end() - 1)
    return src[m.end():end - 1]


# ---- parser ----------------------------------------------------------------------------------------------------------
class P:
    def __init__(self, toks, fn, src):
        self.t, self.i, self.fn, self.src = toks, 0, fn, src

    def peek(self, k=0):
        return self.t[self.i + k] if self.i + k < len(self.t) else None

    def eat(self, x=None):
        tok = self.peek()
        if tok is None or (x is not None and tok != x):
            raise Refuse(f"{self.fn}: expected {x!r}, found {tok!r}")
        self.i += 1
        return tok

    def upto_semicolon(self):
        j = self.i
        while j < len(self.t) and self.t[j] != ";":
            if self.t[j] in ("{", "}"):
                return None
            j += 1
        return "".join(self.t[self.i:j]) if j < len(self.t) else None

    def stmts(self):
        out = []
        while self.peek() is not None and self.peek() != "}":
            out.append(self.stmt())
        return out

    def substmt_tokens(self):
        """tokens of the statement that starts at the cursor (a block or up to ';'), without consuming"""
        j = self.i
        if self.t[j] == "{":
            depth = 0
            while True:
                if self.t[j] == "{":
                    depth += 1
                elif self.t[j] == "}":
                    depth -= 1
                    if depth == 0:
                        return self.t[self.i:j + 1]
                j += 1
        while self.t[j] != ";":
            j += 1
        return self.t[self.i:j + 1]

    def stmt(self):
        tok = self.peek()
        if tok == "{":
            self.eat("{")
            b = self.stmts()
            self.eat("}")
            return ("block", b)
        if tok == "if":
            self.eat("if"); self.eat("(")
            c = self.expr()
            self.eat(")")
            sub = self.substmt_tokens()
            alloc = self.allocation(c, sub)
            if alloc is not None:
                self.i += len(sub)
                if self.peek() == "else":
                    raise Refuse(f"{self.fn}: the allocation statement has an else branch")
                return alloc
            a = self.stmt()
            b = ("block", [])
            if self.peek() == "else":
                self.eat("else")
                b = self.stmt()
            return ("if", c, a, b)
        if tok == "return":
            if self.upto_semicolon() == "return*t":
                self.i += 3; self.eat(";")
                return ("return", None)
            self.eat("return")
            e = self.expr()
            self.eat(";")
            return ("return", e)
        if tok in ("for", "while", "do", "switch", "goto", "break", "continue", "delete"):
            raise Refuse(f"{self.fn}: statement `{tok}` is outside the translated subset")
        text = self.upto_semicolon()
        if text is not None:
            m = re.fullmatch(r"(\w+)->~Item\(\)", text) or re.fullmatch(r"\(\(T\*\)\((\w+)\+1\)\)->~T\(\)", text)
            if m:
                while self.eat() != ";":
                    pass
                return ("destroy", m.group(1))
            m = re.fullmatch(r"new\((\w+)\)Item\((\w+)\)", text)
            if m:
                while self.eat() != ";":
                    pass
                return ("construct", m.group(1), m.group(2))
            m = re.fullmatch(r"Item\*(\w+)=\(Item\*\)&value-1", text)
            if m:
                while self.eat() != ";":
                    pass
                return ("decl", "Item*", m.group(1), ("hdr_of_value",))
        if tok == "new":
            raise Refuse(f"{self.fn}: `new` expression outside the understood placement form")
        if tok == "const" and self.peek(1) in ("Item", "ItemBlock", "usize"):
            self.eat()
            tok = self.peek()
        if tok in ("Item", "ItemBlock", "usize") and self.peek(1) in ("*",) or (tok == "usize" and re.fullmatch(r"[A-Za-z_]\w*", self.peek(1) or "")):
            ty = self.eat()
            if self.peek() == "*":
                self.eat("*"); ty += "*"
            name = self.eat()
            if not re.fullmatch(r"[A-Za-z_]\w*", name) or self.peek() != "=":
                raise Refuse(f"{self.fn}: declarator of `{name}`")
            self.eat("=")
            e = self.expr()
            if self.peek() == ",":
                raise Refuse(f"{self.fn}: several declarators in one declaration")
            self.eat(";")
            return ("decl", ty, name, e)
        e = self.expr()
        self.eat(";")
        return ("expr", e)

    def allocation(self, cond, sub):
        """the block allocation `if(!x) { … new char[…] … freeItem = x; }` or `if(!freeItem) helper();`"""
        if cond[0] != "not" or cond[1][0] != "id":
            return None
        x = cond[1][1]
        if sub[0] == "{":
            if not any(sub[k] == "new" and sub[k + 1] == "char" for k in range(len(sub) - 1)):
                return None
            if sub[-5:] != ["freeItem", "=", x, ";", "}"] and x != "freeItem":
                raise Refuse(f"{self.fn}: the allocation block does not end with `freeItem = {x};`")
            return ("alloc", x)
        if len(sub) == 4 and sub[1:] == ["(", ")", ";"]:
            helper = sub[0]
            ms = list(re.finditer(r"void\s+" + helper + r"\s*\(\s*\)\s*\{", self.src))
            if len(ms) != 1:
                raise Refuse(f"{self.fn}: call of `{helper}()`: {len(ms)} definitions found")
            body = self.src[ms[0].end():balanced(self.src, ms[0].end() - 1)]
            if "new char[" not in re.sub(r"\s+", " ", body) or x != "freeItem":
                raise Refuse(f"{self.fn}: call of `{helper}()` is not the understood allocation helper")
            if not re.search(r"freeItem\s*=\s*\w+\s*;\s*\}\s*$", body):
                raise Refuse(f"{self.fn}: `{helper}()` does not end with an assignment to freeItem")
            return ("alloc", x)
        return None

    def expr(self):
        lhs = self.unary()
        if self.peek() == "=":
            self.eat("=")
            return ("assign", lhs, self.expr())
        if self.peek() in ("==", "!=", "<", ">", "+", "-", "*", "/", "&&", "||", "?", "[", "<=", ">="):
            raise Refuse(f"{self.fn}: operator `{self.peek()}` is outside the translated subset")
        return lhs

    def unary(self):
        tok = self.peek()
        if tok == "!":
            self.eat()
            return ("not", self.unary())
        if tok in ("++", "--"):
            self.eat()
            return ("pre" + ("inc" if tok == "++" else "dec"), self.unary())
        if tok == "&":
            self.eat()
            e = self.postfix()
            if e == ("id", "endItem"):
                return ("endptr", "this")
            if e == ("dot", ("id", "other"), "endItem"):
                return ("endptr", "other")
            raise Refuse(f"{self.fn}: address-of other than `&endItem`")
        if tok in ("*", "~", "-", "+"):
            raise Refuse(f"{self.fn}: operator `{tok}` is outside the translated subset")
        return self.postfix()

    def postfix(self):
        tok = self.eat()
        if tok == "(":
            a = self.expr()
            self.eat(")")
        elif tok == "0":
            a = ("null",)
        elif re.fullmatch(r"[A-Za-z_]\w*", tok):
            if self.peek() == "(":
                raise Refuse(f"{self.fn}: call of `{tok}` is outside the translated subset")
            a = ("id", tok)
        else:
            raise Refuse(f"{self.fn}: unexpected token {tok!r}")
        while self.peek() in ("->", ".", "[", "++", "--"):
            op = self.eat()
            if op not in ("->", "."):
                raise Refuse(f"{self.fn}: operator `{op}` is outside the translated subset")
            f = self.eat()
            if not re.fullmatch(r"[A-Za-z_]\w*", f) or self.peek() == "(":
                raise Refuse(f"{self.fn}: member `{f}` / member call is outside the translated subset")
            a = ("arrow" if op == "->" else "dot", a, f)
        return a


# ---- translation -------------------------------------------------------------------------------------------------------
# types: ptr = Option Nat, nn = Nat (non-null pointer), nat, val
HEAP_FIELDS = {"prev": "ptr", "next": "ptr", "value": "val"}
MEMBERS = {"freeItem": ("free", "ptr"), "_size": ("size", "nat"), "blocks": ("blocks", "nat")}


class Tr:
    """backend 'A': state `h : Ptr.PList` (sentinel address 0);  backend 'B': `H : Ptr2.Heap`, `A B : Ptr2.Hdr`, `eA eB`"""

    def __init__(self, fn, backend, params, returns):
        self.fn, self.backend, self.params, self.returns = fn, backend, params, returns
        self.n = 0

    def fresh(self, base):
        self.n += 1
        return f"{base}{self.n}"

    # --- state access
    def heapvar(self):
        return "h" if self.backend == "A" else "H"

    def objvar(self, obj):
        if self.backend == "A":
            if obj != "this":
                raise Refuse(f"{self.fn}: a second list object in a one-list function")
            return "h"
        return "A" if obj == "this" else "B"

    def sentinel(self, obj):
        if self.backend == "A":
            if obj != "this":
                raise Refuse(f"{self.fn}: a second list object in a one-list function")
            return "0"
        return "eA" if obj == "this" else "eB"

    def state(self):
        return "h" if self.backend == "A" else "(H, A, B)"

    def read_field(self, addr, f):
        if f not in HEAP_FIELDS:
            raise Refuse(f"{self.fn}: `{f}` is not a translated field of Item")
        hf = "val" if f == "value" else f
        return f"({self.heapvar()}.{hf} {addr})", HEAP_FIELDS[f]

    def write_field(self, addr, f, term, ty):
        if f not in HEAP_FIELDS:
            raise Refuse(f"{self.fn}: `{f}` is not a translated field of Item")
        want = HEAP_FIELDS[f]
        hf = "val" if f == "value" else f
        v = self.coerce(term, ty, want)
        hv = self.heapvar()
        return f"let {hv} := {{ {hv} with {hf} := Ptr.set {hv}.{hf} {addr} {v} }}"

    def coerce(self, term, ty, want):
        if ty == want:
            return term
        if ty == "nn" and want == "ptr":
            return f"(some {term})"
        if ty == "null" and want == "ptr":
            return "none"
        raise Refuse(f"{self.fn}: a value of type {ty} is stored where {want} is expected")

    def member(self, obj, name):
        """(kind, lean field, type) of a scalar member of a list object"""
        if name in MEMBERS:
            lf, ty = MEMBERS[name]
            if lf == "blocks" and self.backend == "A":
                raise Refuse(f"{self.fn}: `blocks` outside swap")
            return lf, ty
        raise Refuse(f"{self.fn}: unknown member `{name}`")

    # --- lvalues: ('local', name) | ('member', obj, leanfield, ty) | ('field', addr-expr, fieldname)
    def lvalue(self, e, env):
        k = e[0]
        if k == "id":
            x = e[1]
            if x in env:
                return ("local", x)
            lf, ty = self.member("this", x)
            return ("member", "this", lf, ty)
        if k == "dot":
            base, f = e[1], e[2]
            if base == ("id", "_begin") and f == "item":
                return ("member", "this", "begin", "nn")
            if base == ("dot", ("id", "other"), "_begin") and f == "item":
                return ("member", "other", "begin", "nn")
            if base == ("id", "other"):
                lf, ty = self.member("other", f)
                return ("member", "other", lf, ty)
            if base == ("id", "endItem"):
                return ("field", ("endptr", "this"), f)
            if base == ("dot", ("id", "other"), "endItem"):
                return ("field", ("endptr", "other"), f)
            raise Refuse(f"{self.fn}: `.{f}` on an expression that is not understood")
        if k == "arrow":
            return ("field", e[1], e[2])
        raise Refuse(f"{self.fn}: not an lvalue: {k}")

    # --- expressions in continuation-passing style: k(term, type, env, ind) -> lines
    def ev(self, e, env, ind, k):
        kind = e[0]
        if kind == "null":
            return k("none", "ptr", env, ind)
        if kind == "hdr_of_value":
            if "value_hdr" not in self.params:
                raise Refuse(f"{self.fn}: `(Item*)&value - 1` in a function without such a parameter")
            return k("it", "nn", env, ind)
        if kind == "endptr":
            return k(self.sentinel(e[1]), "nn", env, ind)
        if kind == "id" and e[1] in env:
            t, ty = env[e[1]]
            return k(t, ty, env, ind)
        if kind == "id" and e[1] == "value" and "value" in self.params:
            return k("value", "val", env, ind)
        if kind == "dot" and e[1][0] == "id" and e[1][1] in self.params and self.params[e[1][1]] == "iter" and e[2] == "item":
            return k(e[1][1], "nn", env, ind)
        if kind == "dot" and e[1] == ("id", "_end") and e[2] == "item":
            return k(self.sentinel("this"), "nn", env, ind)
        if kind in ("id", "dot", "arrow"):
            lv = self.lvalue(e, env)
            if lv[0] == "member":
                return k(f"{self.objvar(lv[1])}.{lv[2]}", lv[3], env, ind)
            if lv[0] == "field":
                def after(addr, env2, ind2):
                    t, ty = self.read_field(addr, lv[2])
                    return k(t, ty, env2, ind2)
                return self.deref(lv[1], env, ind, after)
        if kind == "assign":
            def after_rhs(t, ty, env2, ind2):
                name = self.fresh("t")
                lines = [f"{ind2}let {name} := {t}"]
                return lines + self.store(e[1], name, ty, env2, ind2, lambda env3, ind3: k(name, ty, env3, ind3))
            return self.ev(e[2], env, ind, after_rhs)
        if kind in ("preinc", "predec"):
            raise Refuse(f"{self.fn}: `++`/`--` used as a value (e.g. `return ++it`: an iterator operator) is outside the translated subset")
        raise Refuse(f"{self.fn}: expression `{kind}` is outside the translated subset")

    def deref(self, e, env, ind, k):
        """k(address term : Nat, env, ind); a null pointer is a fault"""
        def after(t, ty, env2, ind2):
            if ty == "nn":
                return k(t, env2, ind2)
            if ty != "ptr":
                raise Refuse(f"{self.fn}: `->` applied to a value of type {ty}")
            a = self.fresh("a")
            env3 = dict(env2)
            if e[0] == "id" and e[1] in env3:
                env3[e[1]] = (a, "nn")
            return ([f"{ind2}match {t} with", f"{ind2}| none => none", f"{ind2}| some {a} =>"] + k(a, env3, ind2 + "  "))
        return self.ev(e, env, ind, after)

    def store(self, lhs, term, ty, env, ind, k):
        """k(env, ind)"""
        lv = self.lvalue(lhs, env)
        if lv[0] == "local":
            env2 = dict(env)
            name = self.fresh("v_" + lv[1] + "_")
            env2[lv[1]] = (name, ty)
            return [f"{ind}let {name} := {term}"] + k(env2, ind)
        if lv[0] == "member":
            ov, lf, want = self.objvar(lv[1]), lv[2], lv[3]
            if want == "nn" and ty == "ptr":
                a = self.fresh("a")          # storing null into `_begin.item` is a fault
                return ([f"{ind}match {term} with", f"{ind}| none => none", f"{ind}| some {a} =>",
                         f"{ind}  let {ov} := {{ {ov} with {lf} := {a} }}"] + k(env, ind + "  "))
            v = self.coerce(term, ty, want)
            return [f"{ind}let {ov} := {{ {ov} with {lf} := {v} }}"] + k(env, ind)

        def after(addr, env2, ind2):
            return [ind2 + self.write_field(addr, lv[2], term, ty)] + k(env2, ind2)
        return self.deref(lv[1], env, ind, after)

    def cond(self, c, env, ind, kthen, kelse):
        if c[0] == "not":
            return self.cond(c[1], env, ind, kelse, kthen)

        def after(t, ty, env2, ind2):
            if ty != "ptr":
                raise Refuse(f"{self.fn}: condition of type {ty}")
            a = self.fresh("a")
            env3 = dict(env2)
            if c[0] == "id" and c[1] in env3:
                env3[c[1]] = (a, "nn")
            return ([f"{ind2}match {t} with", f"{ind2}| some {a} =>"] + kthen(env3, ind2 + "  ") +
                    [f"{ind2}| none =>"] + kelse(env2, ind2 + "  "))
        return self.ev(c, env, ind, after)

    # --- statements: the list `rest` is what follows (both branches of an `if` continue with it)
    def run(self, stmts, env, ind):
        if not stmts:
            if self.returns:
                raise Refuse(f"{self.fn}: control reaches the end of a function that returns a value")
            return [f"{ind}some {self.state()}"]
        s, rest = stmts[0], stmts[1:]
        go = lambda env2, ind2: self.run(rest, env2, ind2)
        k = s[0]
        if k == "block":
            return self.run(list(s[1]) + rest, env, ind)       # no declaration of the subset is shadowed by a block
        if k == "destroy":
            if s[1] not in env:
                raise Refuse(f"{self.fn}: destructor call on unknown `{s[1]}`")
            return go(env, ind)
        if k == "construct":
            return self.store(("arrow", ("id", s[1]), "value"), "value", "val", env, ind, go)
        if k == "decl":
            ty, name, e = s[1], s[2], s[3]
            if name in env:
                raise Refuse(f"{self.fn}: `{name}` declared twice")

            def after(t, ety, env2, ind2):
                want = {"Item*": ("ptr", "nn"), "usize": ("nat",), "ItemBlock*": ("nat",)}[ty]
                if ety not in want:
                    raise Refuse(f"{self.fn}: `{ty} {name}` initialised with a value of type {ety}")
                env3 = dict(env2)
                env3[name] = ("v_" + name, ety)
                return [f"{ind2}let v_{name} := {t}"] + go(env3, ind2)
            return self.ev(e, env, ind, after)
        if k == "alloc":
            x = s[1]
            if self.backend != "A":
                raise Refuse(f"{self.fn}: block allocation inside a two-list function")
            if x == "freeItem":
                return ([f"{ind}let h := if h.free.isNone then Ptr.refill h else h"] + go(env, ind))
            if x not in env or env[x][1] != "ptr":
                raise Refuse(f"{self.fn}: the allocation tests `{x}`, which is not a pointer variable")
            name = self.fresh("v_" + x + "_")
            env2 = dict(env)
            env2[x] = (name, "ptr")
            return ([f"{ind}let h := if {env[x][0]}.isNone then Ptr.refill h else h",
                     f"{ind}let {name} := if {env[x][0]}.isNone then h.free else {env[x][0]}"] + go(env2, ind))
        if k == "if":
            return self.cond(s[1], env, ind,
                             lambda env2, ind2: self.run([s[2]] + rest, env2, ind2),
                             lambda env2, ind2: self.run([s[3]] + rest, env2, ind2))
        if k == "return":
            if s[1] is None:
                return [f"{ind}some {self.state()}"]
            if not self.returns:
                raise Refuse(f"{self.fn}: value returned from a void function")

            def after(t, ty, env2, ind2):
                if ty == "nn":
                    return [f"{ind2}some ({self.state()}, some {t})"]
                if ty == "ptr":
                    return [f"{ind2}some ({self.state()}, {t})"]
                raise Refuse(f"{self.fn}: returns a value of type {ty}")
            return self.ev(s[1], env, ind, after)
        if k == "expr":
            e = s[1]
            if e[0] in ("preinc", "predec"):
                lv = self.lvalue(e[1], env)
                if lv[0] != "member" or lv[3] != "nat":
                    raise Refuse(f"{self.fn}: `++`/`--` on something that is not `_size` (e.g. an iterator)")
                ov = self.objvar(lv[1])
                op = "+" if e[0] == "preinc" else "-"
                return [f"{ind}let {ov} := {{ {ov} with {lv[2]} := {ov}.{lv[2]} {op} 1 }}"] + go(env, ind)
            if e[0] == "assign":
                return self.ev(e, env, ind, lambda t, ty, env2, ind2: go(env2, ind2))
            raise Refuse(f"{self.fn}: expression statement `{e[0]}` without effect / outside the subset")
        raise Refuse(f"{self.fn}: statement `{k}`")


FUNCS = [
    # (lean namespace, lean name, header, signature regex, backend, params (name -> kind), returns a pointer?, lean signature)
    ("List", "insert", "include/nstd/List.hpp",
     r"Iterator\s+insert\s*\(\s*const\s+Iterator\s*&\s*position\s*,\s*const\s+T\s*&\s*value\s*\)",
     "A", {"position": "iter", "value": "val"}, True, "(h : PList) (position : Nat) (value : Int) : Option (PList × Option Nat)"),
    ("List", "remove", "include/nstd/List.hpp",
     r"Iterator\s+remove\s*\(\s*const\s+Iterator\s*&\s*it\s*\)",
     "A", {"it": "iter"}, True, "(h : PList) (it : Nat) : Option (PList × Option Nat)"),
    ("List", "swap", "include/nstd/List.hpp", r"void\s+swap\s*\(\s*List\s*&\s*other\s*\)",
     "B", {}, False, "(H : Heap) (eA eB : Nat) (A B : Hdr) : Option (Heap × Hdr × Hdr)"),
    ("PoolList", "linkFreeItem", "include/nstd/PoolList.hpp", r"T\s*&\s*linkFreeItem\s*\(\s*T\s*\*\s*t\s*\)",
     "A", {}, False, "(h : PList) : Option PList"),
    ("PoolList", "remove", "include/nstd/PoolList.hpp", r"void\s+remove\s*\(\s*const\s+T\s*&\s*value\s*\)",
     "A", {"value_hdr": "hdr"}, False, "(h : PList) (it : Nat) : Option PList"),
    ("PoolList", "swap", "include/nstd/PoolList.hpp", r"void\s+swap\s*\(\s*PoolList\s*&\s*other\s*\)",
     "B", {}, False, "(H : Heap) (eA eB : Nat) (A B : Hdr) : Option (Heap × Hdr × Hdr)"),
]


def check_append_overloads(src):
    """every `PoolList::append` overload must be `T& append(A a, B b, …) {return linkFreeItem(new (allocateFreeItem()) T(a, b, …));}`
    with the parameters handed to T's constructor in their order (`T` without parentheses for no parameter): the linking of all
    arities is then the translated `linkFreeItem`.  Returns the list of arities found."""
    arities = []
    for m in re.finditer(r"T\s*&\s*append\s*\(([^)]*)\)\s*\{([^}]*)\}", src):
        params = [p.strip() for p in m.group(1).split(",") if p.strip()]
        names = []
        for prm in params:
            mm = re.fullmatch(r"([A-Z])\s+([a-z])", prm)
            if not mm:
                raise Refuse(f"PoolList::append: parameter `{prm}` is not of the understood form `A a`")
            names.append(mm.group(2))
        body = re.sub(r"\s+", "", m.group(2))
        want = "returnlinkFreeItem(new(allocateFreeItem())T" + ("(" + ",".join(names) + ")" if names else "") + ");"
        if body != want:
            raise Refuse(f"PoolList::append with {len(names)} parameter(s): body `{body}` is not `{want}`")
        arities.append(len(names))
    if not arities:
        raise Refuse("PoolList::append: no overload found")
    # allocateFreeItem: take the head of the free list (allocating a block when it is empty) and return the element slot
    # behind its header, leaving `freeItem` pointing at it for linkFreeItem
    body = re.sub(r"\s+", "", extract(src, "PoolList::allocateFreeItem", r"T\s*\*\s*allocateFreeItem\s*\(\s*\)"))
    if not re.fullmatch(r"Item\*item=freeItem;if\(!item\)\{.*newchar\[.*freeItem=item;\}return\(T\*\)\(item\+1\);", body):
        raise Refuse("PoolList::allocateFreeItem is not `Item* item = freeItem; if(!item) {<block allocation> freeItem = item;} "
                     "return (T*)(item + 1);`")
    if sorted(arities) != list(range(len(arities))):
        raise Refuse(f"PoolList::append: arities {sorted(arities)} are not 0..n")
    return sorted(arities)


def generate(repo, out_path):
    """writes out_path (only when the content changes); returns a one-line summary; raises Refuse"""
    repo = Path(repo)
    srcs = {}
    parts = ["/- generated by tools/gen_seq.py from include/nstd/{List,PoolList}.hpp - do not edit -/",
             "import Nstd.Seq.PtrModel", "import Nstd.Seq.PtrSwap", "", "set_option linter.unusedVariables false", "",
             "namespace Nstd.Generated.SeqLink", "open Nstd.Seq", "open Nstd.Seq.Ptr (PList)", "open Nstd.Seq.Ptr2 (Heap Hdr)", ""]
    summary = []
    cur = None
    for ns, name, header, rx, backend, params, returns, sig in FUNCS:
        if header not in srcs:
            srcs[header] = strip_comments((repo / header).read_text())
        src = srcs[header]
        fn = f"{ns}::{name}"
        body = extract(src, fn, rx)
        p = P(tokenize(body), fn, src)
        stmts = p.stmts()
        if p.peek() is not None:
            raise Refuse(f"{fn}: trailing tokens")
        tr = Tr(fn, backend, params, returns)
        lines = tr.run(stmts, {}, "  ")
        if cur != ns:
            if cur is not None:
                parts += [f"end {cur}", ""]
            parts += [f"/-! ### {header} -/", f"namespace {ns}", ""]
            cur = ns
        parts += [f"def {name} {sig} :=" ] + lines + [""]
        summary.append(f"{fn}:{len(stmts)} stmts")
    ar = check_append_overloads(srcs["include/nstd/PoolList.hpp"])
    parts += ["/-- the arities of `PoolList::append`; every overload is `linkFreeItem(new (allocateFreeItem()) T(a, b, …))` with the",
              "    parameters in their order (checked by the translator) -/",
              f"def appendArities : List Nat := {ar}", ""]
    summary.append(f"PoolList::append arities {ar[0]}..{ar[-1]} of the shape linkFreeItem(new (allocateFreeItem()) T(params in order))")
    parts += [f"end {cur}", "", "end Nstd.Generated.SeqLink", ""]
    text = "\n".join(parts)
    out_path = Path(out_path)
    out_path.parent.mkdir(parents=True, exist_ok=True)
    if not out_path.exists() or out_path.read_text() != text:
        out_path.write_text(text)
    return ", ".join(summary)


if __name__ == "__main__":
    repo = sys.argv[1] if len(sys.argv) > 1 else "/repo"
    out = sys.argv[2] if len(sys.argv) > 2 else str(Path(__file__).resolve().parents[1] / "lean/Nstd/Generated/SeqLink.lean")
    try:
        print(generate(repo, out))
    except Refuse as e:
        print("REFUSED:", e)
        sys.exit(1)
